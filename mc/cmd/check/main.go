package main

import (
	"verif/mc/fw"
	_ "verif/mc/props"
)

func main() { fw.Main() }
