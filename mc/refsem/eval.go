package refsem

import (
	"fmt"
	"math"
	"regexp"
	"sort"
	"strconv"
	"strings"
	"unicode"
	"unicode/utf8"
)

type ctl uint8

const (
	cNone ctl = iota
	cBreak
	cContinue
	cReturn
	cNext
	cExit
	cError
	cAbort // the model's own step budget: the case is not compared
)

const FrameLimit = 4096

type Frame struct {
	Name string
	Vars map[string]*Slot
}

// Ref is the result of evaluating an expression: a location holding a value,
// or a pending path (a location that does not exist yet and reads as null).
type Ref struct {
	Slot *Slot
	Pend *Pending
}

type Pending struct {
	Base *Slot   // the existing value the path hangs off
	Keys []Value // num or str keys, outermost first
}

func tmp(v Value) Ref { return Ref{Slot: &Slot{v}} }

func (r Ref) Val() Value {
	if r.Pend != nil {
		return Null()
	}
	return r.Slot.V
}

type Machine struct {
	Out      strings.Builder
	Frames   []*Frame
	Root     *Slot // current $; nil: unknown variable
	KO       KeyOrder
	Steps    int64
	MaxSteps int64
	Err      string // message of the runtime error, for diagnostics only
	retVal   Value
	Trace    func(ev string)
	// Unfixed is set when the run touched a construct whose meaning no
	// statement fixes; the case must then not be compared.
	Unfixed string
	prog    *Program
}

func NewMachine(p *Program) *Machine {
	m := &Machine{MaxSteps: 200000, prog: p}
	root := &Frame{Name: "<root>", Vars: map[string]*Slot{}}
	for _, n := range []string{"printf", "json", "num"} {
		root.Vars[n] = &Slot{Value{K: KNative, S: n}}
	}
	if p != nil {
		for _, f := range p.Funcs {
			root.Vars[f.Name] = &Slot{Value{K: KFn, F: f}}
		}
	}
	m.Frames = []*Frame{root}
	return m
}

func (m *Machine) fail(format string, a ...any) ctl {
	m.Err = fmt.Sprintf(format, a...)
	return cError
}

func (m *Machine) step() ctl {
	m.Steps++
	if m.Steps > m.MaxSteps {
		return cAbort
	}
	return cNone
}

func (m *Machine) top() *Frame { return m.Frames[len(m.Frames)-1] }

func (m *Machine) push(name string) ctl {
	if len(m.Frames) > FrameLimit {
		return m.fail("call depth limit exceeded")
	}
	m.Frames = append(m.Frames, &Frame{Name: name, Vars: map[string]*Slot{}})
	return cNone
}

func (m *Machine) pop() { m.Frames = m.Frames[:len(m.Frames)-1] }

func (m *Machine) lookup(name string) (*Slot, ctl) {
	for i := len(m.Frames) - 1; i >= 0; i-- {
		if s, ok := m.Frames[i].Vars[name]; ok {
			return s, cNone
		}
	}
	if strings.HasPrefix(name, "$") {
		return nil, m.fail("unknown variable %s", name)
	}
	s := &Slot{Unset()}
	m.top().Vars[name] = s
	return s, cNone
}

func (m *Machine) SetGlobal(name string, v Value) { m.Frames[0].Vars[name] = &Slot{v} }

// copyVal is the copy-vs-share rule of 3.10.
func (m *Machine) copyVal(v Value) (Value, ctl) {
	switch v.K {
	case KFn, KNative:
		return Value{}, m.fail("cannot copy a function")
	}
	return v, cNone // scalars are values already; containers are references
}

// ----- comparison (3.5) -----

// Compare3 is the three-way comparison below the unset rule. ok=false: error.
func Compare3(a, b Value) (int, bool) {
	switch {
	case a.K == KNull && b.K == KNull:
		return 0, true
	case a.K == KNull:
		return -1, true
	case b.K == KNull:
		return 1, true
	}
	if a.IsContainer() || b.IsContainer() {
		return 0, false
	}
	if a.K == KStr && b.K == KStr {
		return strings.Compare(a.S, b.S), true
	}
	x, y := ToNum(a), ToNum(b)
	switch {
	case x > y:
		return 1, true
	case x < y:
		return -1, true
	}
	return 0, true
}

// Equals is == of 3.5 including the unset rule.
func Equals(a, b Value) (bool, bool) {
	if a.K == KUnset || b.K == KUnset {
		return false, true
	}
	c, ok := Compare3(a, b)
	return c == 0, ok
}

func CompareOp(op string, a, b Value) (bool, bool) {
	if a.K == KUnset || b.K == KUnset {
		return op == "<" || op == ">", true
	}
	c, ok := Compare3(a, b)
	if !ok {
		return false, false
	}
	switch op {
	case "<":
		return c < 0, true
	case "<=":
		return c <= 0, true
	case ">":
		return c > 0, true
	case ">=":
		return c >= 0, true
	case "==":
		return c == 0, true
	case "!=":
		return c != 0, true
	}
	panic("bad comparison " + op)
}

// Arith is 3.4. ok=false: runtime error.
func Arith(op string, a, b Value) (Value, bool) {
	if op == "+" && (a.K == KStr || b.K == KStr) {
		return Str(ToStr(a) + ToStr(b)), true
	}
	x, y := ToNum(a), ToNum(b)
	switch op {
	case "+":
		return Num(x + y), true
	case "-":
		return Num(x - y), true
	case "*":
		return Num(x * y), true
	case "/":
		if y == 0 {
			return Value{}, false
		}
		return Num(x / y), true
	case "%":
		ix, iy := int64(x), int64(y) // operands beyond int64 are outside the table
		if iy == 0 {
			return Value{}, false
		}
		if iy == -1 {
			return Num(0), true
		}
		return Num(float64(ix % iy)), true
	}
	panic("bad arithmetic operator " + op)
}

// ----- expressions -----

func (m *Machine) Eval(e Expr) (Ref, ctl) {
	if c := m.step(); c != cNone {
		return Ref{}, c
	}
	switch x := e.(type) {
	case *NumLit:
		f, err := strconv.ParseFloat(x.Text, 64)
		if err != nil {
			return Ref{}, m.fail("could not parse number")
		}
		return tmp(Num(f)), cNone
	case *StrLit:
		return tmp(Str(x.S)), cNone
	case *RawStrLit:
		s, ok := Unescape(x.Raw)
		if !ok {
			return Ref{}, m.fail("bad escape")
		}
		return tmp(Str(s)), cNone
	case *BoolLit:
		return tmp(Bool(x.B)), cNone
	case *NullLit:
		return tmp(Null()), cNone
	case *RegexLit:
		return tmp(Regex(x.Src)), cNone
	case *Paren:
		return m.Eval(x.X)
	case *Ident:
		if x.Name == "$" {
			if m.Root == nil {
				return Ref{}, m.fail("unknown variable $")
			}
			return Ref{Slot: m.Root}, cNone
		}
		s, c := m.lookup(x.Name)
		if c != cNone {
			return Ref{}, c
		}
		return Ref{Slot: s}, cNone
	case *Unary:
		return m.evalUnary(x.Op, x.X, false)
	case *Postfix:
		return m.evalUnary(x.Op, x.X, true)
	case *Binary:
		return m.evalBinary(x)
	case *IsExpr:
		l, c := m.Eval(x.X)
		if c != cNone {
			return Ref{}, c
		}
		k := l.Val().K
		return tmp(Bool(k.TypeName() != "" && k.TypeName() == x.T)), cNone
	case *Assign:
		return m.evalAssign(x)
	case *Member:
		base, c := m.Eval(x.X)
		if c != cNone {
			return Ref{}, c
		}
		if c := m.step(); c != cNone { // the name is a literal expression in the implementation
			return Ref{}, c
		}
		return m.member(base, Str(x.Name))
	case *Index:
		base, c := m.Eval(x.X)
		if c != cNone {
			return Ref{}, c
		}
		i, c := m.Eval(x.I)
		if c != cNone {
			return Ref{}, c
		}
		return m.member(base, i.Val())
	case *Call:
		return m.evalCall(x)
	case *ArrayLit:
		a := &Arr{}
		for _, it := range x.Items {
			r, c := m.Eval(it)
			if c != cNone {
				return Ref{}, c
			}
			v, c := m.copyVal(r.Val())
			if c != cNone {
				return Ref{}, c
			}
			a.Items = append(a.Items, &Slot{v})
		}
		return tmp(Value{K: KArr, A: a}), cNone
	case *ObjLit:
		o := NewObj()
		for i, k := range x.Keys {
			r, c := m.Eval(x.Vals[i])
			if c != cNone {
				return Ref{}, c
			}
			v, c := m.copyVal(r.Val())
			if c != cNone {
				return Ref{}, c
			}
			o.O.SetSlot(k, &Slot{v})
		}
		return tmp(o), cNone
	case *MatchExpr:
		return m.evalMatch(x)
	}
	panic(fmt.Sprintf("refsem: cannot evaluate %T", e))
}

func Unescape(raw string) (string, bool) {
	var sb strings.Builder
	for i := 0; i < len(raw); i++ {
		if raw[i] != '\\' {
			sb.WriteByte(raw[i])
			continue
		}
		i++
		if i >= len(raw) {
			return "", false
		}
		switch raw[i] {
		case 'n':
			sb.WriteByte('\n')
		case 't':
			sb.WriteByte('\t')
		case '\\':
			sb.WriteByte('\\')
		default:
			return "", false
		}
	}
	return sb.String(), true
}

func (m *Machine) evalUnary(op string, xe Expr, postfix bool) (Ref, ctl) {
	r, c := m.Eval(xe)
	if c != cNone {
		return Ref{}, c
	}
	v := r.Val()
	switch op {
	case "!":
		return tmp(Bool(!Truthy(v))), cNone
	case "+":
		return tmp(Num(ToNum(v))), cNone
	case "-":
		return tmp(Num(-ToNum(v))), cNone
	case "++", "--":
		old := ToNum(v)
		nv := old + 1
		if op == "--" {
			nv = old - 1
		}
		if _, c := m.store(r, Num(nv)); c != cNone {
			return Ref{}, c
		}
		if postfix {
			return tmp(Num(old)), cNone
		}
		return tmp(Num(nv)), cNone
	}
	panic("bad unary operator " + op)
}

func (m *Machine) evalBinary(x *Binary) (Ref, ctl) {
	l, c := m.Eval(x.L)
	if c != cNone {
		return Ref{}, c
	}
	switch x.Op {
	case "&&":
		if !Truthy(l.Val()) {
			return tmp(Bool(false)), cNone
		}
		r, c := m.Eval(x.R)
		if c != cNone {
			return Ref{}, c
		}
		return tmp(Bool(Truthy(r.Val()))), cNone
	case "||":
		if Truthy(l.Val()) {
			return tmp(Bool(true)), cNone
		}
		r, c := m.Eval(x.R)
		if c != cNone {
			return Ref{}, c
		}
		return tmp(Bool(Truthy(r.Val()))), cNone
	}
	r, c := m.Eval(x.R)
	if c != cNone {
		return Ref{}, c
	}
	a, b := l.Val(), r.Val()
	switch x.Op {
	case "<", "<=", ">", ">=", "==", "!=":
		res, ok := CompareOp(x.Op, a, b)
		if !ok {
			return Ref{}, m.fail("cannot compare %s and %s", a.K, b.K)
		}
		return tmp(Bool(res)), cNone
	case "+", "-", "*", "/", "%":
		v, ok := Arith(x.Op, a, b)
		if !ok {
			return Ref{}, m.fail("divide by zero")
		}
		return tmp(v), cNone
	case "~", "!~":
		if b.K != KStr && b.K != KRegex {
			return Ref{}, m.fail("a regex or a string must appear on the right hand side of ~")
		}
		if l.Slot != nil && l.Slot == r.Slot {
			m.Unfixed = "x ~ x"
		}
		re, err := regexp.Compile(b.S)
		if err != nil {
			return Ref{}, m.fail("bad regex")
		}
		res := re.MatchString(ToStr(a))
		if x.Op == "!~" {
			res = !res
		}
		return tmp(Bool(res)), cNone
	}
	panic("bad binary operator " + x.Op)
}

func keyString(k Value) string { return ToStr(k) }

// member resolves base.key / base[key] to a location (3.10).
func (m *Machine) member(base Ref, key Value) (Ref, ctl) {
	if base.Pend != nil {
		p := &Pending{Base: base.Pend.Base, Keys: append(append([]Value{}, base.Pend.Keys...), normKey(key))}
		return Ref{Pend: p}, cNone
	}
	bs := base.Slot
	if bs.V.K == KUnset {
		if key.K == KNum {
			bs.V = NewArr()
		} else {
			bs.V = NewObj()
		}
	}
	bv := bs.V
	pending := func() (Ref, ctl) {
		return Ref{Pend: &Pending{Base: bs, Keys: []Value{normKey(key)}}}, cNone
	}
	method := func(kind string, names ...string) (Ref, ctl) {
		if key.K != KNum && key.K != KStr {
			return Ref{}, m.fail("objects can only be indexed with numbers or strings")
		}
		ks := keyString(key)
		for _, n := range names {
			if n == ks {
				return tmp(Value{K: KNative, S: kind + "." + n, Recv: &Value{K: bv.K, A: bv.A, O: bv.O, S: bv.S, N: bv.N}}), cNone
			}
		}
		return pending()
	}
	switch bv.K {
	case KArr:
		if key.K != KNum {
			return method("arr", "length", "push", "pop", "popfirst", "contains", "sort")
		}
		n, ok := arrIndex(bv.A, key.N)
		if !ok {
			return Ref{}, m.fail("index out of range")
		}
		if n < len(bv.A.Items) {
			return Ref{Slot: bv.A.Items[n]}, cNone
		}
		return pending()
	case KObj:
		if key.K != KNum && key.K != KStr {
			return Ref{}, m.fail("objects can only be indexed with numbers or strings")
		}
		if s, ok := bv.O.M[keyString(key)]; ok {
			return Ref{Slot: s}, cNone
		}
		return method("obj", "length", "pluck")
	case KStr:
		if key.K != KNum {
			return method("str", "length", "split", "lower", "upper")
		}
		i := truncInt(key.N)
		if i < 0 || i >= len(bv.S) {
			return tmp(Null()), cNone
		}
		return tmp(Str(string(bv.S[i]))), cNone
	case KNum:
		return method("num", "floor", "ceil", "round")
	}
	return pending()
}

func normKey(k Value) Value {
	if k.K == KNum {
		return k
	}
	return Str(ToStr(k))
}

func truncInt(f float64) int {
	// matches a 64-bit integer conversion for the magnitudes the alphabets use
	if f != f {
		return math.MinInt64
	}
	if f >= 9.2e18 || f <= -9.2e18 {
		return math.MinInt64
	}
	return int(f)
}

// arrIndex resolves an index: negative counts from the end; ok=false when it
// walks off the front.
func arrIndex(a *Arr, f float64) (int, bool) {
	n := truncInt(f)
	if n < 0 {
		n += len(a.Items)
		if n < 0 {
			return 0, false
		}
	}
	return n, true
}

const FillLimit = 1024 * 1024

// setMember stores v under key in container c, returning the slot.
func (m *Machine) setMember(c Value, key Value, v Value) (*Slot, ctl) {
	switch c.K {
	case KArr:
		if key.K != KNum {
			return nil, m.fail("array indices must be numbers")
		}
		n, ok := arrIndex(c.A, key.N)
		if !ok {
			return nil, m.fail("index out of range")
		}
		if n >= len(c.A.Items) && n > FillLimit {
			return nil, m.fail("index too large to auto-fill array")
		}
		for len(c.A.Items) <= n {
			c.A.Items = append(c.A.Items, &Slot{Null()})
		}
		c.A.Items[n].V = v
		return c.A.Items[n], cNone
	case KObj:
		return c.O.Set(keyString(key), v), cNone
	}
	return nil, m.fail("cannot set member on a %s", c.K)
}

// store writes v (already copied) into the location r denotes.
func (m *Machine) store(r Ref, v Value) (*Slot, ctl) {
	if r.Pend == nil {
		r.Slot.V = v
		return r.Slot, cNone
	}
	p := r.Pend
	cur := p.Base.V
	if cur.K == KNull {
		return nil, m.fail("could not create this object")
	}
	for i, k := range p.Keys {
		if i == len(p.Keys)-1 {
			return m.setMember(cur, k, v)
		}
		var child Value
		if p.Keys[i+1].K == KNum {
			child = NewArr()
		} else {
			child = NewObj()
		}
		if _, c := m.setMember(cur, k, child); c != cNone {
			return nil, c
		}
		cur = child
	}
	panic("refsem: empty pending path")
}

func (m *Machine) evalAssign(x *Assign) (Ref, ctl) {
	l, c := m.Eval(x.L)
	if c != cNone {
		return Ref{}, c
	}
	var rv Value
	if x.Op == "=" {
		r, c := m.Eval(x.R)
		if c != cNone {
			return Ref{}, c
		}
		rv = r.Val()
	} else {
		// a op= b means a = a op b: the target is evaluated again as an operand
		if c := m.step(); c != cNone {
			return Ref{}, c
		}
		l2, c := m.Eval(x.L)
		if c != cNone {
			return Ref{}, c
		}
		r, c := m.Eval(x.R)
		if c != cNone {
			return Ref{}, c
		}
		v, ok := Arith(x.Op[:1], l2.Val(), r.Val())
		if !ok {
			return Ref{}, m.fail("divide by zero")
		}
		rv = v
	}
	v, c := m.copyVal(rv)
	if c != cNone {
		return Ref{}, c
	}
	s, c := m.store(l, v)
	if c != cNone {
		return Ref{}, c
	}
	return Ref{Slot: s}, cNone
}

func (m *Machine) evalCall(x *Call) (Ref, ctl) {
	f, c := m.Eval(x.F)
	if c != cNone {
		return Ref{}, c
	}
	args := make([]Value, 0, len(x.Args))
	for _, a := range x.Args {
		r, c := m.Eval(a)
		if c != cNone {
			return Ref{}, c
		}
		v, c := m.copyVal(r.Val())
		if c != cNone {
			return Ref{}, c
		}
		args = append(args, v)
	}
	fv := f.Val()
	switch fv.K {
	case KNative:
		v, c := m.callNative(fv, args)
		if c != cNone {
			return Ref{}, c
		}
		return tmp(v), cNone
	case KFn:
		if c := m.push(fv.F.Name); c != cNone {
			return Ref{}, c
		}
		for i, p := range fv.F.Params {
			if i < len(args) {
				m.top().Vars[p] = &Slot{args[i]}
			} else {
				m.top().Vars[p] = &Slot{Null()}
			}
		}
		c := m.Exec(fv.F.Body)
		m.pop()
		switch c {
		case cReturn:
			return tmp(m.retVal), cNone
		case cNone:
			return tmp(Null()), cNone
		}
		return Ref{}, c
	}
	return Ref{}, m.fail("attempted to call a %s", fv.K)
}

func (m *Machine) evalMatch(x *MatchExpr) (Ref, ctl) {
	subj, c := m.Eval(x.Subj)
	if c != cNone {
		return Ref{}, c
	}
	for _, cs := range x.Cases {
		for _, p := range cs.Pats {
			binds := map[string]*Slot{}
			ok, c := m.matchPat(subj.slotOrTmp(), p, binds)
			if c != cNone {
				return Ref{}, c
			}
			if !ok {
				continue
			}
			if c := m.push("<match>"); c != cNone {
				return Ref{}, c
			}
			for k, s := range binds {
				m.top().Vars[k] = s
			}
			if cs.Block != nil {
				c := m.Exec(cs.Block)
				m.pop()
				if c != cNone {
					return Ref{}, c
				}
				return tmp(Null()), cNone
			}
			r, c := m.Eval(cs.Body)
			m.pop()
			if c != cNone {
				return Ref{}, c
			}
			return r, cNone
		}
	}
	return tmp(Null()), cNone
}

func (r Ref) slotOrTmp() *Slot {
	if r.Pend != nil {
		return &Slot{Null()}
	}
	return r.Slot
}

func (m *Machine) matchPat(subj *Slot, p Expr, binds map[string]*Slot) (bool, ctl) {
	switch x := p.(type) {
	case *NumLit, *StrLit, *RawStrLit, *BoolLit, *NullLit, *RegexLit:
		lit, c := m.Eval(p)
		if c != cNone {
			return false, c
		}
		eq, ok := Equals(subj.V, lit.Val())
		if !ok {
			return false, m.fail("cannot compare")
		}
		return eq, cNone
	case *Ident:
		binds[x.Name] = subj
		return true, cNone
	case *ArrayLit:
		if subj.V.K != KArr || len(subj.V.A.Items) != len(x.Items) {
			return false, cNone
		}
		local := map[string]*Slot{}
		for i, q := range x.Items {
			ok, c := m.matchPat(subj.V.A.Items[i], q, local)
			if c != cNone || !ok {
				return false, c
			}
		}
		for k, s := range local {
			binds[k] = s
		}
		return true, cNone
	}
	return false, m.fail("pattern not supported in match expressions")
}

// ----- statements -----

func (m *Machine) Exec(s Stmt) ctl {
	if c := m.step(); c != cNone {
		return c
	}
	switch x := s.(type) {
	case *Block:
		for _, st := range x.Body {
			if c := m.Exec(st); c != cNone {
				return c
			}
		}
		return cNone
	case *Print:
		vals := make([]Value, 0, len(x.Args))
		for _, a := range x.Args {
			r, c := m.Eval(a)
			if c != cNone {
				return c
			}
			vals = append(vals, r.Val())
		}
		if len(x.Args) == 0 {
			m.Out.WriteString(m.render(m.Root.V))
			m.Out.WriteString("\n")
			return cNone
		}
		for i, v := range vals {
			if i > 0 {
				m.Out.WriteString(" ")
			}
			m.Out.WriteString(m.render(v))
		}
		m.Out.WriteString("\n")
		return cNone
	case *ExprStmt:
		_, c := m.Eval(x.X)
		return c
	case *Return:
		if x.X != nil {
			r, c := m.Eval(x.X)
			if c != cNone {
				return c
			}
			m.retVal = r.Val()
		} else {
			m.retVal = Null()
		}
		return cReturn
	case *If:
		r, c := m.Eval(x.Cond)
		if c != cNone {
			return c
		}
		if Truthy(r.Val()) {
			return m.Exec(x.Then)
		} else if x.Else != nil {
			return m.Exec(x.Else)
		}
		return cNone
	case *While:
		for {
			r, c := m.Eval(x.Cond)
			if c != cNone {
				return c
			}
			if !Truthy(r.Val()) {
				return cNone
			}
			c = m.Exec(x.Body)
			if c == cBreak {
				return cNone
			}
			if c != cNone && c != cContinue {
				return c
			}
		}
	case *For:
		if _, c := m.Eval(x.Init); c != cNone {
			return c
		}
		for {
			r, c := m.Eval(x.Cond)
			if c != cNone {
				return c
			}
			if !Truthy(r.Val()) {
				return cNone
			}
			c = m.Exec(x.Body)
			if c == cBreak {
				return cNone
			}
			if c != cNone && c != cContinue {
				return c
			}
			if _, c := m.Eval(x.Post); c != cNone {
				return c
			}
		}
	case *ForIn:
		vs, c := m.lookup(x.V)
		if c != cNone {
			return c
		}
		var ws *Slot
		if x.W != "" {
			if ws, c = m.lookup(x.W); c != cNone {
				return c
			}
		}
		it, c := m.Eval(x.Iter)
		if c != cNone {
			return c
		}
		iv := it.Val()
		body := func() (stop bool, c ctl) {
			c = m.Exec(x.Body)
			if c == cBreak {
				return true, cNone
			}
			if c != cNone && c != cContinue {
				return true, c
			}
			return false, cNone
		}
		switch iv.K {
		case KArr:
			items := iv.A.Items
			for i, s := range items {
				if ws != nil {
					ws.V = Num(float64(i))
				}
				vs.V = s.V
				if stop, c := body(); stop {
					return c
				}
			}
		case KObj:
			for _, k := range m.keyOrder(iv.O) {
				s := iv.O.M[k]
				if ws != nil {
					ws.V = s.V
				}
				vs.V = Str(k)
				if stop, c := body(); stop {
					return c
				}
			}
		case KStr:
			for i, r := range iv.S {
				if ws != nil {
					ws.V = Num(float64(i))
				}
				vs.V = Str(string(r))
				if stop, c := body(); stop {
					return c
				}
			}
		default:
			return m.fail("%s is not iterable", iv.K)
		}
		return cNone
	case *Break:
		return cBreak
	case *Continue:
		return cContinue
	case *Next:
		return cNext
	case *Exit:
		return cExit
	}
	panic(fmt.Sprintf("refsem: cannot execute %T", s))
}

func (m *Machine) keyOrder(o *Obj) []string {
	if m.KO == nil {
		return append([]string{}, o.Keys...)
	}
	return m.KO(o)
}

func (m *Machine) render(v Value) string {
	if HasUncomparedRendering(v) && m.Unfixed == "" {
		m.Unfixed = "rendering of an unset / regex / function value"
	}
	return Render(v, m.KO)
}

// ----- natives -----

func (m *Machine) callNative(f Value, args []Value) (Value, ctl) {
	switch f.S {
	case "printf":
		out, ok := Printf(args, m.KO)
		if !ok {
			return Value{}, m.fail("printf")
		}
		for _, a := range args {
			if HasUncomparedRendering(a) && m.Unfixed == "" {
				m.Unfixed = "rendering of an unset / regex / function value"
			}
		}
		m.Out.WriteString(out)
		return Null(), cNone
	case "json":
		if len(args) != 1 {
			return Value{}, m.fail("expected 1 argument(s)")
		}
		m.Unfixed = "json() text is compared by parsing, not by bytes"
		if !JSONExpressible(args[0]) {
			return Value{}, m.fail("error creating JSON")
		}
		return Str(ToJSONText(args[0])), cNone
	case "num":
		if len(args) != 1 {
			return Value{}, m.fail("expected 1 argument(s)")
		}
		switch args[0].K {
		case KStr:
			f, err := strconv.ParseFloat(args[0].S, 64)
			if err != nil {
				return Null(), cNone
			}
			return Num(f), cNone
		case KNum:
			m.Unfixed = "num() of a number"
			return Num(math.Trunc(args[0].N)), cNone
		}
		return Null(), cNone
	}
	recv := *f.Recv
	switch f.S {
	case "arr.length":
		return Num(float64(len(recv.A.Items))), cNone
	case "arr.push":
		if len(args) != 1 {
			return Value{}, m.fail("expected 1 argument(s)")
		}
		recv.A.Items = append(recv.A.Items, &Slot{args[0]})
		return recv, cNone
	case "arr.pop":
		if len(args) != 0 {
			return Value{}, m.fail("expected 0 argument(s)")
		}
		n := len(recv.A.Items)
		if n == 0 {
			return Null(), cNone
		}
		v := recv.A.Items[n-1].V
		recv.A.Items = recv.A.Items[:n-1]
		return v, cNone
	case "arr.popfirst":
		if len(args) != 0 {
			return Value{}, m.fail("expected 0 argument(s)")
		}
		if len(recv.A.Items) == 0 {
			return Null(), cNone
		}
		v := recv.A.Items[0].V
		recv.A.Items = append([]*Slot{}, recv.A.Items[1:]...)
		return v, cNone
	case "arr.contains":
		if len(args) != 1 {
			return Value{}, m.fail("expected 1 argument(s)")
		}
		for _, it := range recv.A.Items {
			eq, ok := Equals(it.V, args[0])
			if !ok {
				return Value{}, m.fail("cannot compare")
			}
			if eq {
				return Bool(true), cNone
			}
		}
		return Bool(false), cNone
	case "arr.sort":
		allNum := true
		for _, it := range recv.A.Items {
			if it.V.K != KNum {
				allNum = false
			}
		}
		items := make([]*Slot, len(recv.A.Items))
		for i, it := range recv.A.Items {
			if it.V.K == KFn || it.V.K == KNative {
				m.Unfixed = "sorting functions"
			}
			items[i] = &Slot{it.V}
		}
		sort.SliceStable(items, func(i, j int) bool {
			if allNum {
				return items[i].V.N < items[j].V.N
			}
			return ToStr(items[i].V) < ToStr(items[j].V)
		})
		return Value{K: KArr, A: &Arr{Items: items}}, cNone
	case "obj.length":
		return Num(float64(len(recv.O.M))), cNone
	case "obj.pluck":
		o := NewObj()
		for _, k := range args {
			if k.K != KNum && k.K != KStr {
				return Value{}, m.fail("objects can only be indexed with numbers or strings")
			}
			ks := keyString(k)
			if s, ok := recv.O.M[ks]; ok {
				o.O.SetSlot(ks, &Slot{s.V})
			} else {
				if ks == "length" || ks == "pluck" {
					m.Unfixed = "pluck of a method name"
				}
				o.O.SetSlot(ks, &Slot{Null()})
			}
		}
		return o, cNone
	case "str.length":
		return Num(float64(len(recv.S))), cNone
	case "str.split":
		if len(args) < 1 || args[0].K != KStr {
			return Value{}, m.fail("expected argument 0 to have type string")
		}
		parts := Split(recv.S, args[0].S)
		vals := make([]Value, len(parts))
		for i, p := range parts {
			vals[i] = Str(p)
		}
		return NewArr(vals...), cNone
	case "str.lower":
		return Str(mapCase(recv.S, unicode.ToLower)), cNone
	case "str.upper":
		return Str(mapCase(recv.S, unicode.ToUpper)), cNone
	case "num.floor":
		return Num(Floor(recv.N)), cNone
	case "num.ceil":
		return Num(-Floor(-recv.N)), cNone
	case "num.round":
		return Num(Round(recv.N)), cNone
	}
	panic("refsem: unknown native " + f.S)
}

// Split is the reference s.split(sep).
func Split(s, sep string) []string {
	if sep == "" {
		out := []string{}
		for len(s) > 0 {
			_, w := utf8.DecodeRuneInString(s)
			out = append(out, s[:w])
			s = s[w:]
		}
		return out
	}
	out := []string{}
	start := 0
	for i := 0; i+len(sep) <= len(s); {
		if s[i:i+len(sep)] == sep {
			out = append(out, s[start:i])
			i += len(sep)
			start = i
		} else {
			i++
		}
	}
	return append(out, s[start:])
}

func mapCase(s string, f func(rune) rune) string {
	var sb strings.Builder
	for len(s) > 0 {
		r, w := utf8.DecodeRuneInString(s)
		sb.WriteRune(f(r)) // an invalid byte becomes U+FFFD
		s = s[w:]
	}
	return sb.String()
}

// Floor without math.Floor: the mathematical floor of a finite double.
func Floor(x float64) float64 {
	if x != x || math.IsInf(x, 0) || math.Abs(x) >= 1<<52 {
		return x
	}
	t := float64(int64(x))
	if t > x {
		t--
	}
	if t == 0 && (x < 0 || IsNegZero(x)) {
		return math.Copysign(0, -1)
	}
	return t
}

// Round: nearest integer, halves away from zero.
func Round(x float64) float64 {
	if x != x || math.IsInf(x, 0) || math.Abs(x) >= 1<<52 {
		return x
	}
	a := math.Abs(x)
	t := float64(int64(a))
	if a-t >= 0.5 {
		t++
	}
	return math.Copysign(t, x)
}
