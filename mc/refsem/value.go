// Package refsem is the reference semantics of jqawk (DESIGN.md section 3):
// an executable model, written from the property statements and the README,
// against which the implementation is compared on every enumerated case.
package refsem

import (
	"math"
	"strconv"
	"strings"
)

type Kind uint8

const (
	KNum Kind = iota
	KStr
	KBool
	KNull
	KUnset
	KArr
	KObj
	KRegex
	KFn
	KNative
)

func (k Kind) String() string {
	return [...]string{"num", "str", "bool", "null", "unset", "arr", "obj", "regex", "fn", "native"}[k]
}

// TypeName is the name `is` uses for the kind ("" if no name denotes it).
func (k Kind) TypeName() string {
	return [...]string{"number", "string", "bool", "null", "unknown", "array", "object", "regex", "function", ""}[k]
}

type Value struct {
	K    Kind
	N    float64
	S    string // str value, regex source, native name
	B    bool
	A    *Arr
	O    *Obj
	F    *Func
	Recv *Value // receiver of a bound native method
}

// Slot is a storage location (variable, array element, object member).
type Slot struct{ V Value }

type Arr struct{ Items []*Slot }

// Obj keeps insertion order so that a key-order oracle can be keyed on it.
type Obj struct {
	Keys []string
	M    map[string]*Slot
}

func Num(f float64) Value  { return Value{K: KNum, N: f} }
func Str(s string) Value   { return Value{K: KStr, S: s} }
func Bool(b bool) Value    { return Value{K: KBool, B: b} }
func Null() Value          { return Value{K: KNull} }
func Unset() Value         { return Value{K: KUnset} }
func Regex(s string) Value { return Value{K: KRegex, S: s} }
func NewArr(items ...Value) Value {
	a := &Arr{}
	for _, it := range items {
		a.Items = append(a.Items, &Slot{it})
	}
	return Value{K: KArr, A: a}
}
func NewObj() Value { return Value{K: KObj, O: &Obj{M: map[string]*Slot{}}} }

func (o *Obj) Set(k string, v Value) *Slot {
	if s, ok := o.M[k]; ok {
		s.V = v
		return s
	}
	s := &Slot{v}
	o.M[k] = s
	o.Keys = append(o.Keys, k)
	return s
}

// SetSlot installs a slot (sharing it) under k.
func (o *Obj) SetSlot(k string, s *Slot) {
	if _, ok := o.M[k]; !ok {
		o.Keys = append(o.Keys, k)
	}
	o.M[k] = s
}

func (v Value) IsContainer() bool { return v.K == KArr || v.K == KObj }

// ToNum: 3.2
func ToNum(v Value) float64 {
	switch v.K {
	case KNum:
		return v.N
	case KBool:
		if v.B {
			return 1
		}
		return 0
	case KStr:
		return StrToNum(v.S)
	}
	return 0
}

// StrToNum is the numeric value of a string: its value if the whole string is
// a numeral in double range, otherwise 0.
func StrToNum(s string) float64 {
	f, err := strconv.ParseFloat(s, 64)
	if err != nil {
		return 0
	}
	return f
}

// FormatNum: shortest positional decimal that reads back identically.
func FormatNum(f float64) string {
	return strconv.FormatFloat(f, 'f', -1, 64)
}

// ToStr: the "string form" of 3.2
func ToStr(v Value) string {
	switch v.K {
	case KStr:
		return v.S
	case KNum:
		return FormatNum(v.N)
	}
	return ""
}

func Truthy(v Value) bool {
	switch v.K {
	case KBool:
		return v.B
	case KNum:
		return v.N != 0
	case KStr:
		return len(v.S) > 0
	case KArr, KObj, KFn, KNative:
		return true
	}
	return false
}

// KeyOrder decides the order in which an object's keys are visited. The
// default is insertion order; checks install an oracle probed from the
// implementation (3.11).
type KeyOrder func(o *Obj) []string

func InsertionOrder(o *Obj) []string { return o.Keys }

// Render is R of 3.14.
func Render(v Value, ko KeyOrder) string {
	return render(v, ko, nil, false)
}

func render(v Value, ko KeyOrder, path []any, nested bool) string {
	switch v.K {
	case KStr:
		if nested {
			return "\"" + v.S + "\""
		}
		return v.S
	case KNum:
		return FormatNum(v.N)
	case KBool:
		if v.B {
			return "true"
		}
		return "false"
	case KNull:
		return "null"
	case KArr:
		for _, p := range path {
			if p == any(v.A) {
				return "<circular reference>"
			}
		}
		var sb strings.Builder
		sb.WriteByte('[')
		np := append(path[:len(path):len(path)], any(v.A))
		for i, it := range v.A.Items {
			if i > 0 {
				sb.WriteString(", ")
			}
			sb.WriteString(render(it.V, ko, np, true))
		}
		sb.WriteByte(']')
		return sb.String()
	case KObj:
		for _, p := range path {
			if p == any(v.O) {
				return "<circular reference>"
			}
		}
		var sb strings.Builder
		sb.WriteByte('{')
		np := append(path[:len(path):len(path)], any(v.O))
		if ko == nil {
			ko = InsertionOrder
		}
		for i, k := range ko(v.O) {
			if i > 0 {
				sb.WriteString(", ")
			}
			sb.WriteString("\"" + k + "\": ")
			sb.WriteString(render(v.O.M[k].V, ko, np, true))
		}
		sb.WriteByte('}')
		return sb.String()
	case KUnset:
		return "<unknown>"
	case KRegex:
		return "<regex>"
	case KFn:
		return "<function>"
	case KNative:
		return "<nativefunction>"
	}
	return "?"
}

// HasUncomparedRendering reports whether rendering v involves a value whose
// rendering is not fixed by any statement (unset, regex, functions).
func HasUncomparedRendering(v Value) bool {
	return hasUncompared(v, map[any]bool{})
}

func hasUncompared(v Value, seen map[any]bool) bool {
	switch v.K {
	case KUnset, KRegex, KFn, KNative:
		return true
	case KArr:
		if seen[v.A] {
			return false
		}
		seen[v.A] = true
		for _, it := range v.A.Items {
			if hasUncompared(it.V, seen) {
				return true
			}
		}
	case KObj:
		if seen[v.O] {
			return false
		}
		seen[v.O] = true
		for _, s := range v.O.M {
			if hasUncompared(s.V, seen) {
				return true
			}
		}
	}
	return false
}

func IsNegZero(f float64) bool { return f == 0 && math.Signbit(f) }
