package refsem

import (
	"strings"
)

const MaxWidth = 65536

// Printf is the reference formatter of 3.15. ok=false means RuntimeError and
// nothing written.
func Printf(args []Value, ko KeyOrder) (out string, ok bool) {
	if len(args) < 1 || args[0].K != KStr {
		return "", false
	}
	f := args[0].S
	next := 1
	var sb strings.Builder
	for i := 0; i < len(f); i++ {
		b := f[i]
		if b != '%' {
			sb.WriteByte(b)
			continue
		}
		i++
		if i >= len(f) {
			return "", false // dangling %
		}
		width, neg, zero, hasWidth := 0, false, false, false
		if f[i] == '-' || isDigit(f[i]) {
			hasWidth = true
			j := i
			if f[j] == '-' {
				neg = true
				j++
			}
			ds := j
			for j < len(f) && isDigit(f[j]) {
				j++
			}
			digits := f[ds:j]
			if digits == "" {
				return "", false // '-' with no digits
			}
			zero = f[i] == '0'
			// value of the digit string, saturating just above the limit
			for _, d := range []byte(digits) {
				width = width*10 + int(d-'0')
				if width > MaxWidth {
					return "", false
				}
			}
			i = j
			if i >= len(f) {
				return "", false // width with no code
			}
		}
		_ = hasWidth
		var r string
		switch f[i] {
		case '%':
			sb.WriteByte('%')
			continue
		case 's':
			if next >= len(args) || args[next].K != KStr {
				return "", false
			}
			r = args[next].S
			next++
		case 'f':
			if next >= len(args) || args[next].K != KNum {
				return "", false
			}
			r = FormatNum(args[next].N)
			next++
		case 'v':
			if next >= len(args) {
				return "", false
			}
			r = Render(args[next], ko)
			next++
		default:
			return "", false
		}
		if len(r) < width {
			pad := " "
			if zero {
				pad = "0"
			}
			p := strings.Repeat(pad, width-len(r))
			if neg {
				r = r + p
			} else {
				r = p + r
			}
		}
		sb.WriteString(r)
	}
	return sb.String(), true
}

func isDigit(b byte) bool { return b >= '0' && b <= '9' }
