package refsem

import (
	"math"
	"strconv"
	"strings"
	"unicode/utf16"
	"unicode/utf8"
)

// Reference RFC 8259 reader, independent of encoding/json. It is the oracle
// for "is valid JSON", for the value a text denotes, and for how a byte stream
// splits into values (C03).

type JKind uint8

const (
	JNull JKind = iota
	JBool
	JNum
	JStr
	JArr
	JObj
)

type JNode struct {
	K     JKind
	B     bool
	N     float64
	S     string
	Items []*JNode
	Keys  []string // document order, duplicates removed (last value wins, first position kept)
	Vals  map[string]*JNode
}

type StreamStatus uint8

const (
	StreamClean     StreamStatus = iota // only whitespace after the last value
	StreamError                         // a byte that cannot continue or start a value
	StreamTruncated                     // input ends inside a value
)

type StreamValue struct {
	Node       *JNode
	Start, End int // [Start,End) of the value's text
}

type Stream struct {
	Values []StreamValue
	Status StreamStatus
	ErrAt  int // offset of the offending byte (StreamError) or len(data) (StreamTruncated)
}

const JSONDepthLimit = 10000

type jparser struct {
	d       []byte
	i       int
	trunc   bool
	depth   int
	tooDeep bool
}

func (p *jparser) ws() {
	for p.i < len(p.d) {
		switch p.d[p.i] {
		case ' ', '\t', '\n', '\r':
			p.i++
		default:
			return
		}
	}
}

// ParseStream splits data into concatenated JSON values.
func ParseStream(data []byte) Stream {
	p := &jparser{d: data}
	var st Stream
	for {
		p.ws()
		if p.i >= len(p.d) {
			st.Status = StreamClean
			return st
		}
		start := p.i
		n, ok := p.value()
		if !ok {
			if p.trunc {
				st.Status = StreamTruncated
				st.ErrAt = len(data)
			} else {
				st.Status = StreamError
				st.ErrAt = p.i
			}
			return st
		}
		st.Values = append(st.Values, StreamValue{n, start, p.i})
	}
}

// ParseJSON parses exactly one value (surrounded by optional whitespace).
func ParseJSON(text string) (*JNode, bool) {
	st := ParseStream([]byte(text))
	if st.Status != StreamClean || len(st.Values) != 1 {
		return nil, false
	}
	return st.Values[0].Node, true
}

func (p *jparser) fail() (*JNode, bool) {
	if p.i >= len(p.d) {
		p.trunc = true
	}
	return nil, false
}

func (p *jparser) lit(word string, n *JNode) (*JNode, bool) {
	for k := 0; k < len(word); k++ {
		if p.i >= len(p.d) {
			p.trunc = true
			return nil, false
		}
		if p.d[p.i] != word[k] {
			return nil, false
		}
		p.i++
	}
	return n, true
}

func (p *jparser) value() (*JNode, bool) {
	if p.i >= len(p.d) {
		return p.fail()
	}
	switch c := p.d[p.i]; {
	case c == 'n':
		return p.lit("null", &JNode{K: JNull})
	case c == 't':
		return p.lit("true", &JNode{K: JBool, B: true})
	case c == 'f':
		return p.lit("false", &JNode{K: JBool})
	case c == '"':
		s, ok := p.str()
		if !ok {
			return nil, false
		}
		return &JNode{K: JStr, S: s}, true
	case c == '-' || (c >= '0' && c <= '9'):
		return p.num()
	case c == '[':
		p.depth++
		defer func() { p.depth-- }()
		if p.depth > JSONDepthLimit {
			p.tooDeep = true
			return nil, false
		}
		p.i++
		n := &JNode{K: JArr}
		p.ws()
		if p.i < len(p.d) && p.d[p.i] == ']' {
			p.i++
			return n, true
		}
		for {
			p.ws()
			v, ok := p.value()
			if !ok {
				return nil, false
			}
			n.Items = append(n.Items, v)
			p.ws()
			if p.i >= len(p.d) {
				return p.fail()
			}
			if p.d[p.i] == ',' {
				p.i++
				continue
			}
			if p.d[p.i] == ']' {
				p.i++
				return n, true
			}
			return nil, false
		}
	case c == '{':
		p.depth++
		defer func() { p.depth-- }()
		if p.depth > JSONDepthLimit {
			p.tooDeep = true
			return nil, false
		}
		p.i++
		n := &JNode{K: JObj, Vals: map[string]*JNode{}}
		p.ws()
		if p.i < len(p.d) && p.d[p.i] == '}' {
			p.i++
			return n, true
		}
		for {
			p.ws()
			if p.i >= len(p.d) {
				return p.fail()
			}
			if p.d[p.i] != '"' {
				return nil, false
			}
			k, ok := p.str()
			if !ok {
				return nil, false
			}
			p.ws()
			if p.i >= len(p.d) {
				return p.fail()
			}
			if p.d[p.i] != ':' {
				return nil, false
			}
			p.i++
			p.ws()
			v, ok := p.value()
			if !ok {
				return nil, false
			}
			if _, dup := n.Vals[k]; !dup {
				n.Keys = append(n.Keys, k)
			}
			n.Vals[k] = v
			p.ws()
			if p.i >= len(p.d) {
				return p.fail()
			}
			if p.d[p.i] == ',' {
				p.i++
				continue
			}
			if p.d[p.i] == '}' {
				p.i++
				return n, true
			}
			return nil, false
		}
	}
	return nil, false
}

func (p *jparser) num() (*JNode, bool) {
	start := p.i
	if p.d[p.i] == '-' {
		p.i++
	}
	if p.i >= len(p.d) {
		return p.fail()
	}
	switch {
	case p.d[p.i] == '0':
		p.i++
	case p.d[p.i] >= '1' && p.d[p.i] <= '9':
		for p.i < len(p.d) && isDigit(p.d[p.i]) {
			p.i++
		}
	default:
		return nil, false
	}
	if p.i < len(p.d) && p.d[p.i] == '.' {
		p.i++
		if p.i >= len(p.d) {
			return p.fail()
		}
		if !isDigit(p.d[p.i]) {
			return nil, false
		}
		for p.i < len(p.d) && isDigit(p.d[p.i]) {
			p.i++
		}
	}
	if p.i < len(p.d) && (p.d[p.i] == 'e' || p.d[p.i] == 'E') {
		p.i++
		if p.i < len(p.d) && (p.d[p.i] == '+' || p.d[p.i] == '-') {
			p.i++
		}
		if p.i >= len(p.d) {
			return p.fail()
		}
		if !isDigit(p.d[p.i]) {
			return nil, false
		}
		for p.i < len(p.d) && isDigit(p.d[p.i]) {
			p.i++
		}
	}
	f, err := strconv.ParseFloat(string(p.d[start:p.i]), 64)
	if err != nil {
		// out of double range: not representable, treated as malformed at the numeral
		p.i = start
		return nil, false
	}
	return &JNode{K: JNum, N: f}, true
}

func (p *jparser) str() (string, bool) {
	p.i++ // opening quote
	var sb strings.Builder
	for {
		if p.i >= len(p.d) {
			p.trunc = true
			return "", false
		}
		c := p.d[p.i]
		switch {
		case c == '"':
			p.i++
			return sb.String(), true
		case c < 0x20:
			return "", false
		case c == '\\':
			p.i++
			if p.i >= len(p.d) {
				p.trunc = true
				return "", false
			}
			switch p.d[p.i] {
			case '"', '\\', '/':
				sb.WriteByte(p.d[p.i])
			case 'b':
				sb.WriteByte('\b')
			case 'f':
				sb.WriteByte('\f')
			case 'n':
				sb.WriteByte('\n')
			case 'r':
				sb.WriteByte('\r')
			case 't':
				sb.WriteByte('\t')
			case 'u':
				r, ok := p.hex4()
				if !ok {
					return "", false
				}
				if utf16.IsSurrogate(r) {
					// a following \uXXXX low surrogate combines; otherwise U+FFFD
					save := p.i
					if p.i+2 < len(p.d) && p.d[p.i+1] == '\\' && p.d[p.i+2] == 'u' {
						p.i += 2
						r2, ok := p.hex4()
						if !ok {
							return "", false
						}
						if dec := utf16.DecodeRune(r, r2); dec != utf8.RuneError {
							sb.WriteRune(dec)
							p.i++
							continue
						}
						p.i = save
					}
					r = utf8.RuneError
				}
				sb.WriteRune(r)
			default:
				return "", false
			}
			p.i++
		default:
			// copy one UTF-8 sequence; invalid bytes become U+FFFD like every JSON reader that yields strings
			r, w := utf8.DecodeRune(p.d[p.i:])
			if r == utf8.RuneError && w == 1 {
				if !utf8.FullRune(p.d[p.i:]) && p.i+utf8.UTFMax > len(p.d) {
					// possibly a sequence cut by the end of input
				}
				sb.WriteRune(utf8.RuneError)
			} else {
				sb.Write(p.d[p.i : p.i+w])
			}
			p.i += w
		}
	}
}

// hex4 reads the 4 hex digits after "\u"; on success p.i is on the last digit.
func (p *jparser) hex4() (rune, bool) {
	var r rune
	for k := 1; k <= 4; k++ {
		if p.i+k >= len(p.d) {
			p.i = len(p.d)
			p.trunc = true
			return 0, false
		}
		c := p.d[p.i+k]
		var v byte
		switch {
		case c >= '0' && c <= '9':
			v = c - '0'
		case c >= 'a' && c <= 'f':
			v = c - 'a' + 10
		case c >= 'A' && c <= 'F':
			v = c - 'A' + 10
		default:
			p.i += k
			return 0, false
		}
		r = r<<4 | rune(v)
	}
	p.i += 4
	return r, true
}

// ----- JNode <-> Value -----

// FromJSON builds the model value of a JSON document.
func FromJSON(n *JNode) Value {
	switch n.K {
	case JNull:
		return Null()
	case JBool:
		return Bool(n.B)
	case JNum:
		return Num(n.N)
	case JStr:
		return Str(n.S)
	case JArr:
		a := &Arr{}
		for _, it := range n.Items {
			a.Items = append(a.Items, &Slot{FromJSON(it)})
		}
		return Value{K: KArr, A: a}
	}
	o := NewObj()
	for _, k := range n.Keys {
		o.O.Set(k, FromJSON(n.Vals[k]))
	}
	return o
}

// JSONExpressible: no function/regex, no non-finite number, no container that contains itself.
func JSONExpressible(v Value) bool { return jsonOK(v, nil) }

func jsonOK(v Value, path []any) bool {
	switch v.K {
	case KFn, KNative, KRegex:
		return false
	case KNum:
		return !math.IsNaN(v.N) && !math.IsInf(v.N, 0)
	case KArr:
		for _, p := range path {
			if p == any(v.A) {
				return false
			}
		}
		np := append(path[:len(path):len(path)], any(v.A))
		for _, it := range v.A.Items {
			if !jsonOK(it.V, np) {
				return false
			}
		}
	case KObj:
		for _, p := range path {
			if p == any(v.O) {
				return false
			}
		}
		np := append(path[:len(path):len(path)], any(v.O))
		for _, k := range v.O.Keys {
			if !jsonOK(v.O.M[k].V, np) {
				return false
			}
		}
	}
	return true
}

// EqualJSON: does the parsed text n denote the model value v (unset reads as null)?
func EqualJSON(n *JNode, v Value) bool {
	switch v.K {
	case KNull, KUnset:
		return n.K == JNull
	case KBool:
		return n.K == JBool && n.B == v.B
	case KNum:
		return n.K == JNum && n.N == v.N && math.Signbit(n.N) == math.Signbit(v.N)
	case KStr:
		return n.K == JStr && n.S == v.S
	case KArr:
		if n.K != JArr || len(n.Items) != len(v.A.Items) {
			return false
		}
		for i, it := range v.A.Items {
			if !EqualJSON(n.Items[i], it.V) {
				return false
			}
		}
		return true
	case KObj:
		if n.K != JObj || len(n.Keys) != len(v.O.M) {
			return false
		}
		for k, s := range v.O.M {
			c, ok := n.Vals[k]
			if !ok || !EqualJSON(c, s.V) {
				return false
			}
		}
		return true
	}
	return false
}

// EqualNodes compares two parsed documents (numbers as doubles incl. sign of zero).
func EqualNodes(a, b *JNode) bool {
	if a.K != b.K {
		return false
	}
	switch a.K {
	case JBool:
		return a.B == b.B
	case JNum:
		return a.N == b.N && math.Signbit(a.N) == math.Signbit(b.N)
	case JStr:
		return a.S == b.S
	case JArr:
		if len(a.Items) != len(b.Items) {
			return false
		}
		for i := range a.Items {
			if !EqualNodes(a.Items[i], b.Items[i]) {
				return false
			}
		}
	case JObj:
		if len(a.Keys) != len(b.Keys) {
			return false
		}
		for k, x := range a.Vals {
			y, ok := b.Vals[k]
			if !ok || !EqualNodes(x, y) {
				return false
			}
		}
	}
	return true
}

// ToJSONText writes a JSON text for v (used only where the model needs *a*
// text, e.g. to feed a document to the implementation; never compared bytewise
// with the implementation's own output).
func ToJSONText(v Value) string {
	var sb strings.Builder
	writeJSON(&sb, v)
	return sb.String()
}

func writeJSON(sb *strings.Builder, v Value) {
	switch v.K {
	case KNull, KUnset:
		sb.WriteString("null")
	case KBool:
		if v.B {
			sb.WriteString("true")
		} else {
			sb.WriteString("false")
		}
	case KNum:
		if IsNegZero(v.N) {
			sb.WriteString("-0")
		} else {
			sb.WriteString(strconv.FormatFloat(v.N, 'g', -1, 64))
		}
	case KStr:
		writeJSONString(sb, v.S)
	case KArr:
		sb.WriteByte('[')
		for i, it := range v.A.Items {
			if i > 0 {
				sb.WriteByte(',')
			}
			writeJSON(sb, it.V)
		}
		sb.WriteByte(']')
	case KObj:
		sb.WriteByte('{')
		for i, k := range v.O.Keys {
			if i > 0 {
				sb.WriteByte(',')
			}
			writeJSONString(sb, k)
			sb.WriteByte(':')
			writeJSON(sb, v.O.M[k].V)
		}
		sb.WriteByte('}')
	default:
		sb.WriteString("null")
	}
}

func writeJSONString(sb *strings.Builder, s string) {
	sb.WriteByte('"')
	for i := 0; i < len(s); i++ {
		c := s[i]
		switch {
		case c == '"':
			sb.WriteString("\\\"")
		case c == '\\':
			sb.WriteString("\\\\")
		case c < 0x20:
			sb.WriteString("\\u00")
			sb.WriteByte("0123456789abcdef"[c>>4])
			sb.WriteByte("0123456789abcdef"[c&15])
		default:
			sb.WriteByte(c)
		}
	}
	sb.WriteByte('"')
}
