package refsem

import (
	"encoding/json"
	"fmt"
)

// FromImplAST converts the syntax tree the implementation's parser built (the
// JSON rendering of the VerifAST hook) into the model's AST, node for node. The
// model then evaluates exactly the parse the implementation evaluates: grouping
// is the business of C06 / C13, evaluation of everything else.
func FromImplAST(js string) (p *Program, err error) {
	defer func() {
		if r := recover(); r != nil {
			p, err = nil, fmt.Errorf("refsem: cannot convert the implementation's tree: %v", r)
		}
	}()
	var top struct {
		Funcs []json.RawMessage `json:"funcs"`
		Rules []json.RawMessage `json:"rules"`
	}
	if e := json.Unmarshal([]byte(js), &top); e != nil {
		return nil, e
	}
	p = &Program{}
	for _, raw := range top.Funcs {
		parts := list(raw)
		f := &Func{Name: str(parts[0])}
		for _, a := range list(parts[1]) {
			f.Params = append(f.Params, str(a))
		}
		f.Body = asBlock(implStmt(parts[2]))
		p.Funcs = append(p.Funcs, f)
	}
	for _, raw := range top.Rules {
		parts := list(raw)
		r := &Rule{Pattern: implExpr(parts[1])}
		switch str(parts[0]) {
		case "BeginRule":
			r.Kind = "BEGIN"
		case "EndRule":
			r.Kind = "END"
		case "BeginFileRule":
			r.Kind = "BEGINFILE"
		case "EndFileRule":
			r.Kind = "ENDFILE"
		case "PatternRule":
		default:
			panic("rule kind " + str(parts[0]))
		}
		body := implStmt(parts[2])
		if pr, ok := body.(*Print); ok && len(pr.Args) == 0 {
			r.Body = nil // a rule without a body
			if r.Kind != "" || r.Pattern == nil {
				r.Body = Blk(Pr())
			}
		} else {
			r.Body = asBlock(body)
		}
		p.Rules = append(p.Rules, r)
	}
	return p, nil
}

func asBlock(s Stmt) *Block {
	if b, ok := s.(*Block); ok {
		return b
	}
	return Blk(s)
}

func list(raw json.RawMessage) []json.RawMessage {
	var l []json.RawMessage
	if err := json.Unmarshal(raw, &l); err != nil {
		panic(err)
	}
	return l
}

func str(raw json.RawMessage) string {
	var s string
	if err := json.Unmarshal(raw, &s); err != nil {
		panic(err)
	}
	return s
}

func isNull(raw json.RawMessage) bool { return string(raw) == "null" }

func implExprs(raws []json.RawMessage) []Expr {
	out := make([]Expr, 0, len(raws))
	for _, r := range raws {
		out = append(out, implExpr(r))
	}
	return out
}

var implBinOps = map[string]string{"+": "+", "-": "-", "*": "*", "/": "/", "%": "%", "==": "==", "!=": "!=", "<": "<", "<=": "<=", ">": ">", ">=": ">=", "~": "~", "!~": "!~", "&&": "&&", "||": "||"}

func implExpr(raw json.RawMessage) Expr {
	if isNull(raw) {
		return nil
	}
	n := list(raw)
	switch str(n[0]) {
	case "lit":
		tag, text := str(n[1]), str(n[2])
		switch tag {
		case "Num":
			return &NumLit{Text: text}
		case "Str":
			return &RawStrLit{Raw: text, Quote: '"'}
		case "Regex":
			return &RegexLit{Src: text}
		case "true":
			return &BoolLit{B: true}
		case "false":
			return &BoolLit{B: false}
		case "Null":
			return &NullLit{}
		}
		panic("literal tag " + tag)
	case "id":
		return &Ident{Name: str(n[1])}
	case "arr":
		return &ArrayLit{Items: implExprs(n[1:])}
	case "obj":
		o := &ObjLit{}
		for _, kv := range n[1:] {
			p := list(kv)
			o.Keys = append(o.Keys, str(p[0]))
			o.Vals = append(o.Vals, implExpr(p[1]))
		}
		return o
	case "un":
		op := str(n[1])
		var postfix bool
		if err := json.Unmarshal(n[2], &postfix); err != nil {
			panic(err)
		}
		x := implExpr(n[3])
		if postfix {
			return &Postfix{Op: op, X: x}
		}
		return &Unary{Op: op, X: x}
	case "bin":
		op := str(n[1])
		switch op {
		case ".":
			r := list(n[3])
			return &Member{X: implExpr(n[2]), Name: str(r[2])}
		case "[":
			return &Index{X: implExpr(n[2]), I: implExpr(n[3])}
		case "=":
			return &Assign{Op: "=", L: implExpr(n[2]), R: implExpr(n[3])}
		case "Is":
			r := list(n[3])
			return &IsExpr{X: implExpr(n[2]), T: str(r[1])}
		}
		if m, ok := implBinOps[op]; ok {
			return &Binary{Op: m, L: implExpr(n[2]), R: implExpr(n[3])}
		}
		panic("binary operator " + op)
	case "call":
		return &Call{F: implExpr(n[1]), Args: implExprs(n[2:])}
	case "match":
		m := &MatchExpr{Subj: implExpr(n[1])}
		for _, c := range n[2:] {
			p := list(c)
			mc := MatchCase{Pats: implExprs(list(p[0])[1:])}
			body := implStmt(p[1])
			if es, ok := body.(*ExprStmt); ok {
				mc.Body = es.X
			} else {
				mc.Block = asBlock(body)
			}
			m.Cases = append(m.Cases, mc)
		}
		return m
	}
	panic("expression node " + str(n[0]))
}

func implStmt(raw json.RawMessage) Stmt {
	if isNull(raw) {
		return nil
	}
	n := list(raw)
	switch str(n[0]) {
	case "block":
		b := &Block{}
		for _, s := range n[1:] {
			b.Body = append(b.Body, implStmt(s))
		}
		return b
	case "print":
		return &Print{Args: implExprs(n[1:])}
	case "expr":
		return &ExprStmt{X: implExpr(n[1])}
	case "return":
		return &Return{X: implExpr(n[1])}
	case "break":
		return &Break{}
	case "continue":
		return &Continue{}
	case "next":
		return &Next{}
	case "exit":
		return &Exit{}
	case "if":
		return &If{Cond: implExpr(n[1]), Then: implStmt(n[2]), Else: implStmt(n[3])}
	case "while":
		return &While{Cond: implExpr(n[1]), Body: implStmt(n[2])}
	case "for":
		return &For{Init: implExpr(n[1]), Cond: implExpr(n[2]), Post: implExpr(n[3]), Body: implStmt(n[4])}
	case "forin":
		f := &ForIn{V: implExpr(n[1]).(*Ident).Name, Iter: implExpr(n[3]), Body: implStmt(n[4])}
		if !isNull(n[2]) {
			f.W = implExpr(n[2]).(*Ident).Name
		}
		return f
	}
	panic("statement node " + str(n[0]))
}
