package refsem

import (
	"strings"
)

// ----- model AST -----

type Expr interface{}

type (
	NumLit struct{ Text string } // numeral as spelled
	StrLit struct {
		S     string // the characters denoted
		Quote byte   // 0 = '"'
	}
	RawStrLit struct { // contents verbatim, for escape tests
		Raw   string
		Quote byte
	}
	BoolLit  struct{ B bool }
	NullLit  struct{}
	RegexLit struct{ Src string }
	Ident    struct{ Name string } // x, $, $index, $file
	Unary    struct {              // prefix ! - + ++ --
		Op string
		X  Expr
	}
	Postfix struct { // postfix ++ --
		Op string
		X  Expr
	}
	Binary struct { // + - * / % == != < <= > >= ~ !~ && ||
		Op   string
		L, R Expr
	}
	IsExpr struct {
		X Expr
		T string
	}
	Assign struct { // = += -= *= /=
		Op   string
		L, R Expr
	}
	Member struct {
		X    Expr
		Name string
	}
	Index struct{ X, I Expr }
	Call  struct {
		F    Expr
		Args []Expr
	}
	ArrayLit struct{ Items []Expr }
	ObjLit   struct {
		Keys []string
		Vals []Expr
	}
	MatchExpr struct {
		Subj  Expr
		Cases []MatchCase
	}
	Paren struct{ X Expr } // redundant parentheses
)

type MatchCase struct {
	Pats  []Expr
	Body  Expr   // expression body, or
	Block *Block // block body
}

type Stmt interface{}

type (
	Block    struct{ Body []Stmt }
	Print    struct{ Args []Expr }
	ExprStmt struct{ X Expr }
	Return   struct{ X Expr } // nil: bare return
	If       struct {
		Cond       Expr
		Then, Else Stmt
	}
	While struct {
		Cond Expr
		Body Stmt
	}
	For struct {
		Init, Cond, Post Expr
		Body             Stmt
	}
	ForIn struct {
		V, W string // W == "": one variable
		Iter Expr
		Body Stmt
	}
	Break    struct{}
	Continue struct{}
	Next     struct{}
	Exit     struct{}
)

type Rule struct {
	Kind    string // BEGIN END BEGINFILE ENDFILE or "" (pattern rule)
	Pattern Expr   // nil: none
	Body    *Block // nil: no body (prints $)
}

type Func struct {
	Name   string
	Params []string
	Body   *Block
}

type Program struct {
	Funcs []*Func
	Rules []*Rule
}

// ----- helpers to build ASTs tersely -----

func N(text string) Expr            { return &NumLit{text} }
func S(s string) Expr               { return &StrLit{S: s} }
func V(name string) Expr            { return &Ident{name} }
func Bin(op string, l, r Expr) Expr { return &Binary{op, l, r} }
func Un(op string, x Expr) Expr     { return &Unary{op, x} }
func Asg(op string, l, r Expr) Expr { return &Assign{op, l, r} }
func Mem(x Expr, name string) Expr  { return &Member{x, name} }
func Idx(x, i Expr) Expr            { return &Index{x, i} }
func CallE(f Expr, args ...Expr) Expr {
	return &Call{f, args}
}
func Arr_(items ...Expr) Expr { return &ArrayLit{items} }
func Blk(body ...Stmt) *Block { return &Block{body} }
func Pr(args ...Expr) Stmt    { return &Print{args} }
func Ex(x Expr) Stmt          { return &ExprStmt{x} }

// ----- rendering to tokens -----

// Tok is one token of a rendered program. Sep marks a statement separator,
// rendered as a newline in the canonical layout.
type Tok struct {
	S          string
	Sep        bool // statement separator (newline); may be written ';' unless AfterBrace
	AfterBrace bool
}

type Style struct {
	Full bool // parenthesise every composite sub-expression
}

const (
	lvAssign = 1
	lvLogic  = 2
	lvCmp    = 3
	lvAdd    = 4
	lvMul    = 5
	lvPrefix = 6
	lvSuffix = 7
	lvPrim   = 8
)

func BinLevel(op string) int {
	switch op {
	case "&&", "||":
		return lvLogic
	case "==", "!=", "<", "<=", ">", ">=", "~", "!~":
		return lvCmp
	case "+", "-":
		return lvAdd
	case "*", "/", "%":
		return lvMul
	}
	panic("unknown binary operator " + op)
}

func level(e Expr) int {
	switch x := e.(type) {
	case *Assign:
		return lvAssign
	case *Binary:
		return BinLevel(x.Op)
	case *IsExpr:
		return lvCmp
	case *Unary:
		return lvPrefix
	case *Postfix:
		return lvSuffix
	case *Member, *Index, *Call:
		return lvSuffix
	}
	return lvPrim
}

type renderer struct {
	toks  []Tok
	style Style
}

func (r *renderer) t(s ...string) {
	for _, x := range s {
		r.toks = append(r.toks, Tok{S: x})
	}
}

func (r *renderer) sep() {
	if n := len(r.toks); n > 0 && r.toks[n-1].Sep {
		return
	}
	ab := false
	if n := len(r.toks); n > 0 && r.toks[n-1].S == "}" {
		ab = true
	}
	r.toks = append(r.toks, Tok{S: "\n", Sep: true, AfterBrace: ab})
}

func QuoteStr(s string, q byte) string {
	if q == 0 {
		q = '"'
	}
	var sb strings.Builder
	sb.WriteByte(q)
	for i := 0; i < len(s); i++ {
		switch s[i] {
		case '\n':
			sb.WriteString("\\n")
		case '\t':
			sb.WriteString("\\t")
		case '\\':
			sb.WriteString("\\\\")
		default:
			sb.WriteByte(s[i])
		}
	}
	sb.WriteByte(q)
	return sb.String()
}

// sub renders e as an operand that must bind at least as tightly as min.
func (r *renderer) sub(e Expr, min int) {
	need := level(e) < min
	if r.style.Full {
		switch e.(type) {
		case *Assign, *Binary, *IsExpr, *Unary, *Postfix:
			need = true
		}
	}
	if need {
		r.t("(")
		r.expr(e)
		r.t(")")
	} else {
		r.expr(e)
	}
}

func (r *renderer) expr(e Expr) {
	switch x := e.(type) {
	case *NumLit:
		r.t(x.Text)
	case *StrLit:
		r.t(QuoteStr(x.S, x.Quote))
	case *RawStrLit:
		q := x.Quote
		if q == 0 {
			q = '"'
		}
		r.t(string(q) + x.Raw + string(q))
	case *BoolLit:
		if x.B {
			r.t("true")
		} else {
			r.t("false")
		}
	case *NullLit:
		r.t("null")
	case *RegexLit:
		r.t("/" + x.Src + "/")
	case *Ident:
		r.t(x.Name)
	case *Paren:
		r.t("(")
		r.expr(x.X)
		r.t(")")
	case *Unary:
		r.t(x.Op)
		if _, post := x.X.(*Postfix); post {
			// how a postfix ++/-- groups with a prefix operator is not fixed by any statement: always parenthesised
			r.t("(")
			r.expr(x.X)
			r.t(")")
			break
		}
		r.sub(x.X, lvPrefix)
	case *Postfix:
		r.sub(x.X, lvSuffix)
		r.t(x.Op)
	case *Binary:
		lv := BinLevel(x.Op)
		r.sub(x.L, lv)
		r.t(x.Op)
		r.sub(x.R, lv+1)
	case *IsExpr:
		r.sub(x.X, lvCmp)
		r.t("is", x.T)
	case *Assign:
		r.target(x.L)
		r.t(x.Op)
		r.sub(x.R, lvAssign)
	case *Member:
		r.sub(x.X, lvSuffix)
		r.t(".", x.Name)
	case *Index:
		r.sub(x.X, lvSuffix)
		r.t("[")
		r.inner(x.I)
		r.t("]")
	case *Call:
		r.sub(x.F, lvSuffix)
		r.t("(")
		for i, a := range x.Args {
			if i > 0 {
				r.t(",")
			}
			r.inner(a)
		}
		r.t(")")
	case *ArrayLit:
		r.t("[")
		for i, a := range x.Items {
			if i > 0 {
				r.t(",")
			}
			r.inner(a)
		}
		r.t("]")
	case *ObjLit:
		r.t("{")
		for i, k := range x.Keys {
			if i > 0 {
				r.t(",")
			}
			if isIdentName(k) {
				r.t(k)
			} else {
				r.t(QuoteStr(k, 0))
			}
			r.t(":")
			r.inner(x.Vals[i])
		}
		r.t("}")
	case *MatchExpr:
		r.t("match", "(")
		r.inner(x.Subj)
		r.t(")", "{")
		for i, c := range x.Cases {
			if i > 0 {
				r.t(",")
			}
			for j, p := range c.Pats {
				if j > 0 {
					r.t(",")
				}
				r.expr(p)
			}
			r.t("=>")
			if c.Block != nil {
				r.block(c.Block)
			} else {
				r.inner(c.Body)
			}
		}
		r.t("}")
	default:
		panic("refsem: cannot render expression")
	}
}

// inner renders an expression in a delimited position (argument, index,
// element): no parentheses are needed whatever its level, but the Full style
// still wraps composites.
func (r *renderer) inner(e Expr) { r.sub(e, lvAssign) }

func (r *renderer) target(e Expr) {
	// assignment targets are never wrapped
	switch x := e.(type) {
	case *Ident:
		r.t(x.Name)
	case *Member:
		r.sub(x.X, lvSuffix)
		r.t(".", x.Name)
	case *Index:
		r.sub(x.X, lvSuffix)
		r.t("[")
		r.inner(x.I)
		r.t("]")
	default:
		r.expr(e) // invalid targets (syntax-error tests)
	}
}

var keywords = map[string]bool{"BEGIN": true, "END": true, "BEGINFILE": true, "ENDFILE": true, "print": true, "function": true, "return": true, "if": true, "else": true, "for": true, "while": true, "in": true, "match": true, "true": true, "false": true, "break": true, "continue": true, "next": true, "exit": true, "null": true, "is": true}

func IsKeyword(s string) bool { return keywords[s] }

func isIdentName(s string) bool {
	if s == "" || keywords[s] {
		return false
	}
	for i := 0; i < len(s); i++ {
		b := s[i]
		if !(b == '_' || b >= 'a' && b <= 'z' || b >= 'A' && b <= 'Z' || (i > 0 && b >= '0' && b <= '9')) {
			return false
		}
	}
	return true
}

func (r *renderer) block(b *Block) {
	r.t("{")
	if len(b.Body) > 0 {
		r.sep()
	}
	for _, s := range b.Body {
		r.stmt(s)
		r.sep()
	}
	r.t("}")
}

func (r *renderer) stmt(s Stmt) {
	switch x := s.(type) {
	case *Block:
		r.block(x)
	case *Print:
		r.t("print")
		for i, a := range x.Args {
			if i > 0 {
				r.t(",")
			}
			r.inner(a)
		}
	case *ExprStmt:
		// never wrapped: a statement that starts with '(' would continue an
		// expression statement on the line before it (newlines are not
		// significant inside expressions)
		r.expr(x.X)
	case *Return:
		r.t("return")
		if x.X != nil {
			r.inner(x.X)
		}
	case *If:
		r.t("if", "(")
		r.inner(x.Cond)
		r.t(")")
		if x.Else != nil && danglingIf(x.Then) {
			// without braces the else would bind to the inner if
			r.block(&Block{[]Stmt{x.Then}})
		} else {
			r.stmt(x.Then)
		}
		if x.Else != nil {
			if _, isBlock := x.Then.(*Block); !isBlock {
				r.sep()
			}
			r.t("else")
			r.stmt(x.Else)
		}
	case *While:
		r.t("while", "(")
		r.inner(x.Cond)
		r.t(")")
		r.stmt(x.Body)
	case *For:
		r.t("for", "(")
		r.inner(x.Init)
		r.t(";")
		r.inner(x.Cond)
		r.t(";")
		r.inner(x.Post)
		r.t(")")
		r.stmt(x.Body)
	case *ForIn:
		r.t("for", "(", x.V)
		if x.W != "" {
			r.t(",", x.W)
		}
		r.t("in")
		r.inner(x.Iter)
		r.t(")")
		r.stmt(x.Body)
	case *Break:
		r.t("break")
	case *Continue:
		r.t("continue")
	case *Next:
		r.t("next")
	case *Exit:
		r.t("exit")
	default:
		panic("refsem: cannot render statement")
	}
}

// danglingIf: would an else written after s attach to an if inside s?
func danglingIf(s Stmt) bool {
	switch x := s.(type) {
	case *If:
		if x.Else == nil {
			return true
		}
		return danglingIf(x.Else)
	case *While:
		return danglingIf(x.Body)
	case *For:
		return danglingIf(x.Body)
	case *ForIn:
		return danglingIf(x.Body)
	}
	return false
}

func (r *renderer) program(p *Program) {
	for _, f := range p.Funcs {
		r.t("function", f.Name, "(")
		for i, a := range f.Params {
			if i > 0 {
				r.t(",")
			}
			r.t(a)
		}
		r.t(")")
		r.block(f.Body)
		r.sep()
	}
	for _, ru := range p.Rules {
		if ru.Kind != "" {
			r.t(ru.Kind)
		} else if ru.Pattern != nil {
			r.inner(ru.Pattern)
		}
		if ru.Body != nil {
			r.block(ru.Body)
		}
		r.sep()
	}
}

func Tokens(p *Program, st Style) []Tok {
	r := &renderer{style: st}
	r.program(p)
	return r.toks
}

func ExprTokens(e Expr, st Style) []Tok {
	r := &renderer{style: st}
	r.inner(e)
	return r.toks
}

// Join writes tokens in the canonical layout: one blank between tokens, a
// newline for each statement separator.
func Join(toks []Tok) string {
	var sb strings.Builder
	for i, t := range toks {
		if t.Sep {
			sb.WriteString("\n")
			continue
		}
		if i > 0 && !toks[i-1].Sep {
			sb.WriteByte(' ')
		}
		sb.WriteString(t.S)
	}
	return sb.String()
}

func Source(p *Program, st Style) string { return Join(Tokens(p, st)) }
func ExprSource(e Expr, st Style) string { return Join(ExprTokens(e, st)) }
