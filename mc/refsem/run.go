package refsem

// The rule schedule of 3.13.

type ModelFile struct {
	Name   string
	Values []*JNode
	Bad    bool // malformed / truncated / unreadable after Values
}

type Result struct {
	Stdout      string
	Kind        string // "none", "syntax", "runtime", "json"
	ErrFile     string // file named by a json error
	Err         string
	HasRoot     bool  // a root was selected (what -o serialises)
	Root        Value // the last root
	RootUnfixed bool  // the run ended inside a BEGINFILE rule: which root -o shows is not fixed by any statement
	Aborted     bool  // the model's own step budget fired
	Unfixed     string
	Steps       int64
	M           *Machine
}

// Selector is a root selector: an expression evaluated with $ = a private copy
// of the document, by a fresh interpreter.
type Selector struct{ X Expr }

func (m *Machine) runSpecial(r *Rule) ctl {
	c := m.Exec(r.Body)
	if c == cNext {
		return cNone // no current element: next just ends the rule
	}
	return c
}

func (m *Machine) fire(rules []*Rule) ctl {
	for _, r := range rules {
		if r.Pattern != nil {
			v, c := m.Eval(r.Pattern)
			if c == cNext {
				return cNone // next raised while the pattern is evaluated (in a callee, a match body) abandons the element
			}
			if c != cNone {
				return c
			}
			if !Truthy(v.Val()) {
				continue
			}
		}
		var c ctl
		if r.Body == nil {
			c = m.Exec(&Print{})
		} else {
			c = m.Exec(r.Body)
		}
		if c == cNext {
			return cNone
		}
		if c != cNone {
			return c
		}
	}
	return cNone
}

func RunProgram(p *Program, files []ModelFile, sels []Selector, ko KeyOrder, maxSteps int64) (res Result) {
	m := NewMachine(p)
	m.KO = ko
	if maxSteps > 0 {
		m.MaxSteps = maxSteps
	}
	var begin, end, beginFile, endFile, pattern []*Rule
	for _, r := range p.Rules {
		switch r.Kind {
		case "BEGIN":
			begin = append(begin, r)
		case "END":
			end = append(end, r)
		case "BEGINFILE":
			beginFile = append(beginFile, r)
		case "ENDFILE":
			endFile = append(endFile, r)
		default:
			pattern = append(pattern, r)
		}
	}
	var lastRoot *Slot
	finish := func(c ctl) Result {
		if lastRoot != nil {
			res.HasRoot = true
			res.Root = lastRoot.V
		}
		res.Stdout = m.Out.String()
		res.Steps = m.Steps
		res.Unfixed = m.Unfixed
		res.M = m
		switch c {
		case cNone, cExit:
			res.Kind = "none"
		case cError:
			res.Kind = "runtime"
			res.Err = m.Err
		case cAbort:
			res.Aborted = true
		default:
			res.Kind = "runtime"
			res.Err = "control signal escaped in the model"
			res.Unfixed = "control signal outside its construct"
		}
		return res
	}
	for _, r := range begin {
		m.Root = &Slot{Null()}
		if c := m.runSpecial(r); c != cNone {
			return finish(c)
		}
	}
	for _, f := range files {
		for _, doc := range f.Values {
			m.SetGlobal("$file", Str(f.Name))
			var roots []*Slot
			if len(sels) == 0 {
				roots = []*Slot{{FromJSON(doc)}}
			} else {
				for _, s := range sels {
					sm := NewMachine(nil)
					sm.KO = ko
					sm.MaxSteps = m.MaxSteps
					sm.Root = &Slot{FromJSON(doc)}
					r, c := sm.Eval(s.X)
					m.Out.WriteString(sm.Out.String())
					m.Steps += sm.Steps
					if sm.Unfixed != "" {
						m.Unfixed = sm.Unfixed
					}
					switch c {
					case cNone:
					case cExit:
						return finish(cExit)
					case cNext:
						m.Err = "next used outside of a rule"
						return finish(cError)
					case cError:
						m.Err = sm.Err
						return finish(cError)
					default:
						return finish(c)
					}
					// the selected root is a value of its own, as if assigned to $
					rv, cc := sm.copyVal(r.Val())
					if cc != cNone {
						m.Err = sm.Err
						return finish(cError)
					}
					roots = append(roots, &Slot{rv})
				}
			}
			for _, root := range roots {
				orig := root.V
				for _, r := range beginFile {
					m.Root = root
					if c := m.runSpecial(r); c != cNone {
						res.RootUnfixed = true
						return finish(c)
					}
				}
				lastRoot = root
				if root.V.K == KArr {
					items := root.V.A.Items
					for i, el := range items {
						m.Root = el
						m.Frames[len(m.Frames)-1].Vars["$index"] = &Slot{Num(float64(i))}
						if c := m.fire(pattern); c != cNone {
							return finish(c)
						}
					}
				} else {
					m.Root = root
					if c := m.fire(pattern); c != cNone {
						return finish(c)
					}
				}
				for _, r := range endFile {
					m.Root = &Slot{orig}
					if c := m.runSpecial(r); c != cNone {
						return finish(c)
					}
				}
			}
		}
		if f.Bad {
			r := finish(cNone)
			r.Kind = "json"
			r.ErrFile = f.Name
			return r
		}
	}
	for _, r := range end {
		m.Root = &Slot{Null()}
		if c := m.runSpecial(r); c != cNone {
			return finish(c)
		}
	}
	return finish(cNone)
}
