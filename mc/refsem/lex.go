package refsem

// Reference lexer (DESIGN.md 3.18): tokens by maximal munch.

type LTok struct {
	Class string // Ident, Num, Str, or the spelling class of a keyword / operator / newline
	Text  string
	Pos   int
}

type LexResult struct {
	Toks        []LTok
	ErrAt       int  // >= 0: position of a lexical error (illegal character, unterminated string)
	Unspecified bool // the text touches something 3.18 does not fix (non-ASCII outside strings/comments, a numeral followed by '.')
}

var lexKeywordTag = map[string]string{"BEGIN": "Begin", "END": "End", "BEGINFILE": "BeginFile", "ENDFILE": "EndFile", "print": "Print", "function": "Function", "return": "Return", "if": "If", "else": "Else",
	"for": "For", "while": "While", "in": "In", "match": "Match", "break": "Break", "continue": "Continue", "next": "Next", "exit": "Exit", "null": "Null", "is": "Is", "true": "true", "false": "false"}

var lexTwo = []string{"==", "!=", "<=", ">=", "++", "--", "+=", "-=", "*=", "/=", "&&", "||", "=>", "!~"}

const lexOne = "{}[]()<>,.=:;+-*/~!%"

func isIdStart(b byte) bool { return b == '_' || b >= 'a' && b <= 'z' || b >= 'A' && b <= 'Z' }
func isIdPart(b byte) bool  { return isIdStart(b) || b >= '0' && b <= '9' }

func Lex(src string) LexResult {
	r := LexResult{ErrAt: -1}
	i := 0
	for i < len(src) {
		b := src[i]
		switch {
		case b == ' ' || b == '\t' || b == '\r':
			i++
		case b == '#':
			for i < len(src) && src[i] != '\n' {
				i++
			}
		case b == '\n':
			r.Toks = append(r.Toks, LTok{"Newline", "\n", i})
			i++
		case b >= 0x80:
			r.Unspecified = true
			return r
		case b == '$':
			j := i + 1
			for j < len(src) && isIdPart(src[j]) {
				j++
			}
			if j < len(src) && src[j] >= 0x80 {
				r.Unspecified = true
				return r
			}
			cls := "Ident"
			if j == i+1 {
				cls = "$"
			}
			r.Toks = append(r.Toks, LTok{cls, src[i:j], i})
			i = j
		case isDigit(b):
			j := i
			for j < len(src) && isDigit(src[j]) {
				j++
			}
			if j+1 < len(src) && src[j] == '.' && isDigit(src[j+1]) {
				j++
				for j < len(src) && isDigit(src[j]) {
					j++
				}
			}
			if j < len(src) && src[j] == '.' {
				r.Unspecified = true // a numeral glued to '.'
				return r
			}
			r.Toks = append(r.Toks, LTok{"Num", src[i:j], i})
			i = j
		case isIdStart(b):
			j := i
			for j < len(src) && isIdPart(src[j]) {
				j++
			}
			if j < len(src) && src[j] >= 0x80 {
				r.Unspecified = true
				return r
			}
			w := src[i:j]
			cls := "Ident"
			if t, ok := lexKeywordTag[w]; ok {
				cls = t
			}
			r.Toks = append(r.Toks, LTok{cls, w, i})
			i = j
		case b == '\'' || b == '"':
			j := i + 1
			for j < len(src) && src[j] != b {
				j++
			}
			if j >= len(src) {
				r.ErrAt = i
				return r
			}
			// the implementation reports the token at the first character of the contents
			r.Toks = append(r.Toks, LTok{"Str", src[i+1 : j], i + 1})
			i = j + 1
		default:
			matched := false
			if i+1 < len(src) {
				for _, op := range lexTwo {
					if src[i:i+2] == op {
						r.Toks = append(r.Toks, LTok{op, op, i})
						i += 2
						matched = true
						break
					}
				}
			}
			if matched {
				continue
			}
			ok := false
			for k := 0; k < len(lexOne); k++ {
				if lexOne[k] == b {
					ok = true
				}
			}
			if !ok {
				r.ErrAt = i
				return r
			}
			r.Toks = append(r.Toks, LTok{string(b), string(b), i})
			i++
		}
	}
	return r
}
