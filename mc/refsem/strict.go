package refsem

// Strict mode. The generators of the per-property checks avoid every construct whose meaning no statement fixes
// (DESIGN.md 7.1, 7.4). When the model is run on programs that were NOT built by such a generator -- every token
// sequence over an alphabet that parses -- it has to notice those constructs itself, at run time, and decline the case
// (Unfixed) instead of comparing an arbitrary answer:
//
//   - an operand location that is written between its evaluation and its use (the implementation hands cells around:
//     `i + i++`, `print i, i++`, `a[i][i++]`, `f(f = 5)`), or a location that does not exist yet held across a store;
//   - a store into something that is not a location (`-x = 1`, `f() = 2`, `s[0] = "x"`);
//   - assigning to a function name, to a name bound by a pattern, or to the location such a name aliases; a name bound
//     twice in one pattern; a regex as a pattern (a name first created inside a case body lives in the case's frame and is
//     gone afterwards: "a finished match leaves nothing behind");
//   - changing the shape of a container inside a loop over it;
//   - a $name that is not bound where it is read; an unset value as a member key; a NaN result; a function as a return
//     value; built-in methods called with a number of arguments their description does not mention.
func (m *Machine) unfixed(why string) {
	if m.Strict && m.Unfixed == "" {
		m.Unfixed = why
	}
}

func (m *Machine) wrote(s *Slot) {
	if !m.Strict {
		return
	}
	m.seq++
	if m.lastWrite == nil {
		m.lastWrite = map[*Slot]int64{}
	}
	m.lastWrite[s] = m.seq
	if m.aliased[s] > 0 {
		m.unfixed("a store into a location that a pattern name is bound to")
	}
	if s.V.K == KFn {
		m.unfixed("an assignment to a function name")
	}
}

// heldAcross: r was evaluated when the store counter stood at mark and is used only now.
func (m *Machine) heldAcross(r Ref, mark int64) {
	if !m.Strict || r.Tmp {
		return
	}
	if r.Pend != nil {
		if m.seq > mark {
			m.unfixed("a location that does not exist yet, held across a store")
		}
		return
	}
	if m.lastWrite[r.Slot] > mark {
		m.unfixed("an operand location written between its evaluation and its use")
	}
}

func (m *Machine) alias(s *Slot, d int) {
	if !m.Strict {
		return
	}
	if m.aliased == nil {
		m.aliased = map[*Slot]int{}
	}
	m.aliased[s] += d
}

func (m *Machine) iterate(c any, d int) {
	if !m.Strict {
		return
	}
	if m.iterating == nil {
		m.iterating = map[any]int{}
	}
	m.iterating[c] += d
}

// shape: the container c is about to gain or lose an element / key.
func (m *Machine) shape(c any) {
	if !m.Strict {
		return
	}
	m.seq++
	if m.iterating[c] > 0 {
		m.unfixed("a container changes shape inside a loop over it")
	}
}

func (m *Machine) strictNative(f Value, args []Value) {
	if !m.Strict {
		return
	}
	want := -1
	switch f.S {
	case "arr.length", "obj.length", "str.length", "str.lower", "str.upper", "num.floor", "num.ceil", "num.round", "arr.sort":
		want = 0
	case "str.split":
		want = 1
	}
	if want >= 0 && len(args) != want {
		m.unfixed("a built-in method called with an argument count its description does not mention")
	}
}
