// Package drive runs the real jqawk implementation in-process under the
// harness's control: captured output, step budget, recovered panics,
// classified outcome.
package drive

import (
	"bytes"
	"fmt"
	"io"
	"runtime/debug"
	"strings"

	lang "github.com/alligator/jqawk/src"
)

type ErrKind string

const (
	KNone    ErrKind = "none"
	KSyntax  ErrKind = "syntax"
	KRuntime ErrKind = "runtime"
	KJson    ErrKind = "json"
	KOther   ErrKind = "other" // any other error value: a C01 violation wherever it is seen
	KPanic   ErrKind = "panic"
	KBudget  ErrKind = "budget" // the harness's own step budget fired (inconclusive, not an outcome of jqawk)
)

const BudgetMsg = "verif: step budget exceeded"

type File struct {
	Name string `json:"name"`
	Data string `json:"data"`
	// Reader, when set, is used instead of Data (environment explorer).
	Reader io.Reader `json:"-"`
}

type Spec struct {
	Program   string    `json:"program"`
	Files     []File    `json:"files,omitempty"`
	Selectors []string  `json:"selectors,omitempty"`
	Fuzzing   bool      `json:"fuzzing,omitempty"`
	WantRoot  bool      `json:"want_root,omitempty"`
	Budget    int64     `json:"budget,omitempty"` // evaluator steps; 0 = default
	KeepState bool      `json:"keep_state,omitempty"`
	Stdout    io.Writer `json:"-"` // optional extra sink that sees every write as it happens
}

type Outcome struct {
	Stdout    string          `json:"stdout"`
	Kind      ErrKind         `json:"kind"`
	Msg       string          `json:"msg,omitempty"`
	Line      int             `json:"line,omitempty"`
	Col       int             `json:"col,omitempty"`
	SrcLine   string          `json:"src_line,omitempty"`
	FileName  string          `json:"file_name,omitempty"`
	Panic     string          `json:"panic,omitempty"`
	RootJSON  string          `json:"root_json,omitempty"`
	RootKind  ErrKind         `json:"root_kind,omitempty"` // none / other (plain error) / panic; "" when not asked
	RootMsg   string          `json:"root_msg,omitempty"`
	Steps     int64           `json:"steps,omitempty"`
	Truncated bool            `json:"truncated,omitempty"`
	Ev        *lang.Evaluator `json:"-"`
}

const DefaultBudget = 200000
const maxOut = 8 << 20

type capWriter struct {
	buf   bytes.Buffer
	extra io.Writer
	trunc bool
}

func (w *capWriter) Write(p []byte) (int, error) {
	if w.extra != nil {
		w.extra.Write(p)
	}
	if w.buf.Len()+len(p) > maxOut {
		w.trunc = true
		return len(p), nil
	}
	return w.buf.Write(p)
}

func Classify(err error) (ErrKind, string, int, int, string, string) {
	switch e := err.(type) {
	case nil:
		return KNone, "", 0, 0, "", ""
	case lang.SyntaxError:
		return KSyntax, e.Message, e.Line, e.Col, e.SrcLine, ""
	case lang.RuntimeError:
		if e.Message == BudgetMsg {
			return KBudget, e.Message, 0, 0, "", ""
		}
		return KRuntime, e.Message, e.Line, e.Col, e.SrcLine, ""
	case lang.JsonError:
		return KJson, e.Message, 0, 0, "", e.FileName
	default:
		return KOther, fmt.Sprintf("%T: %v", err, err), 0, 0, "", ""
	}
}

// Run executes one jqawk run. It never panics and never blocks on anything but
// the supplied readers.
func Run(s Spec) (out Outcome) {
	if !s.KeepState {
		lang.VerifResetGlobals()
	}
	lang.VerifSteps = 0
	lang.VerifStepBudget = s.Budget
	if s.Budget == 0 {
		lang.VerifStepBudget = DefaultBudget
	}
	w := &capWriter{extra: s.Stdout}
	files := make([]lang.InputFile, 0, len(s.Files))
	for _, f := range s.Files {
		r := f.Reader
		if r == nil {
			r = strings.NewReader(f.Data)
		}
		files = append(files, lang.InputFile{Name: f.Name, Reader: r})
	}
	var ev *lang.Evaluator
	func() {
		defer func() {
			if p := recover(); p != nil {
				out.Kind = KPanic
				out.Panic = fmt.Sprintf("%v\n%s", p, trimStack(debug.Stack()))
			}
		}()
		var err error
		ev, err = lang.EvalProgram(s.Program, files, s.Selectors, w, s.Fuzzing)
		out.Kind, out.Msg, out.Line, out.Col, out.SrcLine, out.FileName = Classify(err)
	}()
	out.Steps = lang.VerifSteps
	out.Ev = ev
	if s.WantRoot && ev != nil && out.Kind != KPanic {
		func() {
			defer func() {
				if p := recover(); p != nil {
					out.RootKind = KPanic
					out.RootMsg = fmt.Sprintf("%v", p)
				}
			}()
			lang.VerifStepBudget = 0
			j, err := ev.GetRootJson()
			if err != nil {
				out.RootKind = KOther
				out.RootMsg = err.Error()
			} else {
				out.RootKind = KNone
				out.RootJSON = j
			}
		}()
	}
	out.Stdout = w.buf.String()
	out.Truncated = w.trunc
	return out
}

func trimStack(b []byte) string {
	lines := strings.Split(string(b), "\n")
	keep := make([]string, 0, 12)
	for _, l := range lines {
		if strings.Contains(l, "jqawk/src") || strings.Contains(l, "jqawk/cli") {
			keep = append(keep, strings.TrimSpace(l))
			if len(keep) >= 8 {
				break
			}
		}
	}
	return strings.Join(keep, "\n")
}

// Program is a convenience for the common case: a program, at most one input.
func Program(prog string, input string, hasInput bool) Spec {
	s := Spec{Program: prog}
	if hasInput {
		s.Files = []File{{Name: "in.json", Data: input}}
	}
	return s
}
