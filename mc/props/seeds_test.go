package props

import (
	"testing"

	"verif/mc/fw"
)

// every seed program must agree with the model on the unchanged tree and must not be skipped
func TestSeeds(t *testing.T) {
	c := fw.NewCtx(&fw.Prop{ID: "seeds"}, fw.Quick, 0)
	for i, pc := range seedPrograms() {
		v, res, skipped := pc.check(c)
		if skipped {
			t.Errorf("seed %d skipped: %s aborted=%v\n%s", i+1, res.Unfixed, res.Aborted, pc.source())
		}
		if v != nil {
			t.Errorf("seed %d: %s\n%s\nwant:\n%s\n%+v", i+1, v.What, pc.source(), res.Stdout, v.Detail)
		}
		if res.Kind != "none" {
			t.Errorf("seed %d ends in %s (%s)", i+1, res.Kind, res.Err)
		}
	}
}
