package props

import (
	"encoding/json"
	"fmt"
	"strings"

	"verif/mc/drive"
	"verif/mc/fw"
	. "verif/mc/refsem"
)

// C08: calls bind by position and value; completed calls and matches leave no residue.

// ----- (i) call semantics -----

func c08BodyStmts() []struct {
	name string
	st   func() Stmt
} {
	return []struct {
		name string
		st   func() Stmt
	}{
		{"p = 10", func() Stmt { return Ex(Asg("=", V("p"), N("10"))) }},
		{"loc = 20", func() Stmt { return Ex(Asg("=", V("loc"), N("20"))) }},
		{"g = 30", func() Stmt { return Ex(Asg("=", V("g"), N("30"))) }},
		{"p[0] = 40", func() Stmt { return Ex(Asg("=", Idx(V("p"), N("0")), N("40"))) }},
		{"return p", func() Stmt { return &Return{V("p")} }},
		{"return", func() Stmt { return &Return{} }},
		{"return q + 1", func() Stmt { return &Return{Bin("+", V("q"), N("1"))} }},
		{"h(p)", func() Stmt { return Ex(CallE(V("h"), V("p"))) }},
		{"recurse", func() Stmt {
			return &If{Cond: Bin("<", V("d"), N("2")), Then: Blk(Ex(&Postfix{"++", V("d")}), Ex(CallE(V("f"), V("q"), V("p"))))}
		}},
		{"show p q", func() Stmt { return Blk(showS("in.p", V("p")), showS("in.q", V("q"))) }},
	}
}

var c08ArgVals = []struct {
	name string
	mk   func() Expr
}{
	{"5", func() Expr { return N("5") }},
	{"ga", func() Expr { return V("ga") }},
	{"[1,2]", func() Expr { return Arr_(N("1"), N("2")) }},
	{"un", func() Expr { return V("un") }},
	{"o.missing", func() Expr { return Mem(V("o"), "missing") }}, // a member that does not exist: passed as null, and the parameter is the callee's own
	{"ga[5]", func() Expr { return Idx(V("ga"), N("5")) }},
}

var c08H = &Func{Name: "h", Params: []string{"a"}, Body: Blk(Ex(Asg("=", Idx(V("a"), N("1")), N("50"))), Ex(Asg("=", V("hl"), N("60"))), &Return{N("70")})}

type c08Spec struct {
	Form  string `json:"form"` // call, residue, long, depth
	Body  []int  `json:"body,omitempty"`
	Arity int    `json:"arity,omitempty"`
	Args  []int  `json:"args,omitempty"`
	Pos   int    `json:"pos,omitempty"`
	Ctx   int    `json:"ctx,omitempty"`
	Seq   []int  `json:"seq,omitempty"`
	Shape int    `json:"shape,omitempty"`
	Text  string `json:"text,omitempty"`
}

const c08NPos = 4

func c08CallProg(s c08Spec) *progCase {
	stmts := c08BodyStmts()
	var body []Stmt
	for _, i := range s.Body {
		body = append(body, stmts[i].st())
	}
	f := &Func{Name: "f", Params: []string{"p", "q"}[:s.Arity], Body: Blk(body...)}
	args := make([]Expr, len(s.Args))
	for i, a := range s.Args {
		args[i] = c08ArgVals[a].mk()
	}
	call := CallE(V("f"), args...)
	var site Stmt
	switch s.Pos {
	case 0:
		site = Ex(call)
	case 1:
		site = Ex(Asg("=", V("r"), call))
	case 2:
		site = Ex(Asg("=", V("r"), Arr_(N("1"), CallE(V("h2"), call))))
	case 3:
		site = &If{Cond: Bin("==", call, &NullLit{}), Then: Pr(S("was null")), Else: Pr(S("not null"))}
	}
	h2 := &Func{Name: "h2", Params: []string{"v"}, Body: Blk(&Return{V("v")})}
	main := Blk(
		Ex(Asg("=", V("g"), N("1"))), Ex(Asg("=", V("ga"), Arr_(N("7"), N("8")))), Ex(Asg("=", V("d"), N("0"))), Ex(Asg("=", V("o"), &ObjLit{Keys: []string{"k"}, Vals: []Expr{N("1")}})),
		site,
		showS("r", V("r")), showS("p", V("p")), showS("q", V("q")), showS("loc", V("loc")), showS("g", V("g")), showS("ga", V("ga")), showS("hl", V("hl")), showS("d", V("d")), showS("un", V("un")), showS("o", V("o")),
	)
	return &progCase{P: &Program{Funcs: []*Func{c09Show, c08H, h2, f}, Rules: []*Rule{{Kind: "BEGIN", Body: main}}}}
}

func c08CallCheck(c *fw.Ctx, s c08Spec) *fw.Violation {
	pc := c08CallProg(s)
	v, res, skipped := pc.check(c)
	if !skipped && v == nil {
		c.State(fmt.Sprintf("call arity=%d args=%d pos=%d -> %s", s.Arity, len(s.Args), s.Pos, res.Kind))
	}
	return v
}

// ----- (ii)-(iv) residue -----

// the ways control can leave a frame; each is fired as (part of) the body of a pattern rule
func c08Transitions() []struct {
	name string
	st   func() Stmt
} {
	one := func() Expr { return N("1") }
	any := func(b *Block) Expr {
		return &MatchExpr{Subj: one(), Cases: []MatchCase{{Pats: []Expr{V("_")}, Block: b}}}
	}
	return []struct {
		name string
		st   func() Stmt
	}{
		{"call ends normally", func() Stmt { return Ex(CallE(V("t0"))) }},
		{"return from a loop", func() Stmt { return Ex(CallE(V("t1"))) }},
		{"return from a match block", func() Stmt { return Ex(CallE(V("t2"))) }},
		{"return from a loop in a match in a loop", func() Stmt { return Ex(CallE(V("t3"))) }},
		{"match with expression body", func() Stmt {
			return Ex(Asg("=", V("y"), &MatchExpr{Subj: N("5"), Cases: []MatchCase{{Pats: []Expr{V("x1")}, Body: V("x1")}}}))
		}},
		{"match with block body", func() Stmt {
			return Ex(&MatchExpr{Subj: N("5"), Cases: []MatchCase{{Pats: []Expr{V("x2")}, Block: Blk(Ex(Asg("=", V("z"), V("x2"))))}}})
		}},
		{"match block left by continue", func() Stmt {
			return &For{Init: Asg("=", V("i"), N("0")), Cond: Bin("<", V("i"), N("2")), Post: &Postfix{"++", V("i")}, Body: Blk(Ex(any(Blk(&Continue{}))))}
		}},
		{"match block left by break", func() Stmt {
			return &For{Init: Asg("=", V("i"), N("0")), Cond: Bin("<", V("i"), N("2")), Post: &Postfix{"++", V("i")}, Body: Blk(Ex(any(Blk(&Break{}))))}
		}},
		{"match block left by next", func() Stmt { return Ex(any(Blk(&Next{}))) }},
		{"call left by next", func() Stmt { return Ex(CallE(V("t9"))) }},
		{"callee's match left by next", func() Stmt { return Ex(CallE(V("t10"))) }},
		{"call in match in call", func() Stmt { return Ex(Asg("=", V("y"), CallE(V("t11")))) }},
		{"recursion 300 deep", func() Stmt { return Ex(Asg("=", V("y"), CallE(V("deep"), N("300")))) }},
		{"match that selects no case", func() Stmt {
			return Ex(Asg("=", V("y"), &MatchExpr{Subj: one(), Cases: []MatchCase{{Pats: []Expr{N("2")}, Body: N("0")}}}))
		}},
		{"surplus and missing arguments", func() Stmt { return Blk(Ex(CallE(V("t0"), N("1"), N("2"))), Ex(CallE(V("two")))) }},
		// a signal passes through a case that has an EXPRESSION body
		{"expression-bodied case whose callee executes next", func() Stmt {
			return Ex(Asg("=", V("y"), Bin("+", N("1"), &MatchExpr{Subj: N("5"), Cases: []MatchCase{{Pats: []Expr{V("x3")}, Body: CallE(V("t9"))}}})))
		}},
		{"expression-bodied case around a block case left by next", func() Stmt {
			return Ex(Asg("=", V("y"), &MatchExpr{Subj: N("5"), Cases: []MatchCase{{Pats: []Expr{V("x4")}, Body: any(Blk(&Next{}))}}}))
		}},
		{"expression-bodied case whose callee's match is left by next", func() Stmt {
			return Ex(Asg("=", V("y"), Arr_(&MatchExpr{Subj: Arr_(N("5")), Cases: []MatchCase{{Pats: []Expr{Arr_(V("x5"))}, Body: CallE(V("t10"))}}})))
		}},
	}
}

func c08Funcs() []*Func {
	one := func() Expr { return N("1") }
	any := func(b *Block) Expr {
		return &MatchExpr{Subj: one(), Cases: []MatchCase{{Pats: []Expr{V("_")}, Block: b}}}
	}
	wh := func(body ...Stmt) Stmt { return &While{Cond: &BoolLit{B: true}, Body: Blk(body...)} }
	return []*Func{
		c09Show,
		{Name: "t0", Body: Blk(Ex(Asg("=", V("l0"), N("1"))))},
		{Name: "two", Params: []string{"a", "b"}, Body: Blk(Ex(Asg("=", V("l1"), V("a"))))},
		{Name: "t1", Body: Blk(wh(&Return{N("1")}))},
		{Name: "t2", Body: Blk(Ex(any(Blk(&Return{N("2")}))), &Return{N("0")})},
		{Name: "t3", Body: Blk(wh(Ex(any(Blk(wh(&Return{N("3")}))))))},
		{Name: "t9", Body: Blk(Ex(Asg("=", V("l9"), N("1"))), &Next{})},
		{Name: "inner", Body: Blk(Ex(any(Blk(&Next{}))))},
		{Name: "t10", Body: Blk(Ex(CallE(V("inner"))))},
		{Name: "t11", Body: Blk(&Return{&MatchExpr{Subj: one(), Cases: []MatchCase{{Pats: []Expr{V("m")}, Body: CallE(V("two"), V("m"), V("m"))}}}})},
		{Name: "deep", Params: []string{"n"}, Body: Blk(&If{Cond: Bin("<=", V("n"), N("0")), Then: &Return{N("0")}}, &Return{Bin("+", N("1"), CallE(V("deep"), Bin("-", V("n"), N("1"))))})},
	}
}

const c08NCtx = 4

// c08ResidueProg: the element value selects the transition; ctx nests the dispatch.
func c08ResidueProg(ctx int) *Program {
	ts := c08Transitions()
	var chain []Stmt
	for k, t := range ts {
		chain = append(chain, &If{Cond: Bin("==", V("$"), N(fmt.Sprint(k))), Then: Blk(t.st())})
	}
	funcs := c08Funcs()
	var body Stmt
	anyB := func(b *Block) Expr {
		return &MatchExpr{Subj: N("1"), Cases: []MatchCase{{Pats: []Expr{V("_")}, Block: b}}}
	}
	switch ctx {
	case 0:
		body = Blk(chain...)
	case 1:
		funcs = append(funcs, &Func{Name: "w1", Body: Blk(append(chain, &Return{N("0")})...)})
		body = Blk(Ex(CallE(V("w1"))))
	case 2:
		body = Blk(Ex(anyB(Blk(chain...))))
	case 3:
		funcs = append(funcs, &Func{Name: "w1", Body: Blk(append(chain, &Return{N("0")})...)})
		funcs = append(funcs, &Func{Name: "w3", Body: Blk(Ex(anyB(Blk(Ex(CallE(V("w1")))))), &Return{N("0")})})
		body = Blk(Ex(CallE(V("w3"))))
	}
	return &Program{Funcs: funcs, Rules: []*Rule{
		{Body: Blk(body, Pr(S("done"), V("$")))},
		{Body: Blk(Pr(S("second"), V("$")), showS("x1", V("x1")), showS("x2", V("x2")), showS("x3", V("x3")), showS("x4", V("x4")), showS("x5", V("x5")), showS("m", V("m")), showS("l0", V("l0")), showS("l9", V("l9")), showS("n", V("n")), showS("a", V("a")))},
		{Kind: "END", Body: Blk(Pr(S("end")))},
	}}
}

func c08Input(seq []int) string {
	parts := make([]string, len(seq))
	for i, k := range seq {
		parts[i] = fmt.Sprint(k)
	}
	return "[" + strings.Join(parts, ",") + "]"
}

var c08InitialFrames string

// c08ResidueCheck runs the history seq (one transition per element): compares
// with the model and checks the state invariant on the evaluator's frame stack.
func c08ResidueCheck(c *fw.Ctx, ctx int, seq []int) *fw.Violation {
	p := c08ResidueProg(ctx)
	pc := &progCase{P: p, Files: []inFile{{"in.json", c08Input(seq)}}, MaxSteps: 100_000_000}
	res := pc.model()
	if res.Aborted || res.Unfixed != "" {
		c.Note("skipped:"+res.Unfixed, 1)
		return nil
	}
	s := pc.spec()
	s.Budget = 50*res.Steps + 10000
	o := run(c, s)
	c.Traces++
	c.Transitions += int64(len(seq))
	if v := expect(s, o, res.Stdout, modelKind(res.Kind), res.Err); v != nil {
		return v
	}
	if o.Kind == drive.KNone && o.Ev != nil {
		frames := o.Ev.VerifFrames()
		// the root frame's locals are globals and may grow; every other frame is residue
		st := fmt.Sprintf("%d frames", len(frames))
		if len(frames) > 1 {
			st += ": " + strings.Join(frames[:len(frames)-1], " ")
		}
		c.State("frame stack after the history = " + st)
		if len(frames) != 1 {
			o.Ev = nil
			return &fw.Violation{What: "frames are left on the stack after completed calls / matches", Detail: detail{Program: s.Program, Files: s.Files, WantStdout: "1 frame (<root>)", Got: drive.Outcome{Stdout: strings.Join(frames, "\n")}}}
		}
	}
	return nil
}

// ----- (iv) refusal depth -----

var c08Shapes = []struct {
	name  string
	funcs func() []*Func
}{
	{"direct", func() []*Func {
		return []*Func{{Name: "r", Params: []string{"n"}, Body: Blk(&If{Cond: Bin("<=", V("n"), N("0")), Then: &Return{N("0")}}, &Return{Bin("+", N("1"), CallE(V("r"), Bin("-", V("n"), N("1"))))})}}
	}},
	{"mutual", func() []*Func {
		return []*Func{
			{Name: "r", Params: []string{"n"}, Body: Blk(&If{Cond: Bin("<=", V("n"), N("0")), Then: &Return{N("0")}}, &Return{Bin("+", N("1"), CallE(V("r2"), Bin("-", V("n"), N("1"))))})},
			{Name: "r2", Params: []string{"n"}, Body: Blk(&If{Cond: Bin("<=", V("n"), N("0")), Then: &Return{N("0")}}, &Return{Bin("+", N("1"), CallE(V("r"), Bin("-", V("n"), N("1"))))})},
		}
	}},
	{"through a match body", func() []*Func {
		return []*Func{{Name: "r", Params: []string{"n"}, Body: Blk(&Return{&MatchExpr{Subj: V("n"), Cases: []MatchCase{
			{Pats: []Expr{N("0")}, Body: N("0")},
			{Pats: []Expr{V("k")}, Body: Bin("+", N("1"), CallE(V("r"), Bin("-", V("k"), N("1"))))},
		}}})}}
	}},
}

// c08Refused: does r(depth) end in the call-depth error (true) or return depth (false)? history: transitions fired first.
func c08DepthRun(c *fw.Ctx, shape int, depth int, hist int, histLen int) (refused bool, bad *fw.Violation) {
	funcs := append(c08Funcs(), c08Shapes[shape].funcs()...)
	var rules []*Rule
	input := "[99]"
	if hist >= 0 {
		t := c08Transitions()[hist]
		rules = append(rules, &Rule{Pattern: Bin("==", V("$"), N("0")), Body: Blk(t.st())})
		zeros := make([]int, histLen)
		input = c08Input(append(zeros, 99))
	}
	rules = append(rules, &Rule{Pattern: Bin("==", V("$"), N("99")), Body: Blk(Pr(S("depth"), CallE(V("r"), N(fmt.Sprint(depth)))))})
	src := Source(&Program{Funcs: funcs, Rules: rules}, Style{})
	s := drive.Spec{Program: src, Files: []drive.File{{Name: "in.json", Data: input}}, Budget: 40_000_000}
	o := run(c, s)
	switch {
	case o.Kind == drive.KNone && o.Stdout == fmt.Sprintf("depth %d\n", depth):
		return false, nil
	case o.Kind == drive.KRuntime && o.Stdout == "":
		return true, nil
	}
	o.Ev = nil
	return false, &fw.Violation{What: "deep recursion ended in neither its value nor a runtime error", Detail: detail{Program: src, Files: []drive.File{{Name: "in.json", Data: clip(input)}}, Got: o}}
}

func c08DepthCheck(c *fw.Ctx, shape int) *fw.Violation {
	// bisection for the largest depth that still works in a fresh run
	lo, hi := 1, 20000 // lo works, hi is refused
	if r, v := c08DepthRun(c, shape, lo, -1, 0); v != nil || r {
		if v != nil {
			return v
		}
		return &fw.Violation{What: "recursion one call deep is refused", Detail: map[string]any{"shape": c08Shapes[shape].name}}
	}
	if r, v := c08DepthRun(c, shape, hi, -1, 0); v != nil || !r {
		if v != nil {
			return v
		}
		return &fw.Violation{What: "recursion 20000 calls deep is not refused", Detail: map[string]any{"shape": c08Shapes[shape].name}}
	}
	for hi-lo > 1 {
		mid := (lo + hi) / 2
		r, v := c08DepthRun(c, shape, mid, -1, 0)
		if v != nil {
			return v
		}
		if r {
			hi = mid
		} else {
			lo = mid
		}
	}
	c.State(fmt.Sprintf("refusal depth of %s recursion: works at %d, refused at %d", c08Shapes[shape].name, lo, hi))
	if lo < 1000 || hi > 10000 {
		return &fw.Violation{What: "the recursion limit is not 'a few thousand frames': works 1000 deep and refused below 10000 is required", Detail: map[string]any{"shape": c08Shapes[shape].name, "works": lo, "refused": hi}}
	}
	// only genuinely nested calls count: the same depths after every history of completed calls / matches / nexts
	for t := range c08Transitions() {
		c.Transitions++
		for _, d := range []int{lo, hi} {
			r, v := c08DepthRun(c, shape, d, t, 5000)
			if v != nil {
				return v
			}
			if r != (d == hi) {
				return &fw.Violation{What: "the refusal depth of recursion depends on how many calls / matches / nexts were completed before", Detail: map[string]any{"shape": c08Shapes[shape].name, "history": "5000 x " + c08Transitions()[t].name, "depth": d, "fresh run: works at": lo, "fresh run: refused at": hi, "refused after the history": r}}
			}
		}
	}
	return nil
}

// c08Shadow: a parameter (or a caller's local, or a pattern name) that has the name of an existing global or of a built-in is
// what every frame further in sees -- a match arm of the function body, a nested callee that relies on the caller's name, a
// match arm inside that callee -- for reading and for assignment; the global is untouched and back afterwards.
func c08Shadow() []*progCase {
	arm := func(subj Expr, body Expr) Expr {
		return &MatchExpr{Subj: subj, Cases: []MatchCase{{Pats: []Expr{N("0")}, Body: S("zero")}, {Pats: []Expr{V("_")}, Body: body}}}
	}
	var out []*progCase
	for _, name := range []string{"k", "num", "json"} {
		k := func() Expr { return V(name) }
		scale := &Func{Name: "scale", Params: []string{name}, Body: Blk(&Return{X: arm(k(), Bin("*", k(), N("10")))})}
		setIn := &Func{Name: "setin", Params: []string{name}, Body: Blk(Ex(arm(N("1"), Asg("=", k(), Bin("+", k(), N("100"))))), &Return{X: k()})}
		inner := &Func{Name: "inner", Body: Blk(&Return{X: arm(N("1"), Arr_(k(), arm(N("2"), k())))})}
		outer := &Func{Name: "outer", Params: []string{name}, Body: Blk(&Return{X: CallE(V("inner"))})}
		bound := &Func{Name: "bound", Params: []string{"p"}, Body: Blk(&Return{X: &MatchExpr{Subj: V("p"), Cases: []MatchCase{{Pats: []Expr{Arr_(V("kind"), k())}, Body: &MatchExpr{Subj: V("kind"), Cases: []MatchCase{{Pats: []Expr{S("a")}, Body: Bin("+", k(), N("1"))}, {Pats: []Expr{V("z")}, Body: Bin("+", k(), N("2"))}}}}}}})}
		fact := &Func{Name: "fact", Params: []string{name}, Body: Blk(&Return{X: &MatchExpr{Subj: k(), Cases: []MatchCase{{Pats: []Expr{N("0")}, Body: N("1")}, {Pats: []Expr{V("_")}, Body: Bin("*", k(), CallE(V("fact"), Bin("-", k(), N("1"))))}}}})}
		alts := &Func{Name: "alts", Params: []string{"x", "p"}, Body: Blk(&Return{X: &MatchExpr{Subj: V("p"), Cases: []MatchCase{{Pats: []Expr{Arr_(V("x"), N("0")), Arr_(V("y"), N("1"))}, Body: Arr_(V("x"), V("y"))}}}})}
		pre := []Stmt{}
		if name == "k" {
			pre = append(pre, Ex(Asg("=", k(), N("7"))))
		}
		show := func() Stmt {
			if name == "k" {
				return Pr(S("global"), k())
			}
			return Pr(S("built-in still there"), &IsExpr{k(), "unknown"})
		}
		body := append(pre,
			Pr(CallE(V("scale"), N("1")), CallE(V("scale"), N("2")), CallE(V("scale"), N("0"))), show(),
			Pr(CallE(V("setin"), N("5"))), show(),
			Pr(CallE(V("outer"), S("from outer"))), show(),
			Pr(CallE(V("bound"), Arr_(S("a"), N("0"))), CallE(V("bound"), Arr_(S("b"), N("5")))), show(),
			Pr(CallE(V("fact"), N("4"))), show(),
			// a name bound by an alternative that then failed is not bound in the body the next alternative selects
			Pr(CallE(V("alts"), N("100"), Arr_(N("5"), N("1")))),
			Ex(Asg("=", V("gg"), S("global"))),
			Pr(&MatchExpr{Subj: Arr_(N("7"), N("2")), Cases: []MatchCase{{Pats: []Expr{Arr_(V("gg"), N("1")), Arr_(V("hh"), N("2"))}, Body: Arr_(V("gg"), V("hh"))}}}),
			Ex(&MatchExpr{Subj: Arr_(N("3"), S("keep")), Cases: []MatchCase{{Pats: []Expr{Arr_(V("gg"), S("skip")), Arr_(V("vv"), S("keep"))}, Block: Blk(Ex(Asg("=", V("gg"), Bin("*", V("vv"), N("2")))))}}}),
			Pr(S("global gg"), V("gg")),
		)
		out = append(out, &progCase{P: &Program{Funcs: []*Func{scale, setIn, inner, outer, bound, fact, alts}, Rules: []*Rule{{Kind: "BEGIN", Body: Blk(body...)}}}})
		out = append(out, &progCase{P: &Program{Funcs: []*Func{scale, setIn, inner, outer, bound, fact, alts}, Rules: []*Rule{{Body: Blk(body...)}}}, Files: []inFile{{"in.json", "[1,2]"}}})
	}
	// an omitted parameter is null and is the callee's own, also when a global or a caller's variable has its name
	label := &Func{Name: "label", Params: []string{"x", "sep"}, Body: Blk(Pr(S("label sees"), &IsExpr{V("sep"), "null"}), &If{Cond: &IsExpr{V("sep"), "null"}, Then: Blk(Ex(Asg("=", V("sep"), S("-"))))}, &Return{X: Bin("+", V("x"), V("sep"))})}
	path := &Func{Name: "path", Params: []string{"n", "prefix"}, Body: Blk(&If{Cond: Bin("<=", V("n"), N("0")), Then: Blk(&Return{X: Arr_(&IsExpr{V("prefix"), "null"})})}, Ex(Asg("=", V("prefix"), Bin("+", S("p"), V("n")))), &Return{X: Arr_(V("prefix"), CallE(V("path"), Bin("-", V("n"), N("1"))))})}
	out = append(out, &progCase{P: &Program{Funcs: []*Func{label, path}, Rules: []*Rule{{Kind: "BEGIN", Body: Blk(
		Ex(Asg("=", V("sep"), S(":"))), Ex(Asg("=", V("prefix"), S("global"))),
		Pr(CallE(V("label"), S("a")), CallE(V("label"), S("b"), S("+")), CallE(V("label"), S("c"))), Pr(S("global sep"), V("sep")),
		Pr(CallE(V("path"), N("2"))), Pr(S("global prefix"), V("prefix")))}}}})
	// a program's own function that has the name of a built-in is the one that is called
	for _, name := range []string{"num", "json", "printf"} {
		own := &Func{Name: name, Params: []string{"x", "y"}, Body: Blk(Pr(S("own "+name), V("x"), V("y")), &Return{X: Bin("*", V("x"), N("10"))})}
		wrap := &Func{Name: "wrap", Params: []string{"v"}, Body: Blk(&Return{X: CallE(V(name), V("v"), S("via wrap"))})}
		out = append(out, &progCase{P: &Program{Funcs: []*Func{own, wrap}, Rules: []*Rule{{Body: Blk(Pr(CallE(V(name), V("$"), S("direct")), CallE(V("wrap"), V("$"))))}}}, Files: []inFile{{"in.json", "[2.5,4]"}}})
	}
	return out
}

// c08MatchLocals: a name first created in a case body belongs to the case, whatever selected the case (a literal, a name,
// an array pattern), at rule level, in a function, and as one site over several elements; afterwards it is unset.
func c08MatchLocals() []*progCase {
	gone := func(names ...string) Stmt {
		args := []Expr{S("left behind:")}
		for _, n := range names {
			args = append(args, &IsExpr{V(n), "unknown"})
		}
		return Pr(args...)
	}
	mk := func(subj Expr, pat Expr) Expr {
		return &MatchExpr{Subj: subj, Cases: []MatchCase{{Pats: []Expr{pat}, Block: Blk(Ex(Asg("=", V("fresh"), N("1"))), Ex(Asg("=", Mem(V("made"), "k"), N("2"))), Pr(S("in case"), V("fresh"), V("made")))}, {Pats: []Expr{V("_")}, Body: S("other")}}}
	}
	pats := []struct{ subj, pat func() Expr }{
		{func() Expr { return N("1") }, func() Expr { return N("1") }},
		{func() Expr { return S("s") }, func() Expr { return S("s") }},
		{func() Expr { return &BoolLit{B: true} }, func() Expr { return &BoolLit{B: true} }},
		{func() Expr { return Arr_(N("1"), N("2")) }, func() Expr { return Arr_(N("1"), N("2")) }},
		{func() Expr { return N("1") }, func() Expr { return V("v") }},
		{func() Expr { return Arr_(N("1"), N("2")) }, func() Expr { return Arr_(N("1"), V("w")) }},
	}
	var out []*progCase
	for _, p := range pats {
		out = append(out, &progCase{P: &Program{Rules: []*Rule{{Kind: "BEGIN", Body: Blk(Ex(Asg("=", V("r"), mk(p.subj(), p.pat()))), gone("fresh", "made"), Ex(Asg("=", V("r"), mk(p.subj(), p.pat()))), gone("fresh", "made"))}}}})
		f := &Func{Name: "viaf", Body: Blk(Ex(Asg("=", V("r"), mk(p.subj(), p.pat()))), gone("fresh", "made"), &Return{X: N("0")})}
		out = append(out, &progCase{P: &Program{Funcs: []*Func{f}, Rules: []*Rule{{Body: Blk(Ex(CallE(V("viaf"))), gone("fresh", "made", "r"))}, {Kind: "END", Body: Blk(gone("fresh", "made", "r"))}}}, Files: []inFile{{"in.json", "[1,2,3]"}}})
		out = append(out, &progCase{P: &Program{Rules: []*Rule{{Body: Blk(&If{Cond: Bin("==", V("$"), N("2")), Then: Blk(Ex(Asg("=", V("r"), mk(p.subj(), p.pat()))))}, gone("fresh", "made"))}, {Kind: "END", Body: Blk(gone("fresh", "made"))}}}, Files: []inFile{{"in.json", "[1,2,3]"}}})
	}
	return out
}

func init() {
	nb := len(c08BodyStmts())
	nt := len(c08Transitions())
	argLists := func() [][]int {
		out := [][]int{{}}
		n := len(c08ArgVals)
		for a := 0; a < n; a++ {
			out = append(out, []int{a})
			for b := 0; b < n; b++ {
				out = append(out, []int{a, b})
				for d := 0; d < n; d++ {
					out = append(out, []int{a, b, d})
				}
			}
		}
		return out
	}
	register(addTok(tokFramesC08, &fw.Prop{
		ID: "C08",
		Rule: "(0) a parameter named like a global or a built-in seen from frames further in (match arms, nested callees), read and assigned; names first created in a case body are gone after the case, for 6 kinds of selecting pattern x 3 placements; arguments and results are values when passed / returned: lists read, effect, read of one scalar location as arguments, and calls returning a global next to calls changing it (the call and return programs of C09's copy-time family); (i) functions of arity 0-2 with every body of <= 3 statements over 10 statements (assign a parameter / a new name / an existing global, store through a container parameter, three returns, a call of a second function, bounded recursion, showing the parameters) called with every list of 0-3 arguments over {scalar, global array, array literal, unset variable, missing member, index past the end} from 4 expression positions; every name is shown afterwards (unset or value); " +
			"(ii) explicit-state search over histories of 15 frame-exit transitions (normal end, return from loops / match blocks, match with expression / block body, match blocks left by continue / break / next, calls left by next, nested call+match+call, 300-deep recursion, no case selected, surplus / missing arguments) fired from 4 nesting contexts, all histories of length <= 2 (thorough 3): the state is the evaluator's frame stack after the history and the invariant is that it equals the initial one-frame stack, output compared with the model; " +
			"(iii) each transition over 5000 elements; (iv) the refusal depth of direct, mutual and through-match recursion found by bisection and required to be the same after 5000 repetitions of each transition; states = frame stacks and call classes reached",
		Plan: func(t fw.Tier) int { return 3*nb + c08NCtx*nt + c08NCtx + len(c08Shapes) + 1 },
		Bound: func(t fw.Tier) string {
			return "bodies <= 3 statements; histories <= 2 (thorough 3) transitions x 4 contexts; 5000-element histories; bisection over [1,20000]"
		},
		Assumptions: []string{"reference interpreter mc/refsem (3.12)", "hook VerifFrames exposes the frame stack after a run"},
		Run: func(c *fw.Ctx, u int) {
			switch {
			case u == 3*nb+c08NCtx*nt+c08NCtx+len(c08Shapes):
				// arguments and results are values at the moment they are passed / returned (programs shared with C09)
				copyTimeRun(c, "call", "return")
				for i, pc := range c08Shadow() {
					pc, i := pc, i
					c.Do(func() any { return c08Spec{Form: "shadow", Shape: i} }, func() *fw.Violation { return pc.mustCheck(c, "shadowing") })
				}
				for i, pc := range c08MatchLocals() {
					pc, i := pc, i
					c.Do(func() any { return c08Spec{Form: "matchlocals", Shape: i} }, func() *fw.Violation { return pc.mustCheck(c, "names created in case bodies") })
				}
			case u < 3*nb:
				arity, first := u/nb, u%nb
				lists := argLists()
				eachSeq(nb, 3, first, func(seq []int) {
					body := append([]int{}, seq...)
					for _, args := range lists {
						for pos := 0; pos < c08NPos; pos++ {
							if pos > 1 && len(seq) == 3 && !c.Thorough() {
								continue // the two extra call positions get the shorter bodies at the quick tier
							}
							s := c08Spec{Form: "call", Body: body, Arity: arity, Args: args, Pos: pos}
							c.Do(func() any { s.Text = c08CallProg(s).source(); return s }, func() *fw.Violation { return c08CallCheck(c, s) })
						}
					}
				})
				if first == 0 {
					for _, args := range lists {
						s := c08Spec{Form: "call", Arity: arity, Args: args, Pos: 1}
						c.Do(func() any { return s }, func() *fw.Violation { return c08CallCheck(c, s) })
					}
				}
			case u < 3*nb+c08NCtx*nt:
				u -= 3 * nb
				ctx, first := u/nt, u%nt
				L := c.Pick(2, 3)
				eachSeq(nt, L, first, func(seq []int) {
					s := c08Spec{Form: "residue", Ctx: ctx, Seq: append([]int{}, seq...)}
					c.Do(func() any { return s }, func() *fw.Violation { return c08ResidueCheck(c, s.Ctx, s.Seq) })
				})
			case u < 3*nb+c08NCtx*nt+c08NCtx:
				ctx := u - 3*nb - c08NCtx*nt
				for t := 0; t < nt; t++ {
					seq := make([]int, 5000)
					for i := range seq {
						seq[i] = t
					}
					s := c08Spec{Form: "long", Ctx: ctx, Shape: t}
					c.Do(func() any { return s }, func() *fw.Violation { return c08ResidueCheck(c, ctx, seq) })
				}
			default:
				shape := u - 3*nb - c08NCtx*nt - c08NCtx
				s := c08Spec{Form: "depth", Shape: shape}
				c.Do(func() any { return s }, func() *fw.Violation { return c08DepthCheck(c, shape) })
			}
		},
		Finish: func(c *fw.Ctx) {
			for s := range c.States {
				c.NonTrivial(s)
			}
		},
		Replay: func(c *fw.Ctx, raw json.RawMessage) *fw.Violation {
			if v, ok := copyTimeReplay(c, raw); ok {
				return v
			}
			var s c08Spec
			if !unmarshal(raw, &s) {
				return nil
			}
			switch s.Form {
			case "shadow":
				v, _, _ := c08Shadow()[s.Shape].check(c)
				return v
			case "matchlocals":
				v, _, _ := c08MatchLocals()[s.Shape].check(c)
				return v
			case "call":
				return c08CallCheck(c, s)
			case "residue":
				return c08ResidueCheck(c, s.Ctx, s.Seq)
			case "long":
				seq := make([]int, 5000)
				for i := range seq {
					seq[i] = s.Shape
				}
				return c08ResidueCheck(c, s.Ctx, seq)
			}
			return c08DepthCheck(c, s.Shape)
		},
	}))
}
