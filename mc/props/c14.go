package props

import (
	"bytes"
	"encoding/json"
	"fmt"
	"io"
	"os"
	"os/exec"
	"path/filepath"
	"strings"
	"syscall"
	"time"

	"verif/mc/drive"
	"verif/mc/fw"
)

// C14: the command line is a faithful wrapper around the library interpreter.

var c14Programs = []string{
	`{ x = 1 }`,
	`{ print }`,
	`{ $.n = 1; print $ }`,
	`BEGINFILE { $ = [1, [2]] } { print }`,
	`BEGIN { print "b" } { print; exit }`,
	`{ print ) }`,
	`BEGIN { x = 1 / 0 } { print }`,
	`BEGIN { print "b" } { print; y = [1] < 2 }`,
	`{ print $file, $ } ENDFILE { print "ef", $file }`,
	`{ n++ } END { print "end", n }`,
	`BEGIN { exit }`,
	`{ c = c + 1; print c, $ }`,
	// output that does not end in a newline comes before what -o - writes
	`{ $.n = 1; k++ } END { printf("%f records: ", k) }`,
	// the empty program, and a program that replaces $ (what -o then writes; selectors that select nothing real)
	``,
	`{ $ = 7; print $ }`,
	// programs of BEGIN rules only (with stdin, with -o, with malformed input); exit in BEGINFILE under -o; an inline program
	// that begins and ends with a quote character
	`BEGIN { print "only begin" }`,
	`BEGINFILE { print "skip"; exit } { print }`,
	`'a' != 'b' || $ == 'q'`,
	// a document changed by methods only (no assignment anywhere), then written
	`BEGINFILE { if ($ is array) { $.push(4) } } { if ($ is array) { $.pop() } }`,
	// the program text is taken byte for byte: line ends inside literals, lone carriage returns, no final newline
	"BEGIN { s = \"a\r\nb\r\n\"; print s.length(), s.split(\"\r\n\").length(), 'x\ry'.length() }\r\n{ print }\r\n",
	"# header\r\n{ print \"p\n\rq\".length(), \"tab\there\", \"é\" ~ /é\r?/ } # no final newline",
}

var c14ProgramsMore = []string{
	`BEGINFILE { print "bf", $ } ENDFILE { print "ef", $ }`,
	`{ $ = 7 }`,
	`$ is number { print "num", $ } $ is object`,
	`function f(v) { return [v, v] } { print f($) }`,
	`BEGIN { printf("%s|%5v\n", "x", [1]) }`,
	`{ for (k, v in $) print k, v }`,
	"# comment only\n",
	`{ print "é\t|" }`,
	`{ next; print "never" } END { print json({a: []}) }`,
	`{ print 1 } { print 2; exit } END { print "never" }`,
	``,
	`BEGIN { print "only begin" }`,
}

var c14Inputs = []string{"[\"caf\xef\xbb\xbfbar\", {\"k\xef\xbb\xbf\": \"\\ufeff\"}]", `[1,2]`, `{"a":[3],"b":{"c":1}}`, `5`, "[1]\n{\"a\":2,\"b\":3}", ``, `[1,`, `{"a":["100% %s %d","%v"],"b":{"50%":"a%20b"}}`, "\xef\xbb\xbf[1,2]"}
var c14InputsMore = []string{`null`, `{"a":{"a":[]},"b":"s"}`, "1 2 3\n", `[[1,2],[3]]`, `]`, `{"a":1e400}`}

var c14Selectors = [][]string{nil, {"$.a"}, {"$.a", "$.b"}, {"$.a.nope()"}, {"$[5]"}}
var c14SelectorsMore = [][]string{{"$"}, {"$.b", "$.a"}, {"[$, 1]"}, {"$.a +"}}

const (
	c14Stdin = iota
	c14OneFile
	c14TwoFiles
	c14Missing
	c14Dir
	c14SameTwice
	c14DevStdin     // the path /dev/stdin as a named file
	c14Fifo         // a named pipe that a writer fills after the binary has opened it
	c14Proc         // a file whose size the file system reports as 0 although it has content
	c14MissingFirst // a missing file in front of a readable one: what can be opened later does not make up for it
	c14MissingMid   // ... and between two readable ones
	c14NSource
)

const (
	c14NoOut = iota
	c14OutDash
	c14OutFile
	c14OutBad
	c14OutInput // -o names the (only) input file itself: the document is read before it is replaced
	c14NOut
)

type c14Spec struct {
	Prog   int      `json:"prog"`
	Input  int      `json:"input"`
	Sel    int      `json:"sel"`
	Source int      `json:"source"`
	Out    int      `json:"out"`
	DashF  bool     `json:"dash_f"`
	Argv   []string `json:"argv,omitempty"`
}

type c14Alpha struct {
	progs  []string
	inputs []string
	sels   [][]string
}

func c14Alphabet(thorough bool) c14Alpha {
	a := c14Alpha{c14Programs, c14Inputs, c14Selectors}
	if thorough {
		a.progs = append(append([]string{}, c14Programs...), c14ProgramsMore...)
		a.inputs = append(append([]string{}, c14Inputs...), c14InputsMore...)
		a.sels = append(append([][]string{}, c14Selectors...), c14SelectorsMore...)
	}
	return a
}

type c14Result struct {
	Stdout string `json:"stdout"`
	Stderr string `json:"stderr"`
	Exit   int    `json:"exit"`
}

func c14Exec(argv []string, stdin string) c14Result {
	cmd := exec.Command(fw.JqawkBin(), argv...)
	cmd.Stdin = strings.NewReader(stdin)
	var so, se bytes.Buffer
	cmd.Stdout, cmd.Stderr = &so, &se
	err := cmd.Run()
	r := c14Result{Stdout: so.String(), Stderr: se.String()}
	if err != nil {
		r.Exit = -1
		if ee, ok := err.(*exec.ExitError); ok {
			r.Exit = ee.ExitCode()
		}
	}
	return r
}

// c14ExecFifo runs the binary with a named pipe among its arguments: a writer opens the pipe (which blocks until the binary
// opens it for reading), writes the bytes and closes. If the binary ends without ever opening the pipe, the writer is released
// by opening the pipe for reading here.
func c14ExecFifo(c *fw.Ctx, argv []string, fifo, data string) c14Result {
	done := make(chan struct{})
	go func() {
		defer close(done)
		w, err := os.OpenFile(fifo, os.O_WRONLY, 0)
		if err != nil {
			return
		}
		io.WriteString(w, data)
		w.Close()
	}()
	cmd := exec.Command(fw.JqawkBin(), argv...)
	so, se, exit, timedOut := runChild(c, cmd, "", 60*time.Second)
	// release a writer that is still waiting for a reader
	if r, err := os.OpenFile(fifo, os.O_RDONLY|syscall.O_NONBLOCK, 0); err == nil {
		<-done
		r.Close()
	} else {
		<-done
	}
	if timedOut {
		return c14Result{Stdout: so, Stderr: se + "\nverif: stopped after 60 s", Exit: 1}
	}
	return c14Result{Stdout: so, Stderr: se, Exit: exit}
}

type errReader struct {
	err   error
	reads *int
}

func (e errReader) Read([]byte) (int, error) { *e.reads++; return 0, e.err }

func c14Dirs(c *fw.Ctx) string {
	d := filepath.Join(fw.WorkDir(), fmt.Sprintf("c14-%d", os.Getpid()))
	os.MkdirAll(filepath.Join(d, "adir"), 0o755)
	return d
}

func c14Check(c *fw.Ctx, s c14Spec, al c14Alpha) *fw.Violation {
	dir := c14Dirs(c)
	prog, input, sels := al.progs[s.Prog], al.inputs[s.Input], al.sels[s.Sel]
	var argv []string
	for _, e := range sels {
		argv = append(argv, "-r", e)
	}
	outPath := ""
	stale := false
	switch s.Out {
	case c14OutDash:
		argv = append(argv, "-o", "-")
	case c14OutFile:
		outPath = filepath.Join(dir, "out.json")
		// the file exists already and is longer than anything the run writes: -o must leave exactly the new bytes
		os.WriteFile(outPath, []byte(strings.Repeat("stale content of an earlier run\n", 40)), 0o644)
		stale = true
		argv = append(argv, "-o", outPath)
	case c14OutBad:
		argv = append(argv, "-o", filepath.Join(dir, "no-such-dir", "out.json"))
	case c14OutInput:
		if s.Source != c14OneFile {
			return nil
		}
		outPath = filepath.Join(dir, "in1.json")
		argv = append(argv, "-o", outPath)
	}
	if s.DashF {
		pf := filepath.Join(dir, "prog.jqawk")
		os.WriteFile(pf, []byte(prog), 0o644)
		argv = append(argv, "-f", pf)
	} else {
		argv = append(argv, prog)
	}
	// the inputs, and the same inputs for the library run
	in1 := filepath.Join(dir, "in1.json")
	in2 := filepath.Join(dir, "in2.json")
	os.WriteFile(in1, []byte(input), 0o644)
	os.WriteFile(in2, []byte("[7]"), 0o644)
	stdin := ""
	fifoPath := ""
	var libFiles []drive.File
	refusedEarly := false // the front end refuses before anything runs
	dirReads := 0
	nfiles := 1
	switch s.Source {
	case c14Stdin:
		stdin = input
		libFiles = []drive.File{{Name: "<stdin>", Data: input}}
	case c14OneFile:
		argv = append(argv, in1)
		libFiles = []drive.File{{Name: in1, Data: input}}
	case c14TwoFiles:
		argv = append(argv, in1, in2)
		libFiles = []drive.File{{Name: in1, Data: input}, {Name: in2, Data: "[7]"}}
		nfiles = 2
	case c14Missing:
		argv = append(argv, in1, filepath.Join(dir, "missing.json"))
		refusedEarly = true
		nfiles = 2
	case c14MissingFirst:
		argv = append(argv, filepath.Join(dir, "missing.json"), in1)
		refusedEarly = true
		nfiles = 2
	case c14MissingMid:
		argv = append(argv, in1, filepath.Join(dir, "missing.json"), in2, in1)
		refusedEarly = true
		nfiles = 4
	case c14SameTwice:
		// the awk two-pass idiom: the same path named twice is read twice
		argv = append(argv, in1, in1)
		libFiles = []drive.File{{Name: in1, Data: input}, {Name: in1, Data: input}}
		nfiles = 2
	case c14DevStdin:
		stdin = input
		argv = append(argv, "/dev/stdin")
		libFiles = []drive.File{{Name: "/dev/stdin", Data: input}}
	case c14Fifo:
		fifoPath = filepath.Join(dir, "in.fifo")
		os.Remove(fifoPath)
		if err := syscall.Mkfifo(fifoPath, 0o600); err != nil {
			c.Note("named pipes cannot be created here: source skipped", 1)
			return nil
		}
		defer os.Remove(fifoPath)
		argv = append(argv, fifoPath)
		libFiles = []drive.File{{Name: fifoPath, Data: input}}
	case c14Proc:
		pp := "/proc/sys/kernel/pid_max" // one JSON number and a newline; stat reports size 0
		b, err := os.ReadFile(pp)
		if err != nil || s.Input != 0 {
			return nil
		}
		input = string(b)
		argv = append(argv, pp)
		libFiles = []drive.File{{Name: pp, Data: input}}
	case c14Dir:
		ad := filepath.Join(dir, "adir")
		argv = append(argv, ad)
		libFiles = []drive.File{{Name: ad, Reader: errReader{syscall.EISDIR, &dirReads}}}
	}
	s.Argv = argv
	var got c14Result
	if fifoPath != "" {
		got = c14ExecFifo(c, argv, fifoPath, input)
	} else {
		got = c14Exec(argv, stdin)
	}
	c.Evals++
	c.Traces++
	c.Transitions++
	fail := func(what string, want any) *fw.Violation {
		return &fw.Violation{What: what, Detail: map[string]any{"argv": argv, "stdin": stdin, "input": input, "got": got, "want": want}}
	}
	for _, bad := range []string{"panic:", "goroutine ", "fatal error", "SIGSEGV", "runtime error:"} {
		if strings.Contains(got.Stderr, bad) {
			return fail("the binary ended in a Go stack trace", nil)
		}
	}
	if got.Exit != 0 && got.Exit != 1 && got.Exit != 2 {
		return fail("the binary did not exit by itself with a small status", nil)
	}
	if got.Exit != 0 && strings.TrimSpace(got.Stderr) == "" {
		return fail("non-zero exit status without a diagnostic on stderr", nil)
	}
	if refusedEarly {
		c.Outcome("refused by the front end")
		if got.Exit == 0 {
			return fail("a missing input file did not give a non-zero exit status", nil)
		}
		if got.Stdout != "" {
			return fail("a missing input file is refused after output was produced", nil)
		}
		return nil
	}
	lib := run(c, drive.Spec{Program: prog, Files: libFiles, Selectors: sels, WantRoot: true})
	lib.Ev = nil
	if lib.Kind == drive.KPanic || lib.Kind == drive.KOther || lib.Kind == drive.KBudget {
		return fail("the library run itself ended abnormally", lib)
	}
	wantOut := lib.Stdout
	wantExit0 := lib.Kind == drive.KNone
	wantJSON, haveJSON := "", false
	eitherExit := false
	if lib.Kind == drive.KNone && s.Out != c14NoOut {
		switch {
		case nfiles > 1:
			wantExit0 = false // -o with several input files is refused
		case lib.RootKind != drive.KNone:
			// nothing decoded, or a root JSON cannot express: refusing and writing nothing are both acceptable when nothing was read
			if strings.Contains(lib.RootMsg, "no JSON value") {
				eitherExit = true
			} else {
				wantExit0 = false
			}
		case s.Out == c14OutBad:
			wantExit0 = false
		default:
			wantJSON, haveJSON = lib.RootJSON, true
		}
	}
	c.Outcome(fmt.Sprintf("lib=%s exit0=%v json=%v", lib.Kind, wantExit0, haveJSON))
	c.State(fmt.Sprintf("source=%d out=%d sel=%d f=%v lib=%s", s.Source, s.Out, s.Sel, s.DashF, lib.Kind))
	if haveJSON && s.Out == c14OutDash {
		wantOut += wantJSON
	}
	if s.Source == c14Dir && dirReads > 0 && got.Exit == 0 {
		return fail("an unreadable input (a directory) was read and the run still ended with status 0", lib)
	}
	if got.Stdout != wantOut {
		return fail("stdout differs from the library run", map[string]any{"stdout": wantOut, "library": lib})
	}
	if !eitherExit && (got.Exit == 0) != wantExit0 {
		return fail("exit status does not reflect the outcome", map[string]any{"exit 0": wantExit0, "library": lib})
	}
	if s.Out == c14OutInput {
		b, err := os.ReadFile(outPath)
		if haveJSON {
			if err != nil || string(b) != wantJSON {
				return fail("-o onto the input file: the file does not hold the JSON output afterwards", map[string]any{"file": string(b), "want": wantJSON})
			}
		} else if err != nil || (string(b) != input && !eitherExit) {
			return fail("-o onto the input file: nothing was to be written, yet the input file has changed", map[string]any{"file": string(b), "want": input})
		}
	}
	if s.Out == c14OutFile {
		b, err := os.ReadFile(outPath)
		if haveJSON {
			if err != nil || string(b) != wantJSON {
				return fail("-o FILE does not hold exactly the bytes -o - prints", map[string]any{"file": string(b), "want": wantJSON})
			}
		} else if err == nil && len(b) > 0 && !eitherExit && !(stale && strings.HasPrefix(string(b), "stale content")) {
			return fail("-o FILE was written although there is nothing to write", map[string]any{"file": string(b)})
		}
	}
	return nil
}

// c14RootSelector: `-r E` behaves as `BEGINFILE { $ = E }`.
func c14RootSelector(c *fw.Ctx, prog, input, sel string) *fw.Violation {
	if strings.Contains(prog, "BEGINFILE") || strings.Contains(prog, "ENDFILE") {
		return nil
	}
	a := c14Exec([]string{"-r", sel, "-o", "-", prog}, input)
	b := c14Exec([]string{"-o", "-", "BEGINFILE { $ = " + sel + " }\n" + prog}, input)
	c.Evals += 2
	c.Traces++
	c.Transitions += 2
	if a.Stdout != b.Stdout || (a.Exit == 0) != (b.Exit == 0) {
		return &fw.Violation{What: "-r E does not behave as BEGINFILE { $ = E }", Detail: map[string]any{"program": prog, "selector": sel, "input": input, "with -r": a, "with BEGINFILE": b}}
	}
	return nil
}

// c14SelectorConcat: selectors are processed in the order given, each on the document as read: for a program that keeps
// no state between roots, `-r E1 -r E2` prints what `-r E1` prints followed by what `-r E2` prints, and `-o` shows the
// last root as `-r E2` alone leaves it.
var c14ConcatProgs = []string{`{ print }`, `{ $.n = 1; print $ }`, `{ if ($ is array) { $.push(9) } print $ }`, `BEGINFILE { print "bf", $ } { if ($ is object) { $.z = [] } }  ENDFILE { print "ef", $ }`}
var c14ConcatSels = []string{"$", "$.a", "$.b", "$.a[0]", "[$.a, $.a]"}
var c14ConcatInputs = []string{`{"a":[{"n":5},{"n":6}],"b":{"c":1}}`, `{"a":[[1],[2]],"b":[3]}`}

func c14SelectorConcat(c *fw.Ctx, prog, input, e1, e2 string) *fw.Violation {
	both := c14Exec([]string{"-r", e1, "-r", e2, "-o", "-", prog}, input)
	one := c14Exec([]string{"-r", e1, prog}, input)
	two := c14Exec([]string{"-r", e2, "-o", "-", prog}, input)
	c.Evals += 3
	c.Traces++
	c.Transitions += 3
	if one.Exit != 0 || two.Exit != 0 {
		return nil // a failing selector ends the run early; not this law
	}
	if both.Exit != 0 || both.Stdout != one.Stdout+two.Stdout {
		return &fw.Violation{What: "-r E1 -r E2 is not -r E1 followed by -r E2, each on the document as read", Detail: map[string]any{"program": prog, "selectors": []string{e1, e2}, "input": input, "together": both, "first alone": one, "second alone (with -o -)": two}}
	}
	c.State("selector lists concatenate")
	return nil
}

func init() {
	register(&fw.Prop{
		ID: "C14",
		Rule: "the full product {inline, -f} x {stdin, one file, two files, a missing file last / first / between readable ones, a directory as file, the same file twice, /dev/stdin as a named file, a named pipe filled after it is opened, a /proc file whose reported size is 0} x {no selector, one, two, a failing one, an index past the end} x {no -o, -o -, -o FILE, -o into a missing directory, -o onto the input file} x 21 programs (programs of BEGIN rules only, exit in BEGINFILE, a program that begins and ends with a quote, a document changed by methods only, printf without a final newline, empty, replacing $, silent, printing, mutating $, BEGINFILE replacing $, exit, syntax error, runtime error before / after output, $file, END, exit in BEGIN, state across values, CR LF / lone CR / LF CR inside literals and between statements) x 9 inputs (U+FEFF inside a string and a key, array, object, scalar, two values, empty, malformed, strings full of % directives, a byte order mark before the document), on the real binary; " +
			"oracle: the in-process library run of the same program, selectors and inputs (stdout, outcome, JSON output) plus the wrapper laws (exit 0 iff success and nothing refused, diagnostic on stderr otherwise, no stack trace, -o FILE == bytes of -o -, a missing file refused before any output); " +
			"-r E1 -r E2 == -r E1 followed by -r E2 for 4 stateless (mutating) programs x 2 documents x all ordered pairs of 5 overlapping selectors; and -r E == BEGINFILE { $ = E } for every program without BEGINFILE/ENDFILE x every input x 12 selectors (three end in an index past the end or under a missing member, three call num / json / a method); thorough doubles the three alphabets; a state is (source, -o mode, selector list, -f, library outcome); non-trivial = same",
		Plan:        func(t fw.Tier) int { return 2 * c14NSource * c14NOut },
		Bound:       func(t fw.Tier) string { return "full configuration product" },
		Assumptions: []string{"the library run through mc/drive is the reference (its own correctness is the business of the other properties)", "when nothing was decoded, -o may either refuse or write nothing"},
		Run: func(c *fw.Ctx, u int) {
			al := c14Alphabet(c.Thorough())
			dashF := u%2 == 1
			source := (u / 2) % c14NSource
			out := u / 2 / c14NSource
			for p := range al.progs {
				for in := range al.inputs {
					for sel := range al.sels {
						s := c14Spec{Prog: p, Input: in, Sel: sel, Source: source, Out: out, DashF: dashF}
						c.Do(func() any { return s }, func() *fw.Violation { return c14Check(c, s, al) })
					}
				}
			}
			if u == 0 {
				for _, prog := range c14ConcatProgs {
					for _, in := range c14ConcatInputs {
						for _, e1 := range c14ConcatSels {
							for _, e2 := range c14ConcatSels {
								prog, in, e1, e2 := prog, in, e1, e2
								c.Do(func() any {
									return map[string]string{"form": "selconcat", "prog": prog, "input": in, "sel": e1, "sel2": e2}
								}, func() *fw.Violation { return c14SelectorConcat(c, prog, in, e1, e2) })
							}
						}
					}
				}
				for _, prog := range al.progs {
					for _, in := range al.inputs {
						for _, sel := range []string{"$.a", "$.b", "$", "$.a.a", "[$, 1]", "$.nope.x()", "$[5]", "$.a[4]", "$.zz.k[2]", "num($.a[0])", "json($.a)", "$.a.length()", "match ($.a) { v => v }", "match ($) { [x] => x, o => o.b }"} {
							prog, in, sel := prog, in, sel
							c.Do(func() any { return map[string]string{"form": "rootsel", "prog": prog, "input": in, "sel": sel} }, func() *fw.Violation { return c14RootSelector(c, prog, in, sel) })
						}
					}
				}
			}
			os.RemoveAll(c14Dirs(c))
		},
		Finish: func(c *fw.Ctx) {
			for s := range c.States {
				c.NonTrivial(s)
			}
		},
		Replay: func(c *fw.Ctx, raw json.RawMessage) *fw.Violation {
			var m map[string]any
			json.Unmarshal(raw, &m)
			if m["form"] == "selconcat" {
				return c14SelectorConcat(c, m["prog"].(string), m["input"].(string), m["sel"].(string), m["sel2"].(string))
			}
			if m["form"] == "rootsel" {
				return c14RootSelector(c, m["prog"].(string), m["input"].(string), m["sel"].(string))
			}
			var s c14Spec
			if !unmarshal(raw, &s) {
				return nil
			}
			defer os.RemoveAll(c14Dirs(c))
			return c14Check(c, s, c14Alphabet(c.Thorough()))
		},
	})
}
