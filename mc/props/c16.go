package props

import (
	"encoding/json"
	"fmt"
	"regexp"
	"strconv"
	"strings"

	"verif/mc/drive"
	"verif/mc/fw"
	. "verif/mc/refsem"
)

// C16: string, number and object methods, num() and json() honour their contract.

var c16Syms = []string{"a", "B", ",", " ", "é", "ß"}

func c16Strings(maxLen int) []string {
	out := []string{""}
	prev := []string{""}
	for l := 1; l <= maxLen; l++ {
		var cur []string
		for _, p := range prev {
			for _, s := range c16Syms {
				cur = append(cur, p+s)
			}
		}
		out = append(out, cur...)
		prev = cur
	}
	return out
}

type c16Spec struct {
	Form string   `json:"form"` // split, case, nums, pluck, num, kinds
	S    string   `json:"s,omitempty"`
	Lo   int      `json:"lo,omitempty"`
	Hi   int      `json:"hi,omitempty"`
	Obj  int      `json:"obj,omitempty"`
	Keys []string `json:"keys,omitempty"`
	Prog string   `json:"prog,omitempty"`
}

func jstr(s string) string {
	var sb strings.Builder
	sb.WriteString(ToJSONText(Str(s)))
	return sb.String()
}

// ----- split -----

var c16SplitProg = &Program{Rules: []*Rule{{Body: Blk(
	Ex(Asg("=", V("r"), CallE(Mem(Mem(V("$"), "s"), "split"), Mem(V("$"), "sep")))),
	Pr(CallE(Mem(V("r"), "length"))),
	&ForIn{V: "p", Iter: V("r"), Body: Blk(Pr(Bin("+", Bin("+", S("["), V("p")), S("]"))))},
	Pr(Mem(V("$"), "s")),
	// the result is the caller's own array: changing it must not show in a later split of the same string
	Ex(Asg("=", Idx(V("r"), N("0")), S("CHANGED"))), Ex(CallE(Mem(V("r"), "pop"))), Ex(CallE(Mem(V("r"), "push"), S("x"))),
	Pr(CallE(Mem(Mem(V("$"), "s"), "split"), Mem(V("$"), "sep")), CallE(Mem(CallE(Mem(Mem(V("$"), "s"), "split"), Mem(V("$"), "sep")), "length"))),
)}}}

func c16Split(c *fw.Ctx, s string, seps []string) *fw.Violation {
	var sb strings.Builder
	sb.WriteByte('[')
	for i, sep := range seps {
		if i > 0 {
			sb.WriteByte(',')
		}
		sb.WriteString(`{"s":` + jstr(s) + `,"sep":` + jstr(sep) + `}`)
		// the reference itself must satisfy the laws of the statement
		parts := Split(s, sep)
		if strings.Join(parts, sep) != s {
			panic("reference split violates the join law")
		}
		if sep != "" {
			for _, p := range parts {
				if strings.Contains(p, sep) {
					panic("reference split leaves a separator inside a piece")
				}
			}
		}
		c.State(fmt.Sprintf("split:%d pieces", len(parts)))
		if len(parts) > 1 {
			c.NonTrivial(fmt.Sprintf("split %q by %q", s, sep))
		}
	}
	sb.WriteByte(']')
	pc := &progCase{P: c16SplitProg, Files: []inFile{{"in.json", sb.String()}}}
	v, _, _ := pc.check(c)
	return v
}

// ----- upper / lower / length -----

var c16CaseProg = &Program{Rules: []*Rule{{Body: Blk(
	Pr(CallE(Mem(V("$"), "length")), Bin("+", Bin("+", S("["), CallE(Mem(V("$"), "upper"))), S("]")), Bin("+", Bin("+", S("["), CallE(Mem(V("$"), "lower"))), S("]")), V("$")),
)}}}

func c16Case(c *fw.Ctx, strs []string) *fw.Violation {
	var sb strings.Builder
	sb.WriteByte('[')
	for i, s := range strs {
		if i > 0 {
			sb.WriteByte(',')
		}
		sb.WriteString(jstr(s))
	}
	sb.WriteByte(']')
	pc := &progCase{P: c16CaseProg, Files: []inFile{{"in.json", sb.String()}}}
	v, _, _ := pc.check(c)
	c.State("case")
	return v
}

// ----- floor / ceil / round -----

func c16Nums(c *fw.Ctx, nums []float64) *fw.Violation {
	var sb strings.Builder
	sb.WriteByte('[')
	for i, f := range nums {
		if i > 0 {
			sb.WriteByte(',')
		}
		sb.WriteString(numJSON(f))
	}
	sb.WriteByte(']')
	s := drive.Spec{Program: "{ print $.floor(), $.ceil(), $.round() }", Files: []drive.File{{Name: "in.json", Data: sb.String()}}}
	o := run(c, s)
	c.Traces++
	bad := func(what string, f float64, line string) *fw.Violation {
		return &fw.Violation{What: what, Detail: map[string]any{"number": numJSON(f), "printed floor ceil round": line, "want": fmt.Sprint(Floor(f), -Floor(-f), Round(f)), "kind": o.Kind, "msg": o.Msg}}
	}
	if o.Kind != drive.KNone {
		return bad("floor/ceil/round failed", 0, "")
	}
	lines := strings.Split(strings.TrimSuffix(o.Stdout, "\n"), "\n")
	if len(lines) != len(nums) {
		return bad("wrong number of lines", 0, "")
	}
	for i, f := range nums {
		c.Transitions += 3
		fs := strings.Fields(lines[i])
		want := []float64{Floor(f), -Floor(-f), Round(f)}
		if len(fs) != 3 {
			return bad("malformed line", f, lines[i])
		}
		for k := 0; k < 3; k++ {
			g, err := strconv.ParseFloat(fs[k], 64)
			if err != nil || g != want[k] {
				return bad([]string{"floor", "ceil", "round"}[k]+" is not the mathematical result", f, lines[i])
			}
		}
		frac := f - Floor(f)
		switch {
		case frac == 0:
			c.State("num:integer")
		case frac == 0.5:
			c.State("num:half")
			c.NonTrivial("half:" + numJSON(f))
		default:
			c.State("num:fraction")
		}
	}
	return nil
}

// ----- pluck -----

var c16ObjVals = []string{`1`, `"s"`, `null`, `[1]`, `{"z":0}`}

// c16Objects: all objects with keys ⊆ {a,b,c}; values cycle through the value alphabet by position offset.
func c16Object(i int) string {
	mask, off := i%8, i/8
	var parts []string
	for k, name := range []string{"a", "b", "c"} {
		if mask&(1<<k) != 0 {
			parts = append(parts, `"`+name+`":`+c16ObjVals[(off+k)%len(c16ObjVals)])
		}
	}
	return "{" + strings.Join(parts, ",") + "}"
}

const c16NObj = 8 * 5

func c16Pluck(c *fw.Ctx, obj int, keys []string) *fw.Violation {
	args := make([]Expr, len(keys))
	for i, k := range keys {
		args[i] = S(k)
	}
	body := []Stmt{
		Ex(Asg("=", V("r"), CallE(Mem(V("$"), "pluck"), args...))),
		Pr(V("r")), Pr(CallE(Mem(V("r"), "length"))), Pr(V("$")), Pr(CallE(Mem(V("$"), "length"))),
		// sharing: a container value is the same container in both objects
		&If{Cond: &IsExpr{Mem(V("r"), "a"), "array"}, Then: Blk(Ex(CallE(Mem(Mem(V("r"), "a"), "push"), N("9"))), Pr(V("$"), V("r")))},
		// the result is a new object: storing into it does not touch the original
		Ex(Asg("=", Mem(V("r"), "fresh"), N("1"))), Pr(V("$")),
		// ... also for keys that were plucked, in both directions
		Ex(Asg("=", Mem(V("r"), "a"), S("changed in r"))), Ex(&Postfix{"++", Mem(V("r"), "b")}), Pr(V("$"), V("r")),
		// a key that was absent in the original is an ordinary null member of the result
		Ex(Asg("=", Mem(V("r"), "z"), S("z set in r"))), Pr(V("$"), V("r"), CallE(Mem(V("$"), "length"))),
		Ex(Asg("=", Mem(V("$"), "a"), S("changed in $"))), Ex(Asg("=", Mem(V("$"), "z"), N("7"))), Pr(V("$"), V("r")),
	}
	pc := &progCase{P: &Program{Rules: []*Rule{{Body: Blk(body...)}}}, Files: []inFile{{"in.json", c16Object(obj)}}}
	v, _, _ := pc.check(c)
	c.State(fmt.Sprintf("pluck:%d keys", len(keys)))
	return v
}

// ----- num() -----

var c16Numeral = regexp.MustCompile(`^[+-]?[0-9]+(\.[0-9]+)?([eE][+-]?[0-9]+)?$`)

func c16NumStrings(thorough bool) []string {
	syms := []string{"0", "1", "5", ".", "e", "-", "+", "x", " "}
	L := 4
	if thorough {
		L = 5
	}
	out := []string{""}
	prev := []string{""}
	for l := 1; l <= L; l++ {
		var cur []string
		for _, p := range prev {
			for _, s := range syms {
				cur = append(cur, p+s)
			}
		}
		out = append(out, cur...)
		prev = cur
	}
	out = append(out, "abc", "12abc", "1,5", "1e309", "1e-400", "123456789012345678901234567890", "0.1000000000000000055511151231257827", "179769313486231570000000000000000000000000000000000000000000000000000000000000000000000000000000000000000000000000000000000000000000000000000000000000000000000000000000000000000000000000000000000000000000000000000000000000000000000000000000000000000000000000000000000000000000000000000000000000000000000000000", "true", "null", "é", "１")
	return out
}

func c16Num(c *fw.Ctx, strs []string) *fw.Violation {
	var sb strings.Builder
	sb.WriteByte('[')
	for i, s := range strs {
		if i > 0 {
			sb.WriteByte(',')
		}
		sb.WriteString(jstr(s))
	}
	sb.WriteByte(']')
	s := drive.Spec{Program: "{ n = num($); print n is number, n is null, n }", Files: []drive.File{{Name: "in.json", Data: sb.String()}}}
	o := run(c, s)
	c.Traces++
	bad := func(what, str, line string) *fw.Violation {
		return &fw.Violation{What: what, Detail: map[string]any{"string": str, "printed": line, "kind": o.Kind, "msg": o.Msg}}
	}
	if o.Kind != drive.KNone {
		return bad("num() failed", "", "")
	}
	lines := strings.Split(strings.TrimSuffix(o.Stdout, "\n"), "\n")
	if len(lines) != len(strs) {
		return bad("wrong number of lines", "", "")
	}
	for i, str := range strs {
		c.Transitions++
		f, err := strconv.ParseFloat(str, 64)
		strict := c16Numeral.MatchString(str)
		switch {
		case strict && err == nil:
			c.State("num:numeral")
			c.NonTrivial("numeral:" + str)
			fs := strings.Fields(lines[i])
			if len(fs) != 3 || fs[0] != "true" {
				return bad("num() of a numeric string is not a number", str, lines[i])
			}
			g, e2 := strconv.ParseFloat(fs[2], 64)
			if e2 != nil || g != f {
				return bad("num() is not the nearest double", str, lines[i])
			}
		case !strict && err != nil:
			c.State("num:non-numeric")
			if lines[i] != "false true null" {
				return bad("num() of a non-numeric string is not null", str, lines[i])
			}
		default:
			c.State("num:unspecified spelling (not compared)")
			c.Note("num() spellings not compared", 1)
		}
	}
	return nil
}

// ----- wrong-kind matrix: a value or a runtime error, never a crash -----

var c16Recv = []string{"(5)", `"str"`, "true", "null", "u", "[1, 2]", "{a: 1}", "/re/", "fn", "$"}
var c16Methods = []string{"length", "push", "pop", "popfirst", "contains", "sort", "pluck", "split", "lower", "upper", "floor", "ceil", "round", "nosuch"}
var c16ArgVals = []string{"1", `"a"`, "[3]", "null"}

func c16ArgLists() []string {
	out := []string{""}
	for _, a := range c16ArgVals {
		out = append(out, a)
	}
	for _, a := range c16ArgVals {
		for _, b := range c16ArgVals {
			out = append(out, a+", "+b)
		}
	}
	return out
}

// c16NestedPrograms: the same method looked up on two receivers within one expression -- nested in its own argument list,
// side by side in a list, or held in a match binding while the other lookup happens. Each call acts on its own receiver.
func c16NestedPrograms() []*progCase {
	setup := []Stmt{
		Ex(Asg("=", V("s1"), S("a,b;c"))), Ex(Asg("=", V("s2"), S(";|,"))), Ex(Asg("=", V("n1"), N("2.5"))), Ex(Asg("=", V("n2"), Un("-", N("7.5")))),
		Ex(Asg("=", V("o1"), &ObjLit{Keys: []string{"id", "x"}, Vals: []Expr{N("7"), S("X")}})), Ex(Asg("=", V("o2"), &ObjLit{Keys: []string{"key"}, Vals: []Expr{S("id")}})),
	}
	call := func(recv Expr, m string, args ...Expr) Expr { return CallE(Mem(recv, m), args...) }
	held := func(recv Expr, m string, other Expr, args ...Expr) Expr {
		return &MatchExpr{Subj: Mem(recv, m), Cases: []MatchCase{{Pats: []Expr{V("f")}, Body: Arr_(other, CallE(V("f"), args...))}}}
	}
	exprs := []Expr{
		call(V("s1"), "split", Idx(call(V("s2"), "split", S("|")), N("1"))),
		call(V("s1"), "split", Idx(call(V("s2"), "split", S("|")), N("0"))),
		call(call(V("s1"), "upper"), "split", call(call(V("s2"), "lower"), "upper")),
		Arr_(call(V("s1"), "upper"), call(V("s2"), "upper"), call(V("s1"), "lower"), call(V("s2"), "length"), call(V("s1"), "length")),
		Bin("+", call(V("s1"), "length"), call(V("s2"), "length")),
		Bin("+", call(V("s1"), "upper"), call(S("x"), "upper")),
		call(V("o1"), "pluck", Mem(call(V("o2"), "pluck", S("key")), "key")),
		Arr_(call(V("o1"), "length"), call(V("o2"), "length"), call(V("o1"), "pluck", S("x")), call(V("o2"), "pluck", S("x"))),
		Arr_(call(V("n1"), "floor"), call(V("n2"), "floor"), call(V("n1"), "ceil"), call(V("n2"), "ceil"), call(V("n1"), "round"), call(V("n2"), "round")),
		Bin("+", call(V("n1"), "round"), call(V("n2"), "round")),
		held(V("s1"), "upper", call(V("s2"), "upper")),
		held(V("s1"), "split", call(V("s2"), "split", S("|")), S(",")),
		held(V("s1"), "length", call(V("s2"), "length")),
		held(V("o1"), "pluck", call(V("o2"), "pluck", S("key")), S("id")),
		held(V("o1"), "length", call(V("o2"), "length")),
		held(V("n1"), "floor", call(V("n2"), "floor")),
		held(V("n1"), "round", call(V("n2"), "ceil")),
		// a method on a value that another built-in or method has just produced
		Arr_(call(CallE(V("num"), S("2.5")), "round"), call(CallE(V("num"), S("-7")), "floor"), call(CallE(V("num"), S("1e2")), "ceil")),
		call(Idx(call(V("s1"), "split", S(",")), N("0")), "upper"),
		call(call(call(V("s1"), "upper"), "lower"), "length"),
		call(Idx(V("s1"), N("0")), "upper"),
		call(call(call(V("n1"), "floor"), "ceil"), "round"),
		call(call(V("o1"), "pluck", S("id"), S("x")), "length"),
		call(Mem(call(V("o1"), "pluck", S("x")), "x"), "lower"),
		call(Idx(call(Arr_(N("3.5"), N("1.5")), "sort"), N("0")), "floor"),
		call(Idx(call(Arr_(S("b"), S("a")), "sort"), N("1")), "upper"),
		call(call(Arr_(N("3"), N("1")), "sort"), "length"),
		call(Bin("+", V("s1"), V("s2")), "length"),
		call(&Paren{X: Bin("*", V("n1"), N("3"))}, "floor"),
		call(Mem(call(V("o1"), "pluck", S("id")), "id"), "floor"),
	}
	var out []*progCase
	// built-ins inside root selectors
	for _, sel := range []Expr{CallE(V("num"), Mem(V("$"), "total")), CallE(Mem(Mem(V("$"), "name"), "upper")), CallE(Mem(V("$"), "pluck"), S("total")), Idx(CallE(Mem(Mem(V("$"), "name"), "split"), S("n")), N("1"))} {
		out = append(out, &progCase{P: &Program{Rules: []*Rule{{Body: Blk(Pr(V("$")), &If{Cond: &IsExpr{V("$"), "number"}, Then: Blk(Pr(CallE(Mem(V("$"), "round"))))})}}},
			Files: []inFile{{"in.json", `{"total":"12.5","name":"ann"}`}}, Sels: []Expr{sel, V("$")}})
	}
	for _, e := range exprs {
		body := append(append([]Stmt{}, setup...), Ex(Asg("=", V("r"), e)), Pr(V("r")), Pr(V("s1"), V("s2"), V("n1"), V("n2"), V("o1"), V("o2")))
		out = append(out, &progCase{P: &Program{Rules: []*Rule{{Kind: "BEGIN", Body: Blk(body...)}}}})
	}
	return out
}

func c16Kinds(c *fw.Ctx, prog string) *fw.Violation {
	s := drive.Spec{Program: prog, Files: []drive.File{{Name: "in.json", Data: `{"k":[1]}`}}}
	o := run(c, s)
	c.Traces++
	c.Transitions++
	c.Outcome(string(o.Kind))
	if o.Kind == drive.KNone || o.Kind == drive.KRuntime {
		return nil
	}
	o.Ev = nil
	return &fw.Violation{What: "a method or builtin on a receiver / arguments of another kind ended in neither a value nor a runtime error", Detail: detail{Program: prog, Got: o}}
}

func init() {
	var strs, seps []string
	var sweep []float64
	var numStrs []string
	setup := func(t fw.Tier) {
		if strs == nil {
			L := 4
			if t == fw.Thorough {
				L = 5
			}
			strs = c16Strings(L)
			seps = c16Strings(2)
			sweep = numSweep(t == fw.Thorough)
			numStrs = c16NumStrings(t == fw.Thorough)
		}
	}
	const U = 32
	register(addTok(tokFramesC16, &fw.Prop{
		ID: "C16",
		Rule: "all strings of length <= L over {a,B,',',blank,é,ß} x all separators of length <= 2 for split (with length/upper/lower on all strings); the double sweep plus every k+{0,.25,.5,.75} for floor/ceil/round; " +
			"40 objects with keys within {a,b,c} x all key lists of length <= 3 over {a,b,z} for pluck (result, original unchanged, sharing, freshness); all strings of length <= 4 over {0,1,5,.,e,-,+,x,blank} for num(); " +
			"17 expressions that look one method up on two receivers (nested in its own arguments, side by side, held in a match binding) and 13 that call a method on a value another built-in or method has just produced (num, split, indexing, sort, pluck, concatenation); every method name x 10 receiver kinds x 21 argument lists and the builtins for the value-or-runtime-error rule; oracle: reference functions of DESIGN.md 3.16 (whose split output is asserted to satisfy the join / no-separator laws); " +
			"non-trivial = splits into >= 2 pieces, halves, strict numerals",
		Plan: func(t fw.Tier) int { return U },
		Bound: func(t fw.Tier) string {
			setup(t)
			return fmt.Sprintf("%d strings x %d separators; %d doubles; %d objects x 40 key lists; %d num() strings; %d wrong-kind programs", len(strs), len(seps), len(sweep), c16NObj, len(numStrs), len(c16Recv)*len(c16Methods)*21+3*21)
		},
		Assumptions: []string{"reference Split/mapCase/Floor/Round in mc/refsem", "unicode.ToUpper/ToLower as the simple case mapping", "strconv.ParseFloat as nearest-double conversion; strings on which it and the strict numeral grammar disagree are not compared"},
		Run: func(c *fw.Ctx, u int) {
			setup(c.Tier)
			for i := u; i < len(strs); i += U {
				s := strs[i]
				c.Do(func() any { return c16Spec{Form: "split", S: s} }, func() *fw.Violation { return c16Split(c, s, seps) })
			}
			const chunk = 50
			for lo := u * chunk; lo < len(strs); lo += U * chunk {
				lo, hi := lo, min(lo+chunk, len(strs))
				c.Do(func() any { return c16Spec{Form: "case", Lo: lo, Hi: hi} }, func() *fw.Violation { return c16Case(c, strs[lo:hi]) })
			}
			for lo := u * chunk; lo < len(sweep); lo += U * chunk {
				lo, hi := lo, min(lo+chunk, len(sweep))
				c.StatesN += int64(hi - lo)
				c.Do(func() any { return c16Spec{Form: "nums", Lo: lo, Hi: hi} }, func() *fw.Violation { return c16Nums(c, sweep[lo:hi]) })
			}
			for lo := u * chunk; lo < len(numStrs); lo += U * chunk {
				lo, hi := lo, min(lo+chunk, len(numStrs))
				c.Do(func() any { return c16Spec{Form: "num", Lo: lo, Hi: hi} }, func() *fw.Violation { return c16Num(c, numStrs[lo:hi]) })
			}
			for obj := u; obj < c16NObj; obj += U {
				var rec func(keys []string)
				rec = func(keys []string) {
					ks := append([]string{}, keys...)
					c.Do(func() any { return c16Spec{Form: "pluck", Obj: obj, Keys: ks} }, func() *fw.Violation { return c16Pluck(c, obj, ks) })
					if len(keys) == 3 {
						return
					}
					for _, k := range []string{"a", "b", "z"} {
						rec(append(keys, k))
					}
				}
				rec(nil)
			}
			if u == 0 {
				// letters whose other case has a different encoded width, at the start, in the middle and at the end
				special := []string{"İstanbul", "ıq", "xſ", "K", "Å", "ẞa", "Ⱥbc", "xɐ", "ɐ", "aİ", "İ", "ǅ", "ﬁ", "ŉ", "\u1e9e", "ⱥ", "ɫ", "ᲀ"}
				c.Do(func() any { return c16Spec{Form: "case-special"} }, func() *fw.Violation { return c16Case(c, special) })
				for i, pc := range c16NestedPrograms() {
					pc, i := pc, i
					c.Do(func() any { return c16Spec{Form: "nested", Lo: i, Prog: pc.source()} }, func() *fw.Violation { return pc.mustCheck(c, "one method on two receivers") })
				}
			}
			n := 0
			progs := func(f func(prog string)) {
				for _, r := range c16Recv {
					for _, m := range c16Methods {
						for _, a := range c16ArgLists() {
							f("function fn() { return 1 }\n{ r = " + r + "." + m + "(" + a + "); print \"ok\" }")
							if m == "length" {
								f("function fn() { return 1 }\n{ r = " + r + "[\"" + m + "\"](" + a + "); print \"ok\" }")
							}
						}
					}
				}
				for _, b := range []string{"num", "json", "printf"} {
					for _, a := range c16ArgLists() {
						f("{ r = " + b + "(" + a + "); print \"ok\" }")
					}
				}
			}
			progs(func(prog string) {
				n++
				if n%U != u {
					return
				}
				c.Do(func() any { return c16Spec{Form: "kinds", Prog: prog} }, func() *fw.Violation { return c16Kinds(c, prog) })
			})
		},
		Replay: func(c *fw.Ctx, raw json.RawMessage) *fw.Violation {
			var s c16Spec
			if !unmarshal(raw, &s) {
				return nil
			}
			setup(c.Tier)
			switch s.Form {
			case "split":
				return c16Split(c, s.S, seps)
			case "case":
				return c16Case(c, strs[s.Lo:s.Hi])
			case "nums":
				return c16Nums(c, sweep[s.Lo:s.Hi])
			case "num":
				return c16Num(c, numStrs[s.Lo:s.Hi])
			case "case-special":
				return c16Case(c, []string{"İstanbul", "ıq", "xſ", "K", "Å", "ẞa", "Ⱥbc", "xɐ", "ɐ", "aİ", "İ", "ǅ", "ﬁ", "ŉ", "\u1e9e", "ⱥ", "ɫ", "ᲀ"})
			case "pluck":
				return c16Pluck(c, s.Obj, s.Keys)
			case "nested":
				v, _, _ := c16NestedPrograms()[s.Lo].check(c)
				return v
			}
			return c16Kinds(c, s.Prog)
		},
	}))
}
