package props

import (
	"bufio"
	"encoding/json"
	"fmt"
	"go/ast"
	"go/parser"
	"go/token"
	"os"
	"os/exec"
	"path/filepath"
	"sort"
	"strconv"
	"strings"

	"verif/mc/drive"
	"verif/mc/fw"

	lang "github.com/alligator/jqawk/src"
)

// C10: output is a deterministic function of program, selectors and input bytes.

type c10RunSpec struct {
	Name    string
	Prog    string
	Input   string
	HasIn   bool
	Sels    []string
	Fuzzing bool
	Root    bool
}

func c10Object12() string {
	// 48 keys (the name is historic): beyond any small-object fast path; several longer than a machine word and equal in their first 8 bytes
	keys := []string{"k07", "k01", "k12", "k03", "k09", "k05", "k11", "k02", "k08", "k04", "k10", "k06"}
	for i := 13; i <= 34; i++ {
		keys = append(keys, fmt.Sprintf("k%02d", (i*7)%22+13))
	}
	keys = append(keys, "created_by", "created_at", "customer_zip", "customer_name", "created_at_utc", "customer_zipcode")
	// keys of exactly 8 bytes next to longer keys that begin with them
	keys = append(keys, "language", "languages_url", "customer", "created_", "abcdefgh", "abcdefghi", "abcdefgh_", "abcdefgh0")
	parts := make([]string, len(keys))
	for i, k := range keys {
		parts[i] = fmt.Sprintf("%q:%d", k, i)
	}
	return "{" + strings.Join(parts, ",") + "}"
}

var c10Runs = []c10RunSpec{
	{Name: "array methods", Prog: `BEGIN { a = [3, 1]; a.push(2); print a.sort(), a.length(), a.contains(1), a.pop(), a.popfirst(), a }`},
	{Name: "object methods", Prog: `{ print $.length(), $.pluck("a", "zz"), $ }`, Input: `{"a":1,"b":2,"c":3}`, HasIn: true},
	{Name: "string methods", Prog: `BEGIN { s = "aB,c"; print s.length(), s.upper(), s.lower(), s.split(",") }`},
	{Name: "number methods", Prog: `BEGIN { n = 2.5; print n.floor(), n.ceil(), n.round() }`},
	{Name: "nested method calls", Prog: `BEGIN { a = []; b = [6]; a.push(b.push(1)); print a, b; print a.contains(b.pop()), [1, 2, 3].length() }`},
	{Name: "method looked up but not called", Prog: `BEGIN { o = {a: 1, b: 2, c: 3}; t = o.length is unknown; u = [1].push is unknown; print t, u }`},
	{Name: "method failing mid-call", Prog: `BEGIN { print 1; x = [1, 2]; x.push() }`},
	{Name: "method cell called through a loop variable", Prog: `BEGIN { o = {a: 1}; p = o.pluck("length"); for (k, v in p) { print k, v() } }`},
	{Name: "call depth limit", Prog: `function r(n) { return r(n + 1) } BEGIN { print 1; r(0) }`},
	{Name: "fuzzing loop limit", Prog: `BEGIN { while (1) { i++ } }`, Fuzzing: true},
	{Name: "syntax error", Prog: `BEGIN { print 1 ) }`},
	{Name: "JSON error", Prog: `{ print }`, Input: "[1,2] 5 \"x\" {\"a\":1}\n[7,8] [3", HasIn: true}, // several complete values before the truncated one
	{Name: "selector run", Prog: `{ print $index, $ }`, Input: `{"a":[{"x":1,"y":2},5],"b":1}`, HasIn: true, Sels: []string{"$.a", "$.b"}},
	{Name: "12-key object printed and iterated", Prog: `{ print; for (k, v in $) print k, v; print $.pluck("k03", "k01") }`, Input: "", HasIn: true},
	{Name: "JSON output of a mutated document", Prog: `{ $.z = [$.b, {q: 1, p: 2}]; $.a.push(9) }`, Input: `{"b":"s","a":[1]}`, HasIn: true, Root: true},
	{Name: "variables named like the builtins", Prog: `BEGIN { num = 5; json = "x"; for (printf in [1, 2]) { } print num, json, printf }`},
	{Name: "the builtins", Prog: `BEGIN { print num("12.5"), num("x"), json([1, {a: null}]); printf("%s|%3v\n", "s", 7) }`},
	{Name: "object whose keys collide under numeric comparison", Prog: `{ print; for (k, v in $) print k, v }`, Input: `{"7":1,"07":2,"1":3,"01":4,"+1":5,"10":6,"1a":7,"9":8,"a":9,"A":10,"1.0":11,"1e0":12}`, HasIn: true},
	{Name: "printf failing after literal text", Prog: `{ printf("user=%s|%5v|\n", $.id, 1) }`, Input: `[{"id":"u1"},{"id":7}]`, HasIn: true},
	{Name: "print, json and printf of numbers", Prog: `{ print $, $ * 1; printf("%f %v|%s\n", $, $, json([$])) }`, Input: `[0,-0,1.5,100000000000000000000,0.000001]`, HasIn: true},
	{Name: "length of a fresh three-key object literal", Prog: `BEGIN { print {a: 1, b: 2, c: 3}.length(), "x".length(), [].length() }`},
	{Name: "loops that step their own index and value variables", Prog: `{ for (t, i in $.tags) { i++; t += "!"; print i, t } for (ch, off in "ab") { off += 10; print ch, off } for (k, v in $) { print k } }`, Input: `{"tags":["x","y","z"]}`, HasIn: true},
	{Name: "stores through string indices that do not exist", Prog: `BEGIN { s = "ann"; s[s.length()] = "!"; s[9]++; s[-1] = "x"; print s, s[5] is null, s[3] is null } { $[9] = "?"; print $ }`, Input: `["ab"]`, HasIn: true},
	{Name: "reads of string indices that do not exist", Prog: `BEGIN { t = "abc"; print t[7] is null, t[3] is null, t[-1] is null, t[1] } { print $[5] is null, $[2] is null, $ }`, Input: `["ab","c"]`, HasIn: true},
	{Name: "a record reachable along three paths, serialised", Prog: `BEGIN { rec = {n: 1}; o = {a: {p: rec, q: rec}, b: rec, c: [rec, rec]}; print json(o); print json([rec, rec, rec]) }`},
	// the same with nothing else in the way: whether it works may not depend on the order in which the members are met
	{Name: "a record reachable twice inside a member and once beside it, serialised", Prog: `BEGIN { rec = {n: 1}; o.a = {p: rec, q: rec}; o.f1 = 1; o.f2 = 2; o.b = rec; o.f3 = 3; print json(o) } { all.push($); by[$.k] = {first: $, last: $}; last = $ } END { print json({all: all, by: by, last: last}) }`, Input: `[{"k":"x"},{"k":"y"}]`, HasIn: true},
	// two runs that address object members by the two zeros, in opposite orders: whichever ran first may not decide the key of the other
	{Name: "object members counted under -0 and then 0", Prog: `BEGIN { c = {} } { c[$.round()]++; d[$ * 0] = $index } END { print c, d; print c[0], c[-0] }`, Input: `[-0.2, -0.4, 0.3]`, HasIn: true},
	{Name: "object members counted under 0 and then -0", Prog: `BEGIN { c = {} } { c[$.round()]++; d[$ * 0] = $index } END { print c, d; print c[0], c[-0] }`, Input: `[0.3, -0.2, 0.4]`, HasIn: true},
	{Name: "recursion a thousand deep", Prog: `function r(n) { if (n <= 0) return 0; return 1 + r(n - 1) } function m(n) { return match (n) { 0 => 0, k => 1 + m(k - 1) } } BEGIN { print r(1000), m(600) }`},
	{Name: "a fuzzing-mode run that ends in exit", Prog: `function r(n) { if (n <= 0) return 0; return 1 + r(n - 1) } BEGIN { print r(100); exit }`, Fuzzing: true},
	// two programs of identical shape whose literals differ: nothing remembered by position may carry from one run to another
	{Name: "program A of a pair that differs only in its literals", Prog: `{ print $ ~ /^a/, $ !~ /b$/, "one", 10, 'x' + 1 } $ == "ab" { print "hit" }`, Input: `["ab","ba","a"]`, HasIn: true},
	{Name: "program B of a pair that differs only in its literals", Prog: `{ print $ ~ /^b/, $ !~ /a$/, "two", 20, 'y' + 2 } $ == "ba" { print "hit" }`, Input: `["ab","ba","a"]`, HasIn: true},
	{Name: "literals, argument lists and operands whose parts have side effects", Prog: `function t(x) { print "eval", x; return x } BEGIN { i = 0; o = {h: i++, c: i++, a: i++, g: i++, b: i++, f: i++, d: i++, e: i++}; print o; print {z: t(1), y: t(2), x: t(3), w: t(4), v: t(5)}, [t(6), t(7)], t(8) + t(9); printf("%v %v\n", t(10), t(11)) }`},
}

func init() { c10Runs[13].Input = c10Object12() }

func (r c10RunSpec) spec(keep bool) drive.Spec {
	s := drive.Spec{Program: r.Prog, Selectors: r.Sels, Fuzzing: r.Fuzzing, WantRoot: r.Root, KeepState: keep}
	if r.HasIn {
		s.Files = []drive.File{{Name: "in.json", Data: r.Input}}
	}
	return s
}

type c10Obs struct {
	Stdout   string        `json:"stdout"`
	Kind     drive.ErrKind `json:"kind"`
	RootJSON string        `json:"root_json,omitempty"`
	RootKind drive.ErrKind `json:"root_kind,omitempty"`
	Globals  string        `json:"globals,omitempty"`
}

func c10Observe(o drive.Outcome) c10Obs {
	return c10Obs{Stdout: o.Stdout, Kind: o.Kind, RootJSON: o.RootJSON, RootKind: o.RootKind}
}

func (a c10Obs) same(b c10Obs) bool {
	return a.Stdout == b.Stdout && a.Kind == b.Kind && a.RootJSON == b.RootJSON && a.RootKind == b.RootKind
}

// child mode: run the given sequence of runs (indices) in this fresh process without any reset, print one observation per line
func c10Child(args []string) {
	w := bufio.NewWriter(os.Stdout)
	defer w.Flush()
	for _, a := range args {
		i, _ := strconv.Atoi(a)
		o := drive.Run(c10Runs[i].spec(true))
		ob := c10Observe(o)
		ob.Globals = lang.VerifGlobals()
		b, _ := json.Marshal(ob)
		w.Write(b)
		w.WriteString("\n")
	}
}

func c10FreshProcess(seq []int) ([]c10Obs, error) {
	args := make([]string, len(seq))
	for i, k := range seq {
		args[i] = strconv.Itoa(k)
	}
	out, err := fw.SpawnChild("c10", "", args...)
	if err != nil {
		return nil, fmt.Errorf("child failed: %v", err)
	}
	var obs []c10Obs
	for _, line := range strings.Split(strings.TrimSpace(out), "\n") {
		var o c10Obs
		if err := json.Unmarshal([]byte(line), &o); err != nil {
			return nil, err
		}
		obs = append(obs, o)
	}
	if len(obs) != len(seq) {
		return nil, fmt.Errorf("child printed %d observations for %d runs", len(obs), len(seq))
	}
	return obs, nil
}

var c10Baselines = map[int]c10Obs{}

// c10Baseline: the run as the first run of a fresh process.
func c10Baseline(i int) c10Obs {
	if b, ok := c10Baselines[i]; ok {
		return b
	}
	obs, err := c10FreshProcess([]int{i})
	if err != nil {
		panic("c10: " + err.Error())
	}
	c10Baselines[i] = obs[0]
	return obs[0]
}

type c10Spec struct {
	Form  string   `json:"form"` // repeat, history, graph, cli
	Run   int      `json:"run,omitempty"`
	Seq   []int    `json:"seq,omitempty"`
	Names []string `json:"names,omitempty"`
}

func c10Diff(what string, seq []int, k int, want, got c10Obs) *fw.Violation {
	names := make([]string, len(seq))
	for i, r := range seq {
		names[i] = c10Runs[r].Name
	}
	return &fw.Violation{What: what, Detail: map[string]any{"history": names, "differing run": c10Runs[seq[k]].Name, "program": c10Runs[seq[k]].Prog, "input": c10Runs[seq[k]].Input,
		"as first run of a fresh process": want, "here": got}}
}

// (iii) 24 fresh processes and 24 in-process repetitions of one run: all identical
func c10Repeat(c *fw.Ctx, i int) *fw.Violation {
	base := c10Baseline(i)
	for k := 0; k < 24; k++ {
		obs, err := c10FreshProcess([]int{i})
		if err != nil {
			panic("c10: " + err.Error())
		}
		c.Evals++
		c.Traces++
		if !obs[0].same(base) {
			return c10Diff("two fresh processes give different results for the same run", []int{i}, 0, base, obs[0])
		}
	}
	for k := 0; k < 24; k++ {
		o := c10Observe(run(c, c10Runs[i].spec(k%2 == 1)))
		c.Traces++
		if !o.same(base) {
			return c10Diff("an in-process repetition differs from the fresh-process result", []int{i}, 0, base, o)
		}
	}
	c.Transitions += 48
	c.Outcome(string(base.Kind))
	return nil
}

// the real binary, 12 fresh processes per run
func c10CLI(c *fw.Ctx, i int) *fw.Violation {
	r := c10Runs[i]
	if r.Fuzzing {
		return nil
	}
	var first string
	for k := 0; k < 12; k++ {
		args := []string{}
		for _, s := range r.Sels {
			args = append(args, "-r", s)
		}
		if r.Root {
			args = append(args, "-o", "-")
		}
		args = append(args, r.Prog)
		cmd := exec.Command(fw.JqawkBin(), args...)
		if r.HasIn {
			cmd.Stdin = strings.NewReader(r.Input)
		} else {
			cmd.Stdin = strings.NewReader("")
		}
		out, err := cmd.Output()
		c.Evals++
		c.Transitions++
		res := string(out) + fmt.Sprintf("|exit:%v", err != nil)
		if k == 0 {
			first = res
		} else if res != first {
			return &fw.Violation{What: "two invocations of the binary with the same arguments and input differ", Detail: map[string]any{"argv": args, "stdin": r.Input, "first": first, "later": res}}
		}
	}
	return nil
}

// (ii) one history, in its own fresh process: every run must equal its baseline
func c10History(c *fw.Ctx, seq []int) *fw.Violation {
	obs, err := c10FreshProcess(seq)
	if err != nil {
		panic("c10: " + err.Error())
	}
	c.Evals += int64(len(seq))
	c.Traces++
	c.Transitions += int64(len(seq))
	for k, o := range obs {
		c.State("globals: " + o.Globals)
		if b := c10Baseline(seq[k]); !o.same(b) {
			return c10Diff("a run's result depends on the runs executed before it in the same process", seq, k, b, o)
		}
	}
	return nil
}

// (i) explicit-state search over the process-global state
func c10Graph(c *fw.Ctx) *fw.Violation {
	type node struct {
		hist []int
	}
	replay := func(hist []int) string {
		lang.VerifResetGlobals()
		for _, r := range hist {
			drive.Run(c10Runs[r].spec(true))
		}
		return lang.VerifGlobals()
	}
	seen := map[string]bool{}
	start := replay(nil)
	seen[start] = true
	frontier := []node{{nil}}
	c.State("globals: " + start)
	for len(frontier) > 0 {
		n := frontier[0]
		frontier = frontier[1:]
		for r := range c10Runs {
			replay(n.hist)
			o := c10Observe(run(c, c10Runs[r].spec(true)))
			after := lang.VerifGlobals()
			c.Transitions++
			c.Traces++
			if b := c10Baseline(r); !o.same(b) {
				return c10Diff("a run's result depends on the process-global state reached by earlier runs", append(append([]int{}, n.hist...), r), len(n.hist), b, o)
			}
			if !seen[after] {
				seen[after] = true
				c.State("globals: " + after)
				frontier = append(frontier, node{append(append([]int{}, n.hist...), r)})
			}
		}
	}
	c.Note("reachable global states (closed)", int64(len(seen)))
	return nil
}

// fail-closed scan: every package-level var of /repo/src must be either in the fingerprint or in the reviewed list
var c10Fingerprinted = map[string]bool{"arrayPrototype": true, "objPrototype": true, "strPrototype": true, "numPrototype": true}
var c10ReviewedConstant = map[string]bool{"errContinue": true, "errBreak": true, "errReturn": true, "errNext": true, "errExit": true, "fuzzingLoopLimit": true, "callDepthLimit": true,
	"_TokenTag_index": true, "_ValueTag_index": true, "VerifStepBudget": true, "VerifSteps": true}

func c10GlobalScan() (unknown []string) {
	repo := os.Getenv("VERIF_REPO")
	if repo == "" {
		repo = "/repo"
	}
	files, _ := filepath.Glob(filepath.Join(repo, "src", "*.go"))
	fset := token.NewFileSet()
	for _, f := range files {
		af, err := parser.ParseFile(fset, f, nil, 0)
		if err != nil {
			continue
		}
		for _, d := range af.Decls {
			gd, ok := d.(*ast.GenDecl)
			if !ok || gd.Tok != token.VAR {
				continue
			}
			for _, sp := range gd.Specs {
				for _, n := range sp.(*ast.ValueSpec).Names {
					if n.Name != "_" && !c10Fingerprinted[n.Name] && !c10ReviewedConstant[n.Name] {
						unknown = append(unknown, filepath.Base(f)+":"+n.Name)
					}
				}
			}
		}
	}
	sort.Strings(unknown)
	return
}

func init() {
	fw.ChildModes["c10"] = c10Child
	n := len(c10Runs)
	register(&fw.Prop{
		ID: "C10",
		Rule: "alphabet of 33 runs that touch every piece of process-global state (method lookups on all four prototypes, nested and failing method calls, a method cell called without a fresh lookup, depth and loop limits, syntax and JSON errors, selectors, a 48-key object, object members addressed by both zeros in both orders, JSON output, literals and argument lists whose parts have side effects, two programs of one shape with different literals); " +
			"(i) explicit-state breadth-first search over run histories with the fingerprint of the package-level state (hook VerifGlobals) as state: from every reachable state every run is executed and compared with its fresh-process result, until the reachable set closes; " +
			"(ii) every history of <= L runs in its own fresh process without any reset, every run compared with (iii); (iii) each run as the first run of a fresh process, 25 times, plus 24 in-process repetitions and 12 invocations of the real binary: all byte-identical; " +
			"the package-level variables of /repo/src are listed with go/parser on every run: one that is neither fingerprinted nor reviewed as never-assigned withdraws the closure argument (recorded, never an alarm); states = global-state fingerprints reached; non-trivial = same",
		Plan: func(t fw.Tier) int { return 1 + n + n*n },
		Bound: func(t fw.Tier) string {
			if t == fw.Thorough {
				return "global-state graph closed; all histories of <= 4 runs over 33 runs, each in a fresh process"
			}
			return "global-state graph closed; all histories of <= 3 runs over 33 runs, each in a fresh process"
		},
		Assumptions: []string{"no model: the oracle is equality with the fresh-process execution", "Go's map iteration randomisation is not controlled: 48-key objects and 24+ repetitions make an order-dependent output differ with overwhelming probability", "the closure argument of (i) assumes VerifGlobals sees all mutable package-level state; the go/parser scan withdraws it otherwise"},
		Run: func(c *fw.Ctx, u int) {
			switch {
			case u == 0:
				c.Do(func() any { return c10Spec{Form: "graph"} }, func() *fw.Violation { return c10Graph(c) })
				if unk := c10GlobalScan(); len(unk) > 0 {
					c.Note("closure_argument withdrawn: unreviewed package-level variables: "+strings.Join(unk, ", "), 1)
					c.Incompl("package-level variables outside the fingerprint: " + strings.Join(unk, ", ") + " (only the bounded history result is claimed)")
				} else {
					c.Note("closure_argument holds (all package-level variables fingerprinted or reviewed)", 1)
				}
			case u <= n:
				i := u - 1
				c.Do(func() any { return c10Spec{Form: "repeat", Run: i, Names: []string{c10Runs[i].Name}} }, func() *fw.Violation { return c10Repeat(c, i) })
				c.Do(func() any { return c10Spec{Form: "cli", Run: i} }, func() *fw.Violation { return c10CLI(c, i) })
			default:
				u -= n + 1
				a, b := u/n, u%n
				L := c.Pick(3, 4)
				var rec func(seq []int)
				rec = func(seq []int) {
					if len(seq) == L || (len(seq) == 2 && L == 2) {
						s := c10Spec{Form: "history", Seq: append([]int{}, seq...)}
						c.Do(func() any { return s }, func() *fw.Violation { return c10History(c, s.Seq) })
						return
					}
					for k := 0; k < n; k++ {
						rec(append(seq, k))
					}
				}
				rec([]int{a, b}) // every shorter history is a prefix of one of these
			}
		},
		Finish: func(c *fw.Ctx) {
			for s := range c.States {
				c.NonTrivial(s)
			}
		},
		Replay: func(c *fw.Ctx, raw json.RawMessage) *fw.Violation {
			var s c10Spec
			if !unmarshal(raw, &s) {
				return nil
			}
			switch s.Form {
			case "graph":
				return c10Graph(c)
			case "repeat":
				return c10Repeat(c, s.Run)
			case "cli":
				return c10CLI(c, s.Run)
			}
			return c10History(c, s.Seq)
		},
	})
}
