package props

import (
	"sort"
	"strings"

	"verif/mc/drive"
	"verif/mc/fw"
	"verif/mc/refsem"
)

// ----- object key order oracle (DESIGN.md 3.11) -----
//
// No statement fixes the order in which an object's keys are visited, only
// that it is deterministic. The model therefore asks the implementation once
// per distinct key sequence (one probe run, cached) and requires every later
// iteration and rendering to use that order.

var koCache = map[string][]string{}
var koProbes, koBad int64

func probeKeyOrder(o *refsem.Obj) []string {
	if len(o.Keys) < 2 {
		return o.Keys
	}
	ck := strings.Join(o.Keys, "\x00")
	if r, ok := koCache[ck]; ok {
		return r
	}
	var sb strings.Builder
	sb.WriteString("BEGIN { o = {}\n")
	for _, k := range o.Keys {
		q := byte('"')
		if strings.ContainsRune(k, '"') {
			q = '\''
		}
		sb.WriteString("o[" + refsem.QuoteStr(k, q) + "] = 1\n")
	}
	sb.WriteString("for (k in o) print k\n}")
	out := drive.Run(drive.Spec{Program: sb.String()})
	koProbes++
	got := strings.Split(strings.TrimSuffix(out.Stdout, "\n"), "\n")
	a := append([]string{}, got...)
	b := append([]string{}, o.Keys...)
	sort.Strings(a)
	sort.Strings(b)
	if out.Kind != drive.KNone || strings.Join(a, "\x00") != strings.Join(b, "\x00") {
		koBad++
		got = append([]string{}, o.Keys...)
	}
	koCache[ck] = got
	return got
}

// ----- running a model program against the implementation -----

type inFile struct {
	Name string `json:"name"`
	Text string `json:"text"`
}

type progCase struct {
	P        *refsem.Program
	Style    refsem.Style
	Files    []inFile
	Sels     []refsem.Expr
	Src      string // overrides the rendering of P when set (layout variants)
	Root     bool   // also compare the JSON output
	MaxSteps int64  // model step budget (0: default)
	Strict   bool   // the program was not built by a generator: the model declines what no statement fixes (refsem/strict.go)
}

func (pc *progCase) source() string {
	if pc.Src != "" {
		return pc.Src
	}
	return refsem.Source(pc.P, pc.Style)
}

func (pc *progCase) spec() drive.Spec {
	s := drive.Spec{Program: pc.source(), WantRoot: pc.Root}
	for _, f := range pc.Files {
		s.Files = append(s.Files, drive.File{Name: f.Name, Data: f.Text})
	}
	for _, e := range pc.Sels {
		s.Selectors = append(s.Selectors, refsem.ExprSource(e, pc.Style))
	}
	return s
}

func (pc *progCase) model() refsem.Result {
	var mf []refsem.ModelFile
	for _, f := range pc.Files {
		st := refsem.ParseStream([]byte(f.Text))
		m := refsem.ModelFile{Name: f.Name, Bad: st.Status != refsem.StreamClean}
		for _, v := range st.Values {
			m.Values = append(m.Values, v.Node)
		}
		mf = append(mf, m)
	}
	var sels []refsem.Selector
	for _, e := range pc.Sels {
		sels = append(sels, refsem.Selector{X: e})
	}
	refsem.StrictMode = pc.Strict
	defer func() { refsem.StrictMode = false }()
	return refsem.RunProgram(pc.P, mf, sels, probeKeyOrder, pc.MaxSteps)
}

func modelKind(k string) drive.ErrKind {
	switch k {
	case "none":
		return drive.KNone
	case "runtime":
		return drive.KRuntime
	case "json":
		return drive.KJson
	case "syntax":
		return drive.KSyntax
	}
	return drive.KOther
}

// check runs implementation and model and compares exact stdout and outcome
// (and the JSON output when asked). skipped=true: the model declined the case.
func (pc *progCase) check(c *fw.Ctx) (v *fw.Violation, res refsem.Result, skipped bool) {
	res = pc.model()
	if res.Aborted {
		c.Note("model_budget_skips", 1)
		return nil, res, true
	}
	if res.Unfixed != "" {
		c.Note("unfixed_skips", 1)
		return nil, res, true
	}
	s := pc.spec()
	s.Budget = 50*res.Steps + 10000
	o := run(c, s)
	c.Traces++
	c.Transitions += res.Steps
	v = expect(s, o, res.Stdout, modelKind(res.Kind), res.Err)
	if v == nil && res.Kind == "json" && o.FileName != res.ErrFile {
		v = expect(s, o, res.Stdout, drive.KJson, "")
		v = &fw.Violation{What: "JSON error names the wrong file", Detail: detail{Program: s.Program, Files: s.Files, WantStdout: res.ErrFile, WantKind: drive.KJson, Got: o}}
	}
	if v == nil && pc.Root && res.Kind == "none" && !res.RootUnfixed {
		v = compareRoot(s, o, res)
	}
	return v, res, false
}

func compareRoot(s drive.Spec, o drive.Outcome, res refsem.Result) *fw.Violation {
	mk := func(what string) *fw.Violation {
		o.Ev = nil
		return &fw.Violation{What: what, Detail: detail{Program: s.Program, Files: s.Files, Selectors: s.Selectors, WantStdout: "root: " + refsem.ToJSONText(res.Root), Got: o}}
	}
	if !res.HasRoot {
		if o.RootKind == drive.KPanic {
			return mk("serialising the root panicked although no value was read")
		}
		return nil
	}
	if !refsem.JSONExpressible(res.Root) {
		if o.RootKind == drive.KNone {
			return mk("a root JSON cannot express was serialised")
		}
		if o.RootKind == drive.KPanic {
			return mk("serialising the root panicked")
		}
		return nil
	}
	if o.RootKind != drive.KNone {
		return mk("serialising the root failed")
	}
	n, ok := refsem.ParseJSON(o.RootJSON)
	if !ok {
		return mk("JSON output is not valid JSON")
	}
	if !refsem.EqualJSON(n, res.Root) {
		return mk("JSON output differs from the model's root")
	}
	return nil
}

// mustCheck is check for a program that was written by hand for one purpose. If the model declines such a program the family
// explores nothing and nobody notices; so a decline is recorded as an incomplete run (exhaustive: false, exit status unchanged)
// and shows in the summary line.
func (pc *progCase) mustCheck(c *fw.Ctx, family string) *fw.Violation {
	v, res, skipped := pc.check(c)
	if skipped {
		why := res.Unfixed
		if res.Aborted {
			why = "model step budget"
		}
		c.Incompl("a hand-written program of the family '" + family + "' was declined by the model (" + why + ")")
	}
	return v
}
