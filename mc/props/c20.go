package props

import (
	"encoding/json"
	"fmt"
	"os"
	"os/exec"
	"path/filepath"
	"sort"
	"strings"
	"time"

	"verif/mc/fw"
)

// C20: unbounded single steps are refused with an error, not by exhausting the process.
// Every case runs the real binary in a child process with a virtual-memory limit.

type c20Family struct {
	name string
	// build returns program, input and the stdout expected when n is within the limit
	build   func(n int) (prog, input, want string)
	lo, hi  int // the refusal point must lie in (lo, hi]
	max     int // sweep 1..max
	exact   int // when > 0: the largest n that must work
	jsonErr bool
}

func c20Rec(funcs string, call string, rule string, input string) func(n int) (string, string, string) {
	return func(n int) (string, string, string) {
		prog := funcs + "\n" + fmt.Sprintf(rule, fmt.Sprintf(call, n))
		return prog, input, fmt.Sprintf("before\n%d\n", n)
	}
}

const c20Direct = `function r(n) { if (n <= 0) return 0; return 1 + r(n - 1) }`

func c20Families() []c20Family {
	begin := `BEGIN { print "before"; print %s }`
	return []c20Family{
		{name: "direct recursion", build: c20Rec(c20Direct, "r(%d)", begin, ""), lo: 1000, hi: 10000, max: 12000},
		{name: "mutual recursion of two", build: c20Rec(`function r(n) { if (n <= 0) return 0; return 1 + q(n - 1) } function q(n) { if (n <= 0) return 0; return 1 + r(n - 1) }`, "r(%d)", begin, ""), lo: 1000, hi: 10000, max: 12000},
		{name: "mutual recursion of three", build: c20Rec(`function r(n) { if (n <= 0) return 0; return 1 + q(n - 1) } function q(n) { if (n <= 0) return 0; return 1 + p(n - 1) } function p(n) { if (n <= 0) return 0; return 1 + r(n - 1) }`, "r(%d)", begin, ""), lo: 1000, hi: 10000, max: 12000},
		{name: "recursion through a match body", build: c20Rec(`function r(n) { return match (n) { 0 => 0, k => 1 + r(k - 1) } }`, "r(%d)", begin, ""), lo: 1000, hi: 10000, max: 12000},
		{name: "recursion through an argument", build: c20Rec(`function id(x) { return x } function r(n) { if (n <= 0) return 0; return id(1 + r(n - 1)) }`, "r(%d)", begin, ""), lo: 1000, hi: 10000, max: 12000},
		{name: "recursion through a for-in body", build: c20Rec(`function r(n) { if (n <= 0) return 0; for (v in [1]) { t = r(n - 1) } return 1 + t }`, "r(%d)", begin, ""), lo: 1000, hi: 10000, max: 12000},
		{name: "recursion from a pattern rule", build: c20Rec(c20Direct, "r(%d)", `{ print "before"; print %s }`, "[1]"), lo: 1000, hi: 10000, max: 12000},
		{name: "recursion from BEGINFILE", build: c20Rec(c20Direct, "r(%d)", `BEGINFILE { print "before"; print %s }`, "5"), lo: 1000, hi: 10000, max: 12000},
		// shapes in which the frame that meets the limit is a match arm's, not a function's
		{name: "recursion entered from inside a match arm", build: c20Rec(c20Direct, "r(%d)", `BEGIN { print "before"; print match (1) { 1 => %s } }`, ""), lo: 1000, hi: 10000, max: 12000},
		{name: "recursion through two nested match arms", build: c20Rec(`function r(n) { return match (n) { 0 => 0, k => match (k) { j => 1 + r(j - 1) } } }`, "r(%d)", begin, ""), lo: 500, hi: 10000, max: 12000},
		{name: "recursion through a block-bodied arm entered from a BEGINFILE arm", build: c20Rec(`function r(n) { match (n) { 0 => { return 0 }, k => { return 1 + r(k - 1) } } }`, "r(%d)", `BEGINFILE { print "before"; match ($) { v => { print %s } } }`, "5"), lo: 1000, hi: 10000, max: 12000},
		// the recursive call sits deep inside an expression / statement nest: more native stack per level, the same limit and the same kind of refusal
		{name: "recursion inside a right-nested expression", build: c20Rec(`function r(n) { if (n <= 0) return 0; return 0 + (0 + (0 + (0 + (0 + (0 + (0 + (1 + r(n - 1)))))))) }`, "r(%d)", begin, ""), lo: 1000, hi: 10000, max: 12000},
		{name: "recursion inside literals, loops and conditionals", build: c20Rec(`function r(n) { if (n <= 0) return 0; for (v in [1]) { if (1) { { t = [[[{k: [1 + r(n - 1)]}]]] } } } return t[0][0][0].k[0] }`, "r(%d)", begin, ""), lo: 1000, hi: 10000, max: 12000},
		{name: "array store index", build: func(n int) (string, string, string) {
			return fmt.Sprintf(`BEGIN { print "before"; a = []; a[%d] = 1; print a.length() }`, n), "", fmt.Sprintf("before\n%d\n", n+1)
		}, lo: 1000000 - 1, hi: 2000000, max: 2100000},
		{name: "array store index through a nested path", build: func(n int) (string, string, string) {
			return fmt.Sprintf(`BEGIN { print "before"; o.list[%d].k = 1; print o.list.length() }`, n), "", fmt.Sprintf("before\n%d\n", n+1)
		}, lo: 1000000 - 1, hi: 2000000, max: 2100000},
		{name: "array store index on an array that already has elements", build: func(n int) (string, string, string) {
			return fmt.Sprintf(`BEGIN { print "before"; a = [0, 0, 0]; a[%d] = 1; print a.length() }`, n+2), "", fmt.Sprintf("before\n%d\n", n+3)
		}, lo: 1000000 - 3, hi: 2000000, max: 2100000},
		{name: "printf width", build: func(n int) (string, string, string) {
			return fmt.Sprintf(`BEGIN { print "before"; printf("%%%ds", "x"); print "" }`, n), "", "before\n" + strings.Repeat(" ", n-1) + "x\n"
		}, lo: 65535, hi: 65537, max: 70000, exact: 65536},
		{name: "printf negative width", build: func(n int) (string, string, string) {
			return fmt.Sprintf(`BEGIN { print "before"; printf("%%-%dv|", 7); print "" }`, n), "", "before\n7" + strings.Repeat(" ", n-1) + "|\n"
		}, lo: 65535, hi: 65537, max: 70000, exact: 65536},
		{name: "JSON array nesting", build: func(n int) (string, string, string) {
			return `BEGIN { print "before" } BEGINFILE { print "read" }`, strings.Repeat("[", n) + strings.Repeat("]", n), "before\nread\n"
		}, lo: 1000, hi: 100000, max: 10050, jsonErr: true},
		// the same inputs put to use: printed whole and serialised (every depth the decoder accepts works normally)
		{name: "JSON array nesting, printed and serialised", build: func(n int) (string, string, string) {
			return `BEGIN { print "before" } BEGINFILE { print $; print json($).length() > 0 }`, strings.Repeat("[", n) + strings.Repeat("]", n), "before\n" + strings.Repeat("[", n) + strings.Repeat("]", n) + "\ntrue\n"
		}, lo: 1000, hi: 100000, max: 10050, jsonErr: true},
		{name: "JSON object nesting, printed and serialised", build: func(n int) (string, string, string) {
			return `BEGIN { print "before" } BEGINFILE { print $; print json($).length() > 0 }`, strings.Repeat(`{"a":`, n) + "1" + strings.Repeat("}", n), "before\n" + strings.Repeat(`{"a": `, n) + "1" + strings.Repeat("}", n) + "\ntrue\n"
		}, lo: 1000, hi: 100000, max: 10050, jsonErr: true},
		// the limit belongs to the input, whatever the program does with it: programs that never look at a record, and a root selector
		{name: "JSON array nesting under a program of BEGIN rules only", build: func(n int) (string, string, string) {
			return `BEGIN { print "before" }`, strings.Repeat("[", n) + strings.Repeat("]", n), "before\n"
		}, lo: 1000, hi: 100000, max: 10050, jsonErr: true},
		{name: "JSON object nesting under BEGIN and END rules only", build: func(n int) (string, string, string) {
			return `BEGIN { print "before" } END { print "end" }`, strings.Repeat(`{"a":`, n) + "1" + strings.Repeat("}", n), "before\nend\n"
		}, lo: 1000, hi: 100000, max: 10050, jsonErr: true},
		{name: "JSON array nesting under a root selector", build: func(n int) (string, string, string) {
			return `BEGIN { print "before" } END { print "end" }` + "\x03$.k", `{"k": ` + strings.Repeat("[", n-1) + "1" + strings.Repeat("]", n-1) + "}", "before\nend\n"
		}, lo: 1000, hi: 100000, max: 10050, jsonErr: true},
		{name: "JSON object nesting", build: func(n int) (string, string, string) {
			return `BEGIN { print "before" } BEGINFILE { print "read" }`, strings.Repeat(`{"a":`, n) + "1" + strings.Repeat("}", n), "before\nread\n"
		}, lo: 1000, hi: 100000, max: 10050, jsonErr: true},
	}
}

type c20Outcome struct {
	Class  string `json:"class"` // ok, refused, bad
	Why    string `json:"why,omitempty"`
	Stdout string `json:"stdout,omitempty"`
	Stderr string `json:"stderr,omitempty"`
	Exit   int    `json:"exit"`
}

// c20Exec runs the binary under `ulimit -v`. The program and input travel through files.
var c20Ctx *fw.Ctx

func c20Exec(prog, input string) (stdout, stderr string, exit int) {
	dir := filepath.Join(fw.WorkDir(), fmt.Sprintf("c20-%d", os.Getpid()))
	os.MkdirAll(dir, 0o755)
	pf, inf := filepath.Join(dir, "p.jqawk"), filepath.Join(dir, "in.json")
	os.WriteFile(inf, []byte(input), 0o644)
	// root selectors travel behind the program, each after a \x03
	parts := strings.Split(prog, "\x03")
	os.WriteFile(pf, []byte(parts[0]), 0o644)
	script := `ulimit -v 8000000; b="$0"; p="$1"; i="$2"; shift 2; exec "$b" -f "$p" "$@" < "$i"`
	args := []string{"-c", script, fw.JqawkBin(), pf, inf}
	for _, sel := range parts[1:] {
		args = append(args, "-r", sel)
	}
	cmd := exec.Command("/bin/sh", args...)
	// a case normally takes well under a second; two minutes only stop a run whose limit is gone and that would otherwise
	// go on until memory is exhausted. Expiry is reported as its own class, never silently.
	so, se, ex, timedOut := runChild(c20Ctx, cmd, "", 120*time.Second)
	if timedOut {
		return so, se + "\nverif: stopped after 120 s", -9
	}
	return so, se, ex
}

func c20Classify(stdout, stderr string, exit int, want string, jsonErr bool) c20Outcome {
	o := c20Outcome{Stdout: clip(stdout), Stderr: clip(stderr), Exit: exit}
	if exit == -9 {
		o.Class, o.Why = "bad", "neither a value nor a refusal within 120 s (a case normally takes under a second): the step is not bounded"
		return o
	}
	for _, bad := range []string{"panic:", "goroutine ", "fatal error", "SIGSEGV", "signal:"} {
		if strings.Contains(stderr, bad) {
			o.Class, o.Why = "bad", "the process died with a Go runtime crash"
			return o
		}
	}
	switch {
	case exit == 0 && stdout == want:
		o.Class = "ok"
	case exit == 0:
		o.Class, o.Why = "bad", "status 0 but not the value"
	case exit < 0 || exit > 2:
		o.Class, o.Why = "bad", "the process did not exit by itself"
	case !strings.HasPrefix(stdout, "before\n") || stdout != "before\n":
		o.Class, o.Why = "bad", "the output printed before the refusal is not kept exactly"
	case jsonErr && !strings.Contains(stderr, "could not parse"):
		o.Class, o.Why = "bad", "not reported as a JSON input error"
	case !jsonErr && !strings.Contains(stderr, "runtime error"):
		o.Class, o.Why = "bad", "not reported as a runtime error"
	default:
		o.Class = "refused"
	}
	return o
}

type c20Spec struct {
	Form   string `json:"form"` // sweep, single
	Family int    `json:"family"`
	N      int    `json:"n,omitempty"`
	Lo     int    `json:"lo,omitempty"`
	Hi     int    `json:"hi,omitempty"`
	Step   int    `json:"step,omitempty"`
	Prog   string `json:"prog,omitempty"`
	Want   string `json:"want,omitempty"`
}

func c20Run(c *fw.Ctx, f c20Family, n int) c20Outcome {
	prog, input, want := f.build(n)
	so, se, ex := c20Exec(prog, input)
	c.Evals++
	c.Traces++
	c.Transitions++
	return c20Classify(so, se, ex, want, f.jsonErr)
}

// c20Threshold finds the refusal point by bisection and checks its position.
func c20Threshold(c *fw.Ctx, fi int) (int, *fw.Violation) {
	f := c20Families()[fi]
	bad := func(what string, n int, o c20Outcome) *fw.Violation {
		p, _, _ := f.build(n)
		return &fw.Violation{What: what, Detail: map[string]any{"family": f.name, "n": n, "program": clip(p), "outcome": o}}
	}
	lo, hi := 1, f.max
	ol := c20Run(c, f, lo)
	if ol.Class != "ok" {
		return 0, bad("the smallest case does not work: "+ol.Why, lo, ol)
	}
	oh := c20Run(c, f, hi)
	if oh.Class == "bad" {
		return 0, bad("beyond the limit: "+oh.Why, hi, oh)
	}
	if oh.Class == "ok" {
		if f.jsonErr {
			// the decoder limit may lie above the dense sweep: look further out
			for _, n := range []int{100000, 1000000} {
				if o := c20Run(c, f, n); o.Class == "refused" {
					return f.max, nil
				} else if o.Class == "bad" {
					return 0, bad("beyond the limit: "+o.Why, n, o)
				}
			}
		}
		return 0, bad("nothing is refused up to the end of the sweep", hi, oh)
	}
	for hi-lo > 1 {
		mid := (lo + hi) / 2
		o := c20Run(c, f, mid)
		switch o.Class {
		case "ok":
			lo = mid
		case "refused":
			hi = mid
		default:
			return 0, bad("around the limit: "+o.Why, mid, o)
		}
	}
	c.State(fmt.Sprintf("%s: works up to %d, refused from %d", f.name, lo, hi))
	if !(hi > f.lo && hi <= f.hi) {
		return 0, bad(fmt.Sprintf("the refusal point %d is outside (%d, %d]", hi, f.lo, f.hi), hi, c20Outcome{})
	}
	if f.exact > 0 && lo != f.exact {
		return 0, bad(fmt.Sprintf("the largest accepted value is %d, documented %d", lo, f.exact), lo, c20Outcome{})
	}
	return hi, nil
}

// c20Sweep checks every n of ns: ok below the refusal point, refused from it on.
func c20Sweep(c *fw.Ctx, fi int, ns []int, t int) *fw.Violation {
	f := c20Families()[fi]
	for _, n := range ns {
		o := c20Run(c, f, n)
		want := "ok"
		if n >= t {
			want = "refused"
		}
		if o.Class != want {
			p, _, _ := f.build(n)
			what := fmt.Sprintf("not monotone around the limit: n=%d is %s although the refusal point is %d", n, o.Class, t)
			if o.Class == "bad" {
				what = o.Why
			}
			return &fw.Violation{What: what, Detail: map[string]any{"family": f.name, "n": n, "program": clip(p), "outcome": o}}
		}
	}
	return nil
}

// single cases: index magnitudes, reads, negative and fractional indices, unbounded recursion
func c20Singles() []c20Spec {
	var out []c20Spec
	add := func(prog, want string) { out = append(out, c20Spec{Form: "single", Prog: prog, Want: want}) }
	huge := "1" + strings.Repeat("0", 300)
	for _, idx := range []string{"1048575", "1048576"} {
		var n int
		fmt.Sscan(idx, &n)
		add(fmt.Sprintf(`BEGIN { print "before"; a = []; a[%s] = 1; print a.length(), a[%s], a[0] }`, idx, idx), fmt.Sprintf("before\n%d 1 null\n", n+1))
	}
	for _, idx := range []string{"1048577", "1048578", "2097152", "4294967296", "4294967297", "9007199254740993", "9223372036854775807", "9223372036854775808", "18446744073709551616", huge} {
		add(fmt.Sprintf(`BEGIN { print "before"; a = []; a[%s] = 1; print "after" }`, idx), "REFUSED")
		add(fmt.Sprintf(`BEGIN { print "before"; a = [5]; x = a[%s]; print x is null || x is unknown, a.length() }`, idx), "before\ntrue 1\n\x01REFUSED")
	}
	for k := 1; k <= 62; k++ {
		v := uint64(1) << uint(k)
		for _, d := range []int64{-1, 0, 1} {
			n := int64(v) + d
			if n <= 1048576 {
				continue
			}
			add(fmt.Sprintf(`BEGIN { print "before"; a = []; a[%d] = 1; print "after" }`, n), "REFUSED")
		}
	}
	// a huge index on an array that does not exist yet and is itself a member / element of something else
	for _, idx := range []string{"1048577", "4000000000", "35184372088832", "9007199254740993", "9223372036854775807"} {
		add(fmt.Sprintf(`BEGIN { print "before"; o.items[%s] = 1; print "after" }`, idx), "REFUSED")
		add(fmt.Sprintf(`BEGIN { print "before"; a[0][%s] = 1; print "after" }`, idx), "REFUSED")
		add(fmt.Sprintf(`BEGIN { print "before"; o.p.q[%s].z = 1; print "after" }`, idx), "REFUSED")
		add(fmt.Sprintf(`{ print "before"; $.seen[%s] = true; print "after" }`, idx), "REFUSED:input2")
		add(fmt.Sprintf(`BEGIN { print "before"; o.items[%s]++; print "after" }`, idx), "REFUSED")
	}
	// the limit bounds the index reached, not the size of one step
	add(`BEGIN { print "before"; a = []; a[1000000] = "x"; a[1500000] = "y"; print "after" }`, "REFUSED")
	add(`BEGIN { print "before"; a = []; for (i = 1; i <= 4; i++) { a[i * 400000] = i } print "after" }`, "REFUSED")
	add(`BEGIN { print "before"; a = [0, 0]; a[1048578] = 1; print "after" }`, "REFUSED")
	add(`{ print "before"; $.xs[1048577] = 1; print "after" }`, "REFUSED:input2")
	add(`BEGIN { print "before"; a = []; a[1048576] = 1; a.push(2); a.push(3); print a.length() }`, "before\n1048579\n")
	add(`BEGIN { print "before"; a = [1, 2]; a[-1] = 9; a[0.9] = 8; a[-0.5] = 7; print a, a[1.5], a[-2] }`, "before\n[7, 9] 9 7\n")
	add(`BEGIN { print "before"; a = [1, 2]; a[-3] = 9; print "after" }`, "REFUSED")
	add(`BEGIN { print "before"; a = []; print a[-1] }`, "REFUSED")
	add(`function r() { return r() } BEGIN { print "before"; r(); print "after" }`, "REFUSED")
	add(`function r(n) { return q(n) + 1 } function q(n) { return r(n) * 2 } BEGIN { print "before"; r(1); print "after" }`, "REFUSED")
	add(`function r(n) { return match (n) { _ => r(n + 1) } } BEGIN { print "before"; r(1); print "after" }`, "REFUSED")
	add(`function r(n) { for (i = 0; i < 1; i++) { if (1) { r(n) } } } { print "before"; r(1); print "after" }`, "REFUSED:input")
	add(`BEGIN { print "before"; printf("%99999999999999999999s", "x"); print "after" }`, "REFUSED")
	add(`BEGIN { print "before"; printf("%4000s|%-3000v|", "x", 1); print "" }`, "before\n"+strings.Repeat(" ", 3999)+"x|1"+strings.Repeat(" ", 2999)+"|\n")
	add(`BEGIN { print "before"; a = []; for (i = 0; i < 1000; i++) a.push(i); print a.length(), a[999]; print r(1000) } function r(n) { if (n <= 0) return 0; return 1 + r(n - 1) }`, "before\n1000 999\n1000\n")
	// root selectors are evaluated under the same limits: the few frames a selector can open work normally
	doc := "\x02" + `{"kind": "a", "items": [1, 2]}`
	add(`{ print "before"; print $ }`+"\x03"+`match ($.kind) { "a" => $.items }`+doc, "before\n1\nbefore\n2\n")
	add(`{ print "before"; print $ }`+"\x03"+`match ($.kind) { "b" => 0, k => match (k) { "a" => match ($.items) { [x, y] => [y, x] } } }`+doc, "before\n2\nbefore\n1\n")
	add(`function r(n) { if (n <= 0) return 0; return 1 + r(n - 1) } { print "before"; print r(3000 + $) }`+"\x03"+`match ($.kind) { "a" => $.items }`+doc, "before\n3001\nbefore\n3002\n")
	add(`{ print "before"; $.deep[1048577] = 1; print "after" }`+"\x03"+`match (1) { 1 => [$] }`+doc, "REFUSED")
	// index values that are no count at all: NaN and the infinities, reached through num() and by arithmetic
	for _, idx := range []string{`num("NaN")`, `num("Inf")`, `num("-Inf")`, `(num("Inf") - num("Inf"))`, `num("1e308") * 10`, `num($.bucket)`} {
		add(`{ print "before"; a = [1, 2]; a[`+idx+`] = 1; print "after" }`+"\x02"+`[{"bucket": "NaN"}]`, "REFUSED")
		add(`{ print "before"; a = [1, 2]; x = a[`+idx+`]; print "after" }`+"\x02"+`[{"bucket": "NaN"}]`, "REFUSED")
		add(`{ print "before"; hist[3] = 0; hist[`+idx+`]++; print "after" }`+"\x02"+`[{"bucket": "NaN"}]`, "REFUSED")
	}
	add(`function bump(num) { return num + 1 } function walk(n) { if (n == 0) { return bump(num("41")) } return walk(n - 1) } BEGIN { print "before"; print walk(0), walk(60), walk(100), walk(1000), walk(4000) }`, "before\n42 42 42 42 42\n")
	// the recursive call sits deep inside one expression or statement nest: the frames are few, the nesting inside them is not
	// (repair row 30: before it these ended in Go's stack limit)
	for _, nest := range [][2]string{{strings.Repeat("1 + (", 100), strings.Repeat(")", 100)}, {strings.Repeat("[", 60), strings.Repeat("]", 60) + strings.Repeat("[0]", 60)}, {strings.Repeat("id(", 200), strings.Repeat(")", 200)}, {strings.Repeat("1 + (", 1000), strings.Repeat(")", 1000)}} {
		add(`function id(x) { return x } function r(n) { return `+nest[0]+`r(n + 1)`+nest[1]+` } BEGIN { print "before"; r(0); print "after" }`, "REFUSED")
	}
	add(`function r(n) { `+strings.Repeat("if (1) { ", 150)+`r(n + 1)`+strings.Repeat(" }", 150)+` } BEGIN { print "before"; r(0); print "after" }`, "REFUSED")
	add(`function r(n) { `+strings.Repeat("for (v in [1]) { ", 300)+`r(n + 1)`+strings.Repeat(" }", 300)+` } BEGIN { print "before"; r(0); print "after" }`, "REFUSED")
	add(`function r(n) { if (n <= 0) return 0; return 1 + `+strings.Repeat("(0 + ", 20)+`r(n - 1)`+strings.Repeat(")", 20)+` } BEGIN { print "before"; print r(4000) }`, "before\n4000\n")
	add(`BEGIN { print "before"; print `+strings.Repeat("(1 + ", 100000)+`0`+strings.Repeat(")", 100000)+` }`, "before\n100000\n")
	// a width beyond the maximum in the second / third directive, after directives within it
	for _, f := range []string{`"%%-8s %%%ds|"`, `"%%3f%%%dv"`, `"%%5s%%-%ds"`, `"%%s %%s %%0%df"`} {
		for _, w := range []string{"65537", "70000", "99999999999"} {
			var n int
			fmt.Sscan(w, &n)
			add(`BEGIN { print "before"; printf(`+fmt.Sprintf(f, n)+`, "a", "b", 1.5); print "after" }`, "REFUSED")
		}
	}
	add(`BEGIN { print "before"; printf("%-8s %65536s|", "a", "b"); print "" }`, "before\na        "+strings.Repeat(" ", 65535)+"b|\n")
	// everything up to the limit works every time: deep recursion once per element, many elements
	rec := `function r(n) { if (n <= 0) return 0; return 1 + r(n - 1) } function m(n) { return match (n) { 0 => 0, k => 1 + m(k - 1) } } `
	elems := "[" + strings.TrimSuffix(strings.Repeat("1,", 12), ",") + "]"
	add(rec+`{ print "before"; print r(1000), r(3000), m(1000) }`+"\x02"+elems, strings.Repeat("before\n1000 3000 1000\n", 12))
	many := "[" + strings.TrimSuffix(strings.Repeat("1,", 400), ",") + "]"
	add(rec+`{ c = c + m(100) + r(200) } END { print "before"; print c }`+"\x02"+many, "before\n120000\n")
	return out
}

func c20Single(c *fw.Ctx, s c20Spec) *fw.Violation {
	input := ""
	want := s.Want
	if strings.HasSuffix(want, ":input") {
		want = strings.TrimSuffix(want, ":input")
		input = "[1]"
	}
	if strings.HasSuffix(want, ":input2") {
		want = strings.TrimSuffix(want, ":input2")
		input = `{"xs":[1,2,3]}`
	}
	prog := s.Prog
	if i := strings.Index(prog, "\x02"); i >= 0 {
		prog, input = prog[:i], prog[i+1:] // the input travels with the program
	}
	so, se, ex := c20Exec(prog, input)
	c.Evals++
	c.Transitions++
	alts := strings.Split(want, "\x01")
	var last c20Outcome
	for _, w := range alts {
		var o c20Outcome
		if w == "REFUSED" {
			o = c20Classify(so, se, ex, "\x00never", false)
			if o.Class == "refused" {
				c.Outcome("refused")
				return nil
			}
		} else {
			o = c20Classify(so, se, ex, w, false)
			if o.Class == "ok" {
				c.Outcome("value")
				return nil
			}
		}
		last = o
	}
	why := last.Why
	if why == "" {
		why = "expected " + want
	}
	return &fw.Violation{What: "limit case: " + why, Detail: map[string]any{"program": clip(s.Prog), "want": clip(want), "outcome": last}}
}

// c20OneLimit: the limit is one limit on frames, whatever opens them. Every level of "direct recursion" opens one frame, of
// "recursion through a match body" two (the call and the arm), of "two nested match arms" three: the refusal points must give
// the same number of frames (within the few frames the entry adds).
func c20OneLimit(c *fw.Ctx) *fw.Violation {
	per := map[string]int{"direct recursion": 1, "mutual recursion of three": 1, "recursion through a match body": 2, "recursion through two nested match arms": 3, "recursion through an argument": 1, "recursion through a for-in body": 1}
	lo, hi, loName, hiName := 1<<30, 0, "", ""
	got := map[string]int{}
	for fi, f := range c20Families() {
		k, ok := per[f.name]
		if !ok {
			continue
		}
		t, v := c20Threshold(c, fi)
		if v != nil {
			return v
		}
		frames := t * k
		got[f.name] = frames
		if frames < lo {
			lo, loName = frames, f.name
		}
		if frames > hi {
			hi, hiName = frames, f.name
		}
	}
	c.State(fmt.Sprintf("frames at the refusal point: between %d and %d over %d shapes", lo, hi, len(got)))
	if hi-lo > 8 {
		return &fw.Violation{What: fmt.Sprintf("the nesting limit is not one limit: %q is refused at about %d frames, %q at about %d", loName, lo, hiName, hi), Detail: map[string]any{"frames at the refusal point": got}}
	}
	return nil
}

func init() {
	nf := len(c20Families())
	register(&fw.Prop{
		ID: "C20",
		Rule: "one-dimensional sweeps across each limit on the real binary in a child process under ulimit -v: recursion depth for 13 shapes (inside a right-nested expression, inside literals / loops / conditionals, direct, mutual of two and three, through a match body, an argument, a for-in body, from a pattern rule, from BEGINFILE, entered from inside a match arm, through two nested arms, through block-bodied arms), array store index directly, through a nested pending path and on an array that already has elements, printf width of both signs, JSON array and object nesting (read only, printed whole + serialised with json(), under programs of BEGIN / END rules only, under a root selector); " +
			"the refusal point is found by bisection, must lie in the documented range (a few thousand frames; about a million; exactly 65536; the decoder's limit) and the sweep checks monotonicity: the exact value below it, an ordinary runtime / JSON error with the earlier output kept and a small exit status from it on; " +
			"the refusal points of six recursion shapes must amount to the same number of frames (one frame per level of a direct recursion, two per level through a match body, three through two nested arms); plus single cases: index magnitudes 2^k and 2^k +- 1 up to 2^62, 2^63, 2^64, 10^300, reads past the limit, negative and fractional indices, unbounded recursion of four shapes, 20-digit widths, and the things that must still work (a width of a few thousand, a thousand-element array, recursion a thousand deep, match expressions nested in root selectors); states = refusal points found; non-trivial = same",
		Plan: func(t fw.Tier) int { return nf*8 + 1 },
		Bound: func(t fw.Tier) string {
			if t == fw.Thorough {
				return "every n of each sweep range (recursion 1..12000, widths 1..70000, nesting 1..10050; index: every n within 4096 of the refusal point, 0..4096 and every 997th)"
			}
			return "every n within 48 of each refusal point and a grid of ~150 further values per family"
		},
		Assumptions: []string{"the binary's diagnostics contain 'runtime error' / 'could not parse' for the two error kinds", "ulimit -v 8 GB turns runaway allocation into a crash of the child instead of the sandbox"},
		MaxWorkers:  14,
		Run: func(c *fw.Ctx, u int) {
			c20Ctx = c
			defer os.RemoveAll(filepath.Join(fw.WorkDir(), fmt.Sprintf("c20-%d", os.Getpid())))
			if u == nf*8 {
				c.Do(func() any { return c20Spec{Form: "onelimit"} }, func() *fw.Violation { return c20OneLimit(c) })
				for _, s := range c20Singles() {
					s := s
					c.Do(func() any { return s }, func() *fw.Violation { return c20Single(c, s) })
				}
				return
			}
			fi, part := u/8, u%8
			f := c20Families()[fi]
			var t int
			var tv *fw.Violation
			c.Do(func() any { return c20Spec{Form: "threshold", Family: fi} }, func() *fw.Violation { t, tv = c20Threshold(c, fi); return tv })
			if tv != nil || t == 0 {
				return
			}
			// the values this part sweeps
			set := map[int]bool{}
			index := strings.HasPrefix(f.name, "array store")
			if c.Thorough() {
				if index {
					for n := 0; n <= 4096; n++ {
						set[n] = true
					}
					for n := t - 4096; n <= t+4096; n++ {
						set[n] = true
					}
					for n := 1; n <= f.max; n += 997 {
						set[n] = true
					}
				} else {
					for n := 1; n <= f.max; n++ {
						set[n] = true
					}
				}
			} else {
				w, grid := 48, 150
				if index {
					w, grid = 20, 50 // every run below the limit allocates up to a million cells
				}
				if strings.Contains(f.name, "recursion") {
					w, grid = 32, 40 // a run near the limit costs ~0.2 s (frame lookup is linear in the depth)
				}
				for n := t - w; n <= t+w; n++ {
					set[n] = true
				}
				step := f.max / grid
				if step < 1 {
					step = 1
				}
				for n := 1; n <= f.max; n += step {
					set[n] = true
				}
				for n := 1; n <= 16; n++ {
					set[n] = true
				}
			}
			var ns []int
			for n := range set {
				if n >= 1 && n <= f.max && (!index || n < t+5000) {
					ns = append(ns, n)
				}
			}
			sort.Ints(ns)
			var mine []int
			for i, n := range ns {
				if i%8 == part {
					mine = append(mine, n)
				}
			}
			const chunk = 64
			for lo := 0; lo < len(mine); lo += chunk {
				sub := mine[lo:min(lo+chunk, len(mine))]
				c.StatesN += int64(len(sub))
				c.Do(func() any { return c20Spec{Form: "sweep", Family: fi, Lo: sub[0], Hi: sub[len(sub)-1]} }, func() *fw.Violation { return c20Sweep(c, fi, sub, t) })
				if c.Expired() {
					return
				}
			}
		},
		Finish: func(c *fw.Ctx) {
			for s := range c.States {
				c.NonTrivial(s)
			}
		},
		Replay: func(c *fw.Ctx, raw json.RawMessage) *fw.Violation {
			var s c20Spec
			if !unmarshal(raw, &s) {
				return nil
			}
			c20Ctx = c
			defer os.RemoveAll(filepath.Join(fw.WorkDir(), fmt.Sprintf("c20-%d", os.Getpid())))
			switch s.Form {
			case "single":
				return c20Single(c, s)
			case "onelimit":
				return c20OneLimit(c)
			case "threshold":
				_, v := c20Threshold(c, s.Family)
				return v
			}
			t, v := c20Threshold(c, s.Family)
			if v != nil {
				return v
			}
			var ns []int
			for n := s.Lo; n <= s.Hi; n++ {
				ns = append(ns, n)
			}
			return c20Sweep(c, s.Family, ns, t)
		},
	})
}
