package props

import (
	"encoding/json"
	"fmt"
	"math"
	"strconv"
	"strings"

	"verif/mc/drive"
	"verif/mc/fw"
	"verif/mc/refsem"
)

// C18: printf emits exactly the format, each directive replaced and padded.

var c18Syms = []byte{'%', 's', 'f', 'v', 'd', '-', '0', '3', 'x'}

type c18Args struct {
	text string
	vals []refsem.Value
}

var c18ArgLists = []c18Args{
	{``, nil},
	{`, "ab"`, []refsem.Value{refsem.Str("ab")}},
	{`, 1.5`, []refsem.Value{refsem.Num(1.5)}},
	{`, "ab", 1.5`, []refsem.Value{refsem.Str("ab"), refsem.Num(1.5)}},
	{`, 1.5, "ab"`, []refsem.Value{refsem.Num(1.5), refsem.Str("ab")}},
	{`, "abcd", "e"`, []refsem.Value{refsem.Str("abcd"), refsem.Str("e")}},
	{`, [1, "a"]`, []refsem.Value{refsem.NewArr(refsem.Num(1), refsem.Str("a"))}},
	// fewer characters than bytes: a width between the two counts tells padding by bytes from padding by characters
	{`, "äö", "é"`, []refsem.Value{refsem.Str("äö"), refsem.Str("é")}},
	{`, null`, []refsem.Value{refsem.Null()}},
	{`, -12.25, "x", true`, []refsem.Value{refsem.Num(-12.25), refsem.Str("x"), refsem.Bool(true)}},
	{`, true`, []refsem.Value{refsem.Bool(true)}},
	// both zeros in one call, in both orders: each directive renders its own argument
	{`, -0, 0, -0`, []refsem.Value{refsem.Num(math.Copysign(0, -1)), refsem.Num(0), refsem.Num(math.Copysign(0, -1))}},
	{`, 0, -0, 0`, []refsem.Value{refsem.Num(0), refsem.Num(math.Copysign(0, -1)), refsem.Num(0)}},
	// whole numbers that are not small integers: negative zero, beyond 2^53, beyond 2^63
	{`, -0, 9007199254740993, 10000000000000000000`, []refsem.Value{refsem.Num(math.Copysign(0, -1)), refsem.Num(9007199254740993), refsem.Num(1e19)}},
	// doubles no numeral denotes, reached through num(): rendered and padded like any other number
	{`, num("NaN"), num("-Inf")`, []refsem.Value{refsem.Num(math.NaN()), refsem.Num(math.Inf(-1))}},
	{`, num("Inf"), num("NaN")`, []refsem.Value{refsem.Num(math.Inf(1)), refsem.Num(math.NaN())}},
	{`, {k: 1}, "s"`, []refsem.Value{func() refsem.Value { o := refsem.NewObj(); o.O.Set("k", refsem.Num(1)); return o }(), refsem.Str("s")}},
}

// kinds whose rendering is not fixed but which %s and %f must still refuse (checked for refusal only)
var c18RefuseArgs = []string{`/a+b/`, `printf`, `un`}

type c18Spec struct {
	Fmt  string `json:"fmt"`
	Args int    `json:"args"`
	Text string `json:"program,omitempty"`
}

// a format need not be valid UTF-8: it travels to the replay file as fw.Text
func (s c18Spec) MarshalJSON() ([]byte, error) {
	type plain c18Spec
	return json.Marshal(struct {
		plain
		Fmt fw.Text `json:"fmt"`
	}{plain(s), fw.Text(s.Fmt)})
}

func (s *c18Spec) UnmarshalJSON(b []byte) error {
	type plain c18Spec
	aux := struct {
		*plain
		Fmt fw.Text `json:"fmt"`
	}{plain: (*plain)(s)}
	if err := json.Unmarshal(b, &aux); err != nil {
		return err
	}
	s.Fmt = string(aux.Fmt)
	return nil
}

func c18Check(c *fw.Ctx, f string, ai int) *fw.Violation {
	al := c18ArgLists[ai]
	prog := `BEGIN { print "before"; printf("` + f + `"` + al.text + `); print "|after" }`
	s := drive.Spec{Program: prog}
	o := run(c, s)
	c.Traces++
	c.Transitions++
	args := append([]refsem.Value{refsem.Str(f)}, al.vals...)
	out, ok := refsem.Printf(args, nil)
	if ok {
		c.Outcome("formatted")
		return expect(s, o, "before\n"+out+"|after\n", drive.KNone, "")
	}
	c.Outcome("refused")
	return expect(s, o, "before\n", drive.KRuntime, "a refused printf writes nothing")
}

func c18Len(c *fw.Ctx) int { return c.Pick(6, 7) }

func c18Class(f string) string {
	// directive-shape class of a format: each maximal %... group abstracted
	var sb strings.Builder
	for i := 0; i < len(f); i++ {
		if f[i] != '%' {
			continue
		}
		sb.WriteByte('%')
		j := i + 1
		for j < len(f) && (f[j] == '-' || f[j] == '0' || f[j] == '3') {
			if f[j] == '-' {
				sb.WriteByte('-')
			} else if f[j] == '0' && (f[j-1] == '%' || f[j-1] == '-') {
				sb.WriteByte('0')
			} else {
				sb.WriteByte('w')
			}
			j++
		}
		if j < len(f) {
			sb.WriteByte(f[j])
		} else {
			sb.WriteByte('$')
		}
		i = j
	}
	return sb.String()
}

func init() {
	register(&fw.Prop{
		ID: "C18",
		Rule: "every format string of length <= L over the symbols % s f v d - 0 3 x, times 15 argument lists, plus a width sweep across the 65536 limit, width numerals beyond every integer type, bytes that are not ASCII where the directive letter belongs; format literals of 65 535 ... 131 080 bytes; 6 programs whose printf runs the same printf again inside a later argument, once per record; printf lists read, effect, read of one scalar location (the printf programs of C09's copy-time family); " +
			"a state is a directive-shape class of a format (e.g. %-ws%0wv); non-trivial = classes the model formats successfully with at least one argument list; each case compares exact stdout and outcome with the reference formatter",
		Plan: func(t fw.Tier) int { return 82 },
		Bound: func(t fw.Tier) string {
			if t == fw.Thorough {
				return "all formats of length <= 7 over 9 symbols x 12 argument lists; widths -65540..65540 swept"
			}
			return "all formats of length <= 6 over 9 symbols x 12 argument lists; widths -65540..65540 swept"
		},
		Assumptions: []string{"reference formatter refsem.Printf written from DESIGN.md 3.15", "string form of numbers is strconv 'f' -1 (checked separately by C17)"},
		Run: func(c *fw.Ctx, u int) {
			L := c18Len(c)
			n := len(c18Syms)
			if u == 81 {
				for _, f := range []string{"", "%", "s", "f", "v", "d", "-", "0", "3", "x"} {
					for ai := range c18ArgLists {
						f, ai := f, ai
						c.Do(func() any { return c18Spec{Fmt: f, Args: ai} }, func() *fw.Violation { return c18Check(c, f, ai) })
					}
				}
				c18Sweep(c)
				// the arguments are rendered as they were when each was evaluated (programs shared with C09)
				copyTimeRun(c, "printf")
				// a format literal longer than any 16-bit length: all of it is written, every directive replaced
				for _, n := range []int{65535, 65536, 70000, 131080} {
					n := n
					c.Do(func() any { return map[string]any{"longformat": n} }, func() *fw.Violation { return c18LongFormat(c, n) })
				}
				for i, pc := range c18Recursive() {
					pc, i := pc, i
					c.Do(func() any { return map[string]any{"recursive": i + 1} }, func() *fw.Violation { return pc.mustCheck(c, "recursive printf") })
				}
				for _, rev := range []bool{false, true} {
					rev := rev
					c.Do(func() any { return map[string]any{"stream": true, "rev": rev} }, func() *fw.Violation { return c18Stream(c, rev) })
				}
				return
			}
			prefix := string([]byte{c18Syms[u/n], c18Syms[u%n]})
			buf := make([]byte, 0, L)
			var rec func(depth int)
			rec = func(depth int) {
				f := prefix + string(buf)
				cls := c18Class(f)
				c.State(cls)
				for ai := range c18ArgLists {
					ai := ai
					c.Do(func() any {
						return c18Spec{f, ai, `BEGIN { print "before"; printf("` + f + `"` + c18ArgLists[ai].text + `); print "|after" }`}
					}, func() *fw.Violation {
						v := c18Check(c, f, ai)
						return v
					})
				}
				if _, ok := refsem.Printf(append([]refsem.Value{refsem.Str(f)}, c18ArgLists[9].vals...), nil); ok && strings.Contains(cls, "%") {
					c.NonTrivial(cls)
				}
				if depth == L-2 {
					return
				}
				for _, b := range c18Syms {
					buf = append(buf, b)
					rec(depth + 1)
					buf = buf[:len(buf)-1]
				}
			}
			rec(0)
		},
		Replay: func(c *fw.Ctx, raw json.RawMessage) *fw.Violation {
			if v, ok := copyTimeReplay(c, raw); ok {
				return v
			}
			var lf struct {
				N int `json:"longformat"`
			}
			if json.Unmarshal(raw, &lf) == nil && lf.N > 0 {
				return c18LongFormat(c, lf.N)
			}
			var rc struct {
				Recursive int `json:"recursive"`
			}
			if json.Unmarshal(raw, &rc) == nil && rc.Recursive > 0 {
				v, _, _ := c18Recursive()[rc.Recursive-1].check(c)
				return v
			}
			var pr struct {
				Program string  `json:"program"`
				Fmt     *string `json:"fmt"`
			}
			if json.Unmarshal(raw, &pr) == nil && pr.Program != "" && pr.Fmt == nil {
				s := drive.Spec{Program: pr.Program}
				return expect(s, run(c, s), "before\n", drive.KRuntime, "%s / %f given a regex, a function or an unset value")
			}
			var st struct {
				Stream bool `json:"stream"`
				Rev    bool `json:"rev"`
			}
			if json.Unmarshal(raw, &st) == nil && st.Stream {
				return c18Stream(c, st.Rev)
			}
			var s c18Spec
			if !unmarshal(raw, &s) {
				return nil
			}
			return c18Check(c, s.Fmt, s.Args)
		},
	})
}

// c18Stream: printf as ONE call site whose format and arguments come from the elements of the input (every format of
// length <= 4 that the model formats with the arguments ("ab", 1.5), in order and reversed, then one that fails).
func c18LongFormat(c *fw.Ctx, n int) *fw.Violation {
	pad := strings.Repeat("=", n-12)
	f := pad + "[%5s|%-4f]"
	want, ok := refsem.Printf([]refsem.Value{refsem.Str(f), refsem.Str("ab"), refsem.Num(1.5)}, nil)
	if !ok {
		panic("c18: long format refused by the reference")
	}
	s := drive.Spec{Program: "BEGIN { printf(\"" + f + "\", \"ab\", 1.5) }", Budget: 100000}
	v := expect(s, run(c, s), want, drive.KNone, fmt.Sprintf("a format of %d bytes", len(f)))
	if v != nil {
		if d, ok := v.Detail.(detail); ok {
			d.Program = clip(d.Program)
			v.Detail = d
		}
	}
	c.Traces++
	return v
}

// c18Recursive: a printf whose later argument runs the same printf again (recursion through the call site), entered once per
// record: every call substitutes its own arguments.
func c18Recursive() []*progCase {
	n, f := refsem.V("n"), refsem.V
	chain := &refsem.Func{Name: "chain", Params: []string{"n"}, Body: refsem.Blk(
		&refsem.If{Cond: refsem.Bin("<=", n, refsem.N("0")), Then: refsem.Blk(&refsem.Return{X: refsem.S("end")})},
		refsem.Ex(refsem.CallE(f("printf"), refsem.S("%f -> %s|%5v\n"), n, refsem.CallE(f("chain"), refsem.Bin("-", n, refsem.N("1"))), refsem.Arr_(n))),
		&refsem.Return{X: refsem.Bin("+", refsem.S("node"), n)})}
	twice := &refsem.Func{Name: "twice", Params: []string{"n"}, Body: refsem.Blk(
		&refsem.If{Cond: refsem.Bin("<=", n, refsem.N("0")), Then: refsem.Blk(&refsem.Return{X: refsem.N("0")})},
		refsem.Ex(refsem.CallE(f("printf"), refsem.S("%3f,%f,%-3f;"), n, refsem.CallE(f("twice"), refsem.Bin("-", n, refsem.N("1"))), refsem.CallE(f("twice"), refsem.Bin("-", n, refsem.N("2"))))),
		&refsem.Return{X: refsem.Bin("*", n, refsem.N("10"))})}
	var out []*progCase
	for _, doc := range []string{`[2,3]`, `[1,1,3,2]`, "3 1\n[2]"} {
		out = append(out,
			&progCase{P: &refsem.Program{Funcs: []*refsem.Func{chain}, Rules: []*refsem.Rule{{Body: refsem.Blk(refsem.Pr(refsem.CallE(f("chain"), f("$"))))}}}, Files: []inFile{{"in.json", doc}}},
			&progCase{P: &refsem.Program{Funcs: []*refsem.Func{twice}, Rules: []*refsem.Rule{{Body: refsem.Blk(refsem.Pr(refsem.CallE(f("twice"), f("$"))))}}}, Files: []inFile{{"in.json", doc}}})
	}
	return out
}

func c18Stream(c *fw.Ctx, rev bool) *fw.Violation {
	var good []string
	bad := ""
	args := []refsem.Value{refsem.Str("ab"), refsem.Num(1.5)}
	var rec func(f string)
	rec = func(f string) {
		if _, ok := refsem.Printf(append([]refsem.Value{refsem.Str(f)}, args...), nil); ok {
			good = append(good, f)
		} else if bad == "" && len(f) == 3 {
			bad = f
		}
		if len(f) == 4 {
			return
		}
		for _, b := range c18Syms {
			rec(f + string(b))
		}
	}
	rec("")
	if rev {
		for i, j := 0, len(good)-1; i < j; i, j = i+1, j-1 {
			good[i], good[j] = good[j], good[i]
		}
	}
	good = append(good, bad)
	var sb, want strings.Builder
	sb.WriteByte('[')
	for i, f := range good {
		if i > 0 {
			sb.WriteByte(',')
		}
		sb.WriteString(`{"f":"` + f + `"}`)
		if out, ok := refsem.Printf(append([]refsem.Value{refsem.Str(f)}, args...), nil); ok {
			want.WriteString(out + "|\n")
		}
	}
	sb.WriteByte(']')
	s := drive.Spec{Program: `{ printf($.f, "ab", 1.5); print "|" }`, Files: []drive.File{{Name: "in.json", Data: sb.String()}}, Budget: 2_000_000}
	o := run(c, s)
	c.Traces++
	c.Transitions += int64(len(good))
	v := expect(s, o, want.String(), drive.KRuntime, "one printf call site over a sequence of formats")
	if v != nil {
		if d, ok := v.Detail.(detail); ok {
			d.Files = nil
			v.Detail = d
		}
	}
	return v
}

func c18Sweep(c *fw.Ctx) {
	widths := map[int]bool{}
	for w := -65540; w <= -65528; w++ {
		widths[w] = true
	}
	for w := 65528; w <= 65540; w++ {
		widths[w] = true
	}
	for w := -12; w <= 12; w++ {
		widths[w] = true
	}
	for k := 4; k <= 17; k++ {
		for d := -1; d <= 1; d++ {
			widths[(1<<k)+d] = true
			widths[-((1 << k) + d)] = true
		}
	}
	for _, w := range []int{99, 100, 999, 1000, 4000, 9999, 10000, 65535, 65536, 65537, 70000, 99999, 100000, 1000000} {
		widths[w] = true
		widths[-w] = true
	}
	ws := make([]int, 0, len(widths))
	for w := -1100000; w <= 1100000; w++ {
		if widths[w] {
			ws = append(ws, w)
		}
	}
	lead := []string{"", "0"}
	for _, w := range ws {
		for _, code := range []string{"s", "f", "v"} {
			for _, z := range lead {
				if z == "0" && w <= 0 {
					continue
				}
				f := "%" + z + strconv.Itoa(w) + code + "|"
				if w < 0 {
					f = "%" + strconv.Itoa(w) + code + "|"
				}
				ai := map[string]int{"s": 1, "f": 2, "v": 6}[code]
				c.State(fmt.Sprintf("width:%s:%s:%d", z, code, sign(w)))
				c.Do(func() any { return c18Spec{Fmt: f, Args: ai} }, func() *fw.Violation { return c18Check(c, f, ai) })
			}
		}
	}
	// width numerals no integer type holds (they must not wrap around into the allowed range), in every directive and sign
	for _, w := range []string{"18446744073709551621", "18446744073709551616", "36893488147419103237", "4294967301", "9223372036854775813", "99999999999999999999", "340282366920938463463374607431768211461"} {
		for _, code := range []string{"s", "f", "v"} {
			for _, pre := range []string{"", "-", "0"} {
				f := "[%" + pre + w + code + "]"
				ai := map[string]int{"s": 1, "f": 2, "v": 6}[code]
				c.State("width numeral beyond every integer type")
				c.Do(func() any { return c18Spec{Fmt: f, Args: ai} }, func() *fw.Violation { return c18Check(c, f, ai) })
			}
		}
	}
	// a byte that is not ASCII where the directive letter belongs: unknown, whatever its low bits spell
	for _, b := range []string{"\xf3", "\xe6", "\xf6", "\xa5", "\xe6\x97\xa5", "\xc3\xa9", "\x80", "\xff", "\xd3"} {
		for _, f := range []string{"%" + b, "a%5" + b + "|", "%-3" + b, "12%" + b + " (%f)", "%s%" + b} {
			for _, ai := range []int{1, 2, 3} {
				f, ai := f, ai
				c.State("non-ASCII byte as directive")
				c.Do(func() any { return c18Spec{Fmt: f, Args: ai} }, func() *fw.Violation { return c18Check(c, f, ai) })
			}
		}
	}
	// a directive that fails after a wide one: nothing of that printf may have been written
	for _, w := range []int{100, 5000, 8191, 8192, 8193, 9000, 16384, 40000, 65536} {
		for _, tail := range []string{" tail %s", "%d", "%", "%5", "%f"} {
			f := "head %" + strconv.Itoa(w) + "s" + tail
			c.State("wide then failing")
			c.Do(func() any { return c18Spec{Fmt: f, Args: 1} }, func() *fw.Violation { return c18Check(c, f, 1) })
			g := "%-" + strconv.Itoa(w) + "v" + tail
			c.Do(func() any { return c18Spec{Fmt: g, Args: 1} }, func() *fw.Violation { return c18Check(c, g, 1) })
		}
	}
	// %s and %f refuse every argument that is not a string / number, whatever its internal representation
	for _, a := range c18RefuseArgs {
		for _, f := range []string{"[%s]", "[%5s]", "[%f]", "[%-3f]", "%s%v", "x%f"} {
			prog := `BEGIN { print "before"; printf("` + f + `", ` + a + `); print "after" }`
			s := drive.Spec{Program: prog}
			c.Do(func() any { return map[string]string{"program": prog} }, func() *fw.Violation {
				o := run(c, s)
				c.Traces++
				return expect(s, o, "before\n", drive.KRuntime, "%s / %f given a regex, a function or an unset value")
			})
		}
	}
	// widths of 20 and more digits, and zero-padded width texts
	for _, wt := range []string{"00000000000000000005", "99999999999999999999", "18446744073709551616", "9223372036854775808", "-9223372036854775809", "0000000000000000000000065536", "0000000000000000000000065537", "007", "-007"} {
		for _, code := range []string{"s", "f", "v"} {
			if strings.HasPrefix(wt, "-0") {
				continue // negative width written with a leading zero: not fixed by the statement
			}
			f := "%" + wt + code + "|"
			ai := map[string]int{"s": 1, "f": 2, "v": 6}[code]
			c.Do(func() any { return c18Spec{Fmt: f, Args: ai} }, func() *fw.Violation { return c18Check(c, f, ai) })
		}
	}
}

func sign(w int) int {
	if w < 0 {
		return -1
	}
	if w > 0 {
		return 1
	}
	return 0
}
