package props

import (
	"encoding/json"
	"fmt"
	"os"
	"os/exec"
	"path/filepath"
	"strings"
	"time"

	"verif/mc/drive"
	"verif/mc/fw"
	. "verif/mc/refsem"
)

// C12: reported error positions are consistent with, and point into, the program text.

// the last two entries are literals that span two physical lines
var c12Lines = []string{"", "# cömment ©", `x = "é"`, "\ty = 2", "z = 3", "s = \"first\nsecond\"", "t = 'a' ~ /b\nc/"}

const c12Preset = `numv = 5; arrv = [1, 2]; objv = {k: 1}; tailv = " and then, after quite a long stretch of ordinary text that no directive interrupts, %d"; headv = "%s"`

type c12Fault struct {
	name    string
	line    string // the fault line
	lo, hi  int    // the error column must lie in [lo, hi)
	runtime bool
}

// c12Faults builds the fault lines. Columns are byte offsets in the line.
func c12Faults() []c12Fault {
	var out []c12Fault
	// an illegal byte before every token (and at the end) of host lines that between them use every separator and keyword:
	// the lexical fault must be reported exactly where it is, whatever token precedes it
	hosts := []string{
		`w = [1, "é"] + f(2) * 3`,
		`x = 1; y = 2; print x, y; print; z = {a: 1}; x++; f(x); if (x) { y = 3 }`,
		`for (k, v in arrv) { if (k) { continue } else { break } }`,
		`while (x < 3) x += 1; r = match (x) { 1, 2 => "a", _ => { print x; } }`,
		`if (!x && y || -z % 2 >= 0) print "s" ~ "r", numv.k[0] is string; for (i = 0; i < 2; i++) next`,
	}
	for hi, host := range hosts {
		// token boundaries of the host line (byte offsets where a token starts, plus the end)
		lx := Lex(host)
		var bounds []int
		for _, t := range lx.Toks {
			p := t.Pos
			if t.Class == "Str" {
				p-- // the opening quote
			}
			bounds = append(bounds, p)
		}
		bounds = append(bounds, len(host))
		for _, b := range bounds {
			out = append(out, c12Fault{fmt.Sprintf("illegal character at offset %d of host %d", b, hi), host[:b] + "@" + host[b:], b, b + 1, false})
			if hi > 0 {
				out = append(out, c12Fault{fmt.Sprintf("illegal character after a blank at offset %d of host %d", b, hi), host[:b] + " ` " + host[b:], b + 1, b + 2, false})
				continue
			}
			out = append(out, c12Fault{fmt.Sprintf("stray UTF-8 continuation byte at offset %d", b), host[:b] + "\xa9 " + host[b:], b, b + 1, false})
			out = append(out, c12Fault{fmt.Sprintf("stray 0x80 at offset %d", b), host[:b] + "\x80 " + host[b:], b, b + 1, false})
		}
	}
	// a non-ASCII character used as an identifier: the offending character's bytes
	out = append(out,
		c12Fault{"é as identifier", "é = 1", 0, 2, false},
		c12Fault{"é after text", `w = "ü" + é`, 11, 13, false},
		c12Fault{"x followed by é", "xé = 1", 0, 3, false},
		c12Fault{"unexpected )", "w = ) 1", 4, 5, false},
		c12Fault{"unexpected *", "w = * 2", 4, 5, false},
		c12Fault{"two operands", "w = 1 2", 6, 7, false},
		c12Fault{"print )", `print "é", )`, 12, 13, false},
		c12Fault{"return at rule level", "\treturn 5", 1, 7, false},
		c12Fault{"break outside a loop", "  break", 2, 7, false},
		c12Fault{"assignment to a literal", `"é" = 1`, 0, 7, false},
		c12Fault{"single &", "w = 1 & 2", 6, 7, false},
	)
	rt := []string{`1 / 0`, `1 % 0`, `5(1)`, `nofn()`, `"a" ~ "("`, `[1] < 2`, `$nope`, `"a\qb"`, `printf("%s")`, `printf("%d", 1)`, `numv.k = 1`, `arrv["k"] = 1`, `arrv[-9]`, `objv[[1]]`,
		`match (1) { -1 => 2 }`, `1.2.3`, `"a" ~ /a(/`, `numv !~ /[b-a]/`, `printf("%s" + tailv, "a")`, `printf("%s" + tailv, 1)`, `printf(headv + " %d", "a", 2)`, `arrv.push()`, `"a".split(1)`, `[printf]`, `numv.k++`,
		`wz /= 0`, `numv.k += 1`, `arrv["k"] -= 1`, `objv.k /= 0`, `numv.k *= 2`,
		// a failing call whose argument calls a function defined on other lines (which calls again)
		`printf("%d items", lab(1))`, `nofn(lab(2), lab(3))`, `5(lab(1))`, `arrv.push(lab(1), lab(2))`, `"a".split(lab(1))`}
	for _, f := range rt {
		for k := 0; k <= 3; k++ {
			pre := `q = "` + strings.Repeat("é", k) + `"; w = `
			out = append(out, c12Fault{fmt.Sprintf("runtime %s after %d non-ASCII characters", f, k), pre + f, len(pre) - 4, len(pre) + len(f), true})
		}
	}
	for k := 0; k <= 3; k++ {
		pre := `q = "` + strings.Repeat("é", k) + `"; `
		f := `for (v in 5) { }`
		out = append(out, c12Fault{fmt.Sprintf("runtime for-in over a number after %d non-ASCII characters", k), pre + f, len(pre), len(pre) + len(f), true})
	}
	return out
}

type c12Spec struct {
	Form  string       `json:"form"` // lines, cli, general
	Pre   []int        `json:"pre,omitempty"`
	Post  []int        `json:"post,omitempty"`
	Fault int          `json:"fault"`
	CRLF  bool         `json:"crlf,omitempty"`
	DashF bool         `json:"dash_f,omitempty"`   // the program is read from a file
	Hash  bool         `json:"hashbang,omitempty"` // its first line is a #! comment
	Prog  fw.Text      `json:"program,omitempty"`
	Files []drive.File `json:"files,omitempty"`
	Sels  []string     `json:"selectors,omitempty"`
}

func c12Program(s c12Spec, faults []c12Fault) (src string, line int, f c12Fault) {
	f = faults[s.Fault]
	lines := []string{"function f(v) { return v }", "function lab(o) {", "  t = f(o)", "  return f(t)", "}", "BEGIN {", c12Preset}
	for _, k := range s.Pre {
		lines = append(lines, c12Lines[k])
	}
	line = strings.Count(strings.Join(lines, "\n"), "\n") + 2 // some lines hold a literal with a newline in it
	lines = append(lines, f.line)
	for _, k := range s.Post {
		lines = append(lines, c12Lines[k])
	}
	lines = append(lines, "}")
	nl := "\n"
	if s.CRLF {
		nl = "\r\n"
	}
	return strings.Join(lines, nl) + nl, line, f
}

func c12CheckPos(src string, o drive.Outcome, wantLine int, f c12Fault) string {
	wantKind := drive.KSyntax
	if f.runtime {
		wantKind = drive.KRuntime
	}
	if o.Kind != wantKind {
		return fmt.Sprintf("expected a %s error on the fault line, got %s", wantKind, o.Kind)
	}
	if msg := c12Consistent(src, o); msg != "" {
		return msg
	}
	if o.Line != wantLine {
		return fmt.Sprintf("the error is reported on line %d, the fault is on line %d", o.Line, wantLine)
	}
	if o.Col < f.lo || o.Col >= f.hi {
		return fmt.Sprintf("the reported column %d is outside the offending construct [%d,%d)", o.Col, f.lo, f.hi)
	}
	return ""
}

// c12Consistent: the quoted line is exactly line N of the program text.
func c12Consistent(src string, o drive.Outcome) string {
	lines := strings.Split(src, "\n")
	if o.Line < 1 || o.Line > len(lines) {
		return fmt.Sprintf("the reported line number %d is not a line of the program (it has %d)", o.Line, len(lines))
	}
	want := lines[o.Line-1]
	if o.SrcLine != want && o.SrcLine != strings.TrimSuffix(want, "\r") {
		return fmt.Sprintf("the quoted source line is not line %d of the program", o.Line)
	}
	if o.Col < 0 || o.Col > len(want) {
		return fmt.Sprintf("the reported column %d is outside line %d", o.Col, o.Line)
	}
	return ""
}

func c12LinesCheck(c *fw.Ctx, s c12Spec, faults []c12Fault) *fw.Violation {
	src, line, f := c12Program(s, faults)
	sp := drive.Spec{Program: src}
	o := run(c, sp)
	c.Traces++
	c.Transitions++
	o.Ev = nil
	if msg := c12CheckPos(src, o, line, f); msg != "" {
		return &fw.Violation{What: "error position: " + strings.SplitN(msg, ",", 2)[0], Detail: map[string]any{"program": src, "fault": f.name, "fault line": line, "construct columns": []int{f.lo, f.hi}, "why": msg, "got": o}}
	}
	c.State(fmt.Sprintf("%s error, %d lines before, crlf=%v", o.Kind, len(s.Pre), s.CRLF))
	return nil
}

// c12Pair runs two programs with the same fault one after the other in this process, without anything in between.
func c12Pair(c *fw.Ctx, s c12Spec, faults []c12Fault) *fw.Violation {
	first := c12Spec{Form: "lines", Fault: s.Fault}
	second := c12Spec{Form: "lines", Fault: s.Fault, Pre: []int{2, 0, 5}, Post: []int{4}}
	for i, sp := range []c12Spec{first, second, first} {
		if v := c12LinesCheck(c, sp, faults); v != nil {
			v.What = fmt.Sprintf("error position (program %d of three run in one process): ", i+1) + strings.TrimPrefix(v.What, "error position: ")
			return v
		}
	}
	return nil
}

// c12CLI: the binary's stderr shows the same line, caret and line number.
func c12CLI(c *fw.Ctx, s c12Spec, faults []c12Fault) *fw.Violation {
	src, line, f := c12Program(s, faults)
	if s.Hash {
		nl := "\n"
		if s.CRLF {
			nl = "\r\n"
		}
		src = "#!/usr/bin/env -S jqawk -f" + nl + src
		line++
	}
	cmd := exec.Command(fw.JqawkBin(), src)
	if s.DashF {
		dir := c14Dirs(c)
		pf := filepath.Join(dir, "c12-prog.jqawk")
		os.WriteFile(pf, []byte(src), 0o644)
		defer os.Remove(pf)
		cmd = exec.Command(fw.JqawkBin(), "-f", pf)
	}
	_, stderr, exit, timedOut := runChild(c, cmd, "", 30*time.Second)
	c.Evals++
	c.Traces++
	if timedOut {
		return nil
	}
	el := strings.Split(stderr, "\n")
	fail := func(why string) *fw.Violation {
		return &fw.Violation{What: "the command line shows a wrong error position", Detail: map[string]any{"program": src, "fault": f.name, "fault line": line, "stderr": stderr, "exit": exit, "why": why}}
	}
	if exit == 0 || len(el) < 3 {
		return fail("no three-line diagnostic")
	}
	want := strings.TrimSuffix(strings.Split(src, "\n")[line-1], "\r")
	if strings.TrimSuffix(el[0], "\r") != "  "+want {
		return fail("the first line is not the fault line")
	}
	caret := strings.Index(el[1], "^") - 2
	if caret < f.lo || caret >= f.hi {
		return fail(fmt.Sprintf("the caret is at column %d, outside [%d,%d)", caret, f.lo, f.hi))
	}
	if !strings.Contains(el[2], fmt.Sprintf("on line %d:", line)) {
		return fail("the line number in the message is wrong")
	}
	return nil
}

// c12General: for any failing program, the quoted line is line N of the text.
func c12General(c *fw.Ctx, sp drive.Spec) *fw.Violation {
	o := run(c, sp)
	c.Traces++
	c.Transitions++
	if o.Kind == drive.KOther {
		o.Ev = nil
		o.Stdout = clip(o.Stdout)
		return &fw.Violation{What: "error position: the run failed with an error that carries no line and no source text", Detail: detail{Program: sp.Program, Files: sp.Files, Selectors: sp.Selectors, Got: o}}
	}
	if o.Kind != drive.KSyntax && o.Kind != drive.KRuntime {
		return nil
	}
	c.Outcome(string(o.Kind))
	src := sp.Program
	if o.Kind == drive.KSyntax || o.Kind == drive.KRuntime {
		// an error raised inside a selector refers to the selector's own text
		msg := c12Consistent(src, o)
		if msg != "" {
			for _, sel := range sp.Selectors {
				if c12Consistent(sel, o) == "" {
					return nil
				}
			}
			o.Ev = nil
			return &fw.Violation{What: "error position: " + strings.SplitN(msg, " of", 2)[0], Detail: map[string]any{"program": src, "selectors": sp.Selectors, "why": msg, "got": o}}
		}
	}
	return nil
}

func init() {
	faults := c12Faults()
	nf := len(faults)
	seqs := func(maxLen int) [][]int {
		out := [][]int{{}}
		prev := [][]int{{}}
		for l := 1; l <= maxLen; l++ {
			var cur [][]int
			for _, p := range prev {
				for k := range c12Lines {
					cur = append(cur, append(append([]int{}, p...), k))
				}
			}
			out = append(out, cur...)
			prev = cur
		}
		return out
	}
	register(&fw.Prop{
		ID: "C12",
		Rule: fmt.Sprintf("programs of a function line, 'BEGIN {', a preset line, m lines before and n lines after one fault line, and '}', the other lines drawn from {blank, a comment with non-ASCII text, a string with a non-ASCII character, a tab-indented statement, a statement}, with LF and CRLF line ends; %d fault lines: ", nf) +
			"an illegal character, a stray UTF-8 continuation byte and a stray 0x80 at every token boundary of a host line, non-ASCII characters used as identifiers, unexpected tokens, return / break out of place, assignment to a literal, and 21 single-line runtime faults each after 0-3 two-byte characters; " +
			"oracle (computed from the text): the error kind, Line = the fault line's number, SrcLine = its text (with or without a trailing CR), Col inside the byte range of the offending construct (exactly the byte for an illegal character); each fault also twice in one process at different positions; the same through the binary's three-line diagnostic, with the program inline and read with -f, with and without a #! first line; " +
			"and, for every failing program of the C11 fault x slot product, the seed splices and 25 runaway recursions (5 shapes x 5 entry points, so that every kind of frame meets the limit), the general law that the error has a position and the quoted line is line N of the text; states = (kind, lines before, line ending)",
		Plan: func(t fw.Tier) int { return nf + 1 },
		Bound: func(t fw.Tier) string {
			return "m <= 2 (thorough 3) lines before, n <= 1 (thorough 2) lines after, both line endings, every fault line"
		},
		Assumptions: []string{"the position oracle is computed from the program text by the harness; the byte range of each fault construct is fixed when the fault line is built", "reference lexer for the host line's token boundaries"},
		Run: func(c *fw.Ctx, u int) {
			if u == nf {
				// the general law over the C11 programs
				for fi := range c11Faults() {
					for si := range c11Slots() {
						pc := c11FaultProg(fi, si)
						sp := pc.spec()
						c.Do(func() any {
							return c12Spec{Form: "general", Prog: fw.Text(sp.Program), Files: sp.Files, Sels: sp.Selectors}
						}, func() *fw.Violation { return c12General(c, sp) })
					}
				}
				// faults whose position is a newline byte or the end of the text: every prefix of a seed cut at a line end (an
				// unclosed block), with and without trailing blanks / a comment / CRLF, and an unterminated string at a line end
				for _, pc := range seedPrograms() {
					src := pc.source()
					for i := 0; i < len(src); i++ {
						if src[i] != '\n' {
							continue
						}
						for _, tail := range []string{"", "\n", " \n", "  # c\n", "\r\n", "\n\n", "\nx = \"", "\nx = 'abc\n", "\n  y = /re\n"} {
							sp := pc.spec()
							sp.Program = src[:i] + tail
							c.Do(func() any {
								return c12Spec{Form: "general", Prog: fw.Text(sp.Program), Files: sp.Files, Sels: sp.Selectors}
							}, func() *fw.Violation { return c12General(c, sp) })
						}
					}
				}
				// runaway recursion of several shapes: whichever frame meets the limit, the error has a position
				for _, fn := range []string{
					"function r(n) { return 1 + r(n + 1) }",
					"function r(n) {\n  return match (n) {\n    k => 1 + r(k + 1)\n  }\n}",
					"function r(n) {\n  return match (n) {\n    k => match (k) {\n      j => 1 + r(j + 1)\n    }\n  }\n}",
					"function r(n) {\n  match (n) {\n    k => {\n      return 1 + r(k + 1)\n    }\n  }\n}",
					"function r(n) { for (v in [n]) {\n  t = r(v + 1)\n } return t }",
				} {
					for _, entry := range []string{"BEGIN {\n  print r(0)\n}", "function start() { return r(0) }\nBEGIN {\n  print start()\n}", "function a() { return b() }\nfunction b() { return r(0) }\nBEGIN {\n  print a()\n}",
						"BEGIN {\n  print match (1) {\n    1 => r(0)\n  }\n}", "{\n  x = match ($) {\n    v => { print r(v) }\n  }\n}"} {
						sp := drive.Spec{Program: "# header\n" + fn + "\n" + entry + "\n", Files: []drive.File{{Name: "in.json", Data: "[1]"}}}
						c.Do(func() any { return c12Spec{Form: "general", Prog: fw.Text(sp.Program), Files: sp.Files} }, func() *fw.Violation { return c12General(c, sp) })
					}
				}
				for seed, pc := range seedPrograms() {
					toks := Tokens(pc.P, Style{})
					for g := 0; g <= len(toks); g++ {
						for _, ins := range []string{"@", ")", "\xa9", "1 = 2"} {
							sp := pc.spec()
							sp.Program = c11SpliceText(toks, g, ins, false)
							_ = seed
							c.Do(func() any {
								return c12Spec{Form: "general", Prog: fw.Text(sp.Program), Files: sp.Files, Sels: sp.Selectors}
							}, func() *fw.Violation { return c12General(c, sp) })
						}
					}
				}
				return
			}
			// the same fault twice in ONE process, at another line and column the second time: each report is about its own
			// program. (First in the unit: a failure here can be replayed in a fresh process, a single later case that fails
			// only because of what an earlier case left behind cannot.)
			pair := c12Spec{Form: "pair", Fault: u}
			c.Do(func() any { return pair }, func() *fw.Violation { return c12Pair(c, pair, faults) })
			pres, posts := seqs(c.Pick(2, 3)), seqs(c.Pick(1, 2))
			for _, pre := range pres {
				for _, post := range posts {
					for _, crlf := range []bool{false, true} {
						s := c12Spec{Form: "lines", Pre: pre, Post: post, Fault: u, CRLF: crlf}
						c.Do(func() any { return s }, func() *fw.Violation { return c12LinesCheck(c, s, faults) })
					}
				}
			}
			for _, pre := range [][]int{{}, {1}, {2, 0}} {
				for _, crlf := range []bool{false, true} {
					for _, mode := range [][2]bool{{false, false}, {true, false}, {true, true}, {false, true}} {
						if (mode[0] || mode[1]) && len(pre) == 1 {
							continue
						}
						s := c12Spec{Form: "cli", Pre: pre, Post: []int{4}, Fault: u, CRLF: crlf, DashF: mode[0], Hash: mode[1]}
						c.Do(func() any { return s }, func() *fw.Violation { return c12CLI(c, s, faults) })
					}
				}
			}
		},
		Finish: func(c *fw.Ctx) {
			for s := range c.States {
				c.NonTrivial(s)
			}
		},
		Replay: func(c *fw.Ctx, raw json.RawMessage) *fw.Violation {
			var s c12Spec
			if !unmarshal(raw, &s) {
				return nil
			}
			switch s.Form {
			case "lines":
				return c12LinesCheck(c, s, faults)
			case "pair":
				return c12Pair(c, s, faults)
			case "cli":
				return c12CLI(c, s, faults)
			}
			return c12General(c, drive.Spec{Program: string(s.Prog), Files: s.Files, Selectors: s.Sels})
		},
	})
}
