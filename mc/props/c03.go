package props

import (
	"bytes"
	"encoding/json"
	"errors"
	"fmt"
	"io"
	"os"
	"os/exec"
	"strings"
	"time"

	"verif/mc/drive"
	"verif/mc/fw"
	. "verif/mc/refsem"

	lang "github.com/alligator/jqawk/src"
)

// C03: input is a JSON value stream: incremental, chunking-independent, faults reported.
//
// The environment explorer owns the io.Reader the interpreter reads from. Every
// Read call is a choice point with a canonical menu of answers; explore()
// replays a prefix of choices, answers choice 0 afterwards, and recurses on
// every alternative within the deviation bound (all alternatives for short
// streams: every chunking).

var errBoom = errors.New("verif: injected read error")

type c03Answer struct {
	n    int  // bytes delivered
	end  bool // the terminal answer (EOF or the injected error) comes with it
	zero bool // (0, nil)
}

type c03Point struct {
	menu   int
	choice int
	pos    int
	file   int
}

type c03Reader struct {
	data     []byte
	endErr   error // io.EOF or errBoom: what the reader answers when the data is exhausted
	pos      int
	ended    bool
	sched    []int
	points   []c03Point
	allChunk bool  // menu = every chunk size (exhaustive chunking mode)
	bounds   []int // ends of the complete values (exclusive offsets)
	diverged bool

	env   *c03Reader // non-nil: choice points and schedule live in this (primary) reader
	file  int
	prior int // output bytes that must be written before this reader is asked for anything (earlier files)

	// incrementality monitor
	out     *c03Writer
	cum     []int // cum[i] = bytes of output the model writes for the first i values
	late    string
	reads   int
	zeroRun int
}

type c03Writer struct {
	n int
}

func (w *c03Writer) Write(p []byte) (int, error) { w.n += len(p); return len(p), nil }

func (r *c03Reader) menu() []c03Answer {
	rem := len(r.data) - r.pos
	if rem == 0 {
		m := []c03Answer{{0, true, false}}
		if !r.allChunk && r.zeroRun < 2 {
			m = append(m, c03Answer{0, false, true})
		}
		return m
	}
	if r.allChunk {
		m := make([]c03Answer, 0, rem)
		for k := rem; k >= 1; k-- { // default first: everything
			m = append(m, c03Answer{k, false, false})
		}
		return m
	}
	m := []c03Answer{{rem, false, false}}
	seen := map[int]bool{rem: true}
	add := func(k int) {
		if k >= 1 && k <= rem && !seen[k] {
			seen[k] = true
			m = append(m, c03Answer{k, false, false})
		}
	}
	add(1)
	for _, b := range r.bounds {
		if b > r.pos {
			add(b - r.pos)
			add(b - r.pos + 1)
		}
	}
	m = append(m, c03Answer{rem, true, false}) // last bytes together with the terminal answer
	if r.zeroRun < 2 {
		m = append(m, c03Answer{0, false, true})
	}
	return m
}

func (r *c03Reader) Read(p []byte) (int, error) {
	r.reads++
	e := r
	if r.env != nil {
		e = r.env
	}
	if r.prior > 0 && r.out.n < r.prior && e.late == "" {
		e.late = fmt.Sprintf("Read #%d on input %d issued although only %d of the %d output bytes of the complete values of the earlier inputs are written", r.reads, r.file+1, r.out.n, r.prior)
	}
	if r.ended {
		return 0, r.endErr
	}
	// monitor: a Read issued although a complete value plus one following byte was already handed out
	// and that value's output is not written yet means the interpreter waits for later input
	if r.cum != nil && e.late == "" {
		for i, b := range r.bounds {
			if b+1 <= r.pos && r.out.n < r.cum[i+1] {
				e.late = fmt.Sprintf("Read #%d issued with %d bytes handed out: value %d ended at offset %d but only %d of its %d output bytes are written", r.reads, r.pos, i+1, b, r.out.n, r.cum[i+1])
				break
			}
		}
	}
	m := r.menu()
	choice := 0
	if len(e.points) < len(e.sched) {
		choice = e.sched[len(e.points)]
		if choice >= len(m) {
			e.diverged = true
			choice = 0
		}
	}
	e.points = append(e.points, c03Point{len(m), choice, r.pos, r.file})
	a := m[choice]
	if a.zero {
		r.zeroRun++
		return 0, nil
	}
	r.zeroRun = 0
	n := a.n
	if n > len(p) {
		n = len(p)
	}
	copy(p, r.data[r.pos:r.pos+n])
	r.pos += n
	if a.n == 0 && a.end {
		r.ended = true
		return 0, r.endErr
	}
	if a.end && n == a.n {
		r.ended = true
		return n, r.endErr
	}
	return n, nil
}

var c03Progs = []*Program{
	{Rules: []*Rule{
		{Kind: "BEGINFILE", Body: Blk(Pr(S("B"), V("$")))},
		{Body: Blk(Pr(V("$")))},
		{Kind: "ENDFILE", Body: Blk(Pr(S("E"), V("$file")))},
	}},
	{Rules: []*Rule{
		{Kind: "BEGINFILE", Body: Blk(Ex(&Postfix{"++", V("n")}), Pr(S("value"), V("n")))},
		{Kind: "END", Body: Blk(Pr(S("end"), V("n")))},
	}},
	// (index 3, below) a program of BEGIN rules only still reads its input: what is wrong with the input is reported
	// every root is kept: a later value must not change what an earlier one was
	{Rules: []*Rule{
		{Kind: "BEGIN", Body: Blk(Ex(Asg("=", V("keep"), Arr_())))},
		{Kind: "BEGINFILE", Body: Blk(Ex(CallE(Mem(V("keep"), "push"), V("$"))), Pr(S("kept"), CallE(Mem(V("keep"), "length"))))},
		{Kind: "END", Body: Blk(Pr(V("keep")))},
	}},
	{Funcs: []*Func{{Name: "unused", Body: Blk(&Return{X: N("1")})}}, Rules: []*Rule{
		{Kind: "BEGIN", Body: Blk(Pr(S("only begin")))},
		{Kind: "BEGIN", Body: Blk(Ex(Asg("=", V("n"), N("0"))))},
	}},
}

type c03Case struct {
	Data     string `json:"data"`
	Prog     int    `json:"prog"`
	Fault    bool   `json:"fault,omitempty"` // the reader ends in an I/O error instead of EOF
	AllChunk bool   `json:"all_chunkings,omitempty"`
	Bound    int    `json:"bound"`
	Sched    []int  `json:"sched,omitempty"` // filled in for a violation
	Monitor  bool   `json:"monitor,omitempty"`
	Second   string `json:"second,omitempty"` // content of a second file
}

// input bytes need not be valid UTF-8 (byte order marks, stray bytes): they travel to the replay file as fw.Text
func (cs c03Case) MarshalJSON() ([]byte, error) {
	type plain c03Case
	return json.Marshal(struct {
		plain
		Data   fw.Text `json:"data"`
		Second fw.Text `json:"second,omitempty"`
	}{plain(cs), fw.Text(cs.Data), fw.Text(cs.Second)})
}

func (cs *c03Case) UnmarshalJSON(b []byte) error {
	type plain c03Case
	aux := struct {
		*plain
		Data   fw.Text `json:"data"`
		Second fw.Text `json:"second,omitempty"`
	}{plain: (*plain)(cs)}
	if err := json.Unmarshal(b, &aux); err != nil {
		return err
	}
	cs.Data, cs.Second = string(aux.Data), string(aux.Second)
	return nil
}

func (mf c03MultiFile) MarshalJSON() ([]byte, error) {
	return json.Marshal(struct {
		Data  fw.Text `json:"data"`
		Fault bool    `json:"fault,omitempty"`
	}{fw.Text(mf.Data), mf.Fault})
}

func (mf *c03MultiFile) UnmarshalJSON(b []byte) error {
	var aux struct {
		Data  fw.Text `json:"data"`
		Fault bool    `json:"fault,omitempty"`
	}
	if err := json.Unmarshal(b, &aux); err != nil {
		return err
	}
	mf.Data, mf.Fault = string(aux.Data), aux.Fault
	return nil
}

type c03Expect struct {
	bounds []int
	cum    []int    // cumulative model output after i values (without END rules)
	full   []string // full model stdout (with END rules) when exactly i values are processed and the run then ends normally
	status StreamStatus
	errAt  int
	nvals  int
}

func c03Model(prog int, data string) c03Expect {
	st := ParseStream([]byte(data))
	e := c03Expect{status: st.Status, errAt: st.ErrAt, nvals: len(st.Values)}
	var nodes []*JNode
	p := c03Progs[prog]
	noEnd := &Program{}
	for _, r := range p.Rules {
		if r.Kind != "END" {
			noEnd.Rules = append(noEnd.Rules, r)
		}
	}
	for i := 0; i <= len(st.Values); i++ {
		if i > 0 {
			nodes = append(nodes, st.Values[i-1].Node)
			e.bounds = append(e.bounds, st.Values[i-1].End)
		}
		r1 := RunProgram(noEnd, []ModelFile{{Name: "in.json", Values: nodes}}, nil, probeKeyOrder, 0)
		e.cum = append(e.cum, len(r1.Stdout))
		r2 := RunProgram(p, []ModelFile{{Name: "in.json", Values: nodes}}, nil, probeKeyOrder, 0)
		e.full = append(e.full, r2.Stdout)
	}
	return e
}

// c03Run executes one schedule and checks it. It returns the choice points met.
func c03Run(c *fw.Ctx, cs *c03Case, ex *c03Expect, sched []int) ([]c03Point, *fw.Violation) {
	w := &c03Writer{}
	r := &c03Reader{data: []byte(cs.Data), endErr: io.EOF, sched: sched, allChunk: cs.AllChunk, bounds: ex.bounds, out: w}
	if cs.Fault {
		r.endErr = errBoom
	}
	if cs.Monitor && !cs.Fault {
		r.cum = ex.cum
	}
	files := []drive.File{{Name: "in.json", Reader: r}}
	var r2 *c03Reader
	if cs.Second != "" {
		r2 = &c03Reader{data: []byte(cs.Second), endErr: io.EOF, out: w}
		files = append(files, drive.File{Name: "second.json", Reader: r2})
	}
	s := drive.Spec{Program: Source(c03Progs[cs.Prog], Style{}), Files: files, Stdout: w}
	o := run(c, s)
	c.Traces++
	c.Transitions += int64(len(r.points))
	fail := func(what string, want string) *fw.Violation {
		o.Ev = nil
		csv := *cs
		csv.Sched = make([]int, len(r.points))
		for i, p := range r.points {
			csv.Sched[i] = p.choice
		}
		b, _ := json.Marshal(csv)
		return &fw.Violation{What: what, Spec: b, Key: fw.KeyOf("C03", cs.Data, fmt.Sprint(cs.Prog, cs.Fault, cs.AllChunk), fmt.Sprint(csv.Sched)),
			Detail: map[string]any{"program": s.Program, "stream": cs.Data, "read_answers": c03Describe(r), "want_stdout": want, "got": o, "second_file": cs.Second}}
	}
	if r.diverged {
		panic("c03: schedule replay met a shorter menu than recorded")
	}
	if o.Kind == drive.KPanic || o.Kind == drive.KOther {
		return r.points, fail("implementation panicked or returned a foreign error", "")
	}
	bad := ex.status != StreamClean || cs.Fault
	// which values must have been processed
	minVals, maxVals := ex.nvals, ex.nvals
	if cs.Fault && ex.status != StreamError {
		// a value that ends exactly where the reader fails (no following byte was ever delivered) may or may not count as complete
		n := 0
		for i, b := range ex.bounds {
			if b < len(cs.Data) {
				n = i + 1
			}
		}
		minVals = n
	}
	if !bad && cs.Second == "" {
		if o.Kind != drive.KNone {
			return r.points, fail("a clean stream ended in an error", ex.full[ex.nvals])
		}
		if o.Stdout != ex.full[ex.nvals] {
			return r.points, fail("output of a clean stream differs from processing its values one after another", ex.full[ex.nvals])
		}
	} else if bad {
		if o.Kind == drive.KNone {
			return r.points, fail("a truncated / malformed / unreadable stream was silently treated as end of input", "")
		}
		if o.Kind != drive.KJson {
			return r.points, fail("a stream fault was not reported as a JSON input error", "")
		}
		if o.FileName != "in.json" {
			return r.points, fail("the JSON input error does not name the file", "in.json")
		}
		ok := false
		for n := minVals; n <= maxVals; n++ {
			if len(o.Stdout) == ex.cum[n] && strings.HasPrefix(ex.full[n], o.Stdout) {
				ok = true
			}
		}
		if !ok {
			return r.points, fail("before the JSON input error, the output is not that of the complete values", ex.full[minVals][:ex.cum[minVals]])
		}
	} else if cs.Second != "" {
		// first file clean, second file decides
		st2 := ParseStream([]byte(cs.Second))
		if (st2.Status == StreamClean) != (o.Kind == drive.KNone) {
			return r.points, fail("outcome does not follow the second file", "")
		}
		if o.Kind == drive.KJson && o.FileName != "second.json" {
			return r.points, fail("the JSON input error names the wrong file", "second.json")
		}
	}
	if r.late != "" {
		return r.points, fail("the interpreter waited for later input before processing a complete value: "+r.late, "")
	}
	cls := "clean"
	if bad {
		cls = fmt.Sprintf("fault after %d values", minVals)
	}
	c.Outcome(cls)
	return r.points, nil
}

func c03SelfDelimited(v string) bool {
	v = strings.TrimRight(v, " \n\t\r")
	if v == "" {
		return true
	}
	switch v[len(v)-1] {
	case ']', '}', '"':
		return true
	}
	return strings.HasSuffix(v, "true") || strings.HasSuffix(v, "false") || strings.HasSuffix(v, "null")
}

func c03Describe(r *c03Reader) []string {
	var out []string
	pos := 0
	rr := &c03Reader{data: r.data, endErr: r.endErr, allChunk: r.allChunk, bounds: r.bounds}
	for _, p := range r.points {
		rr.pos = pos
		m := rr.menu()
		a := m[p.choice]
		switch {
		case a.zero:
			out = append(out, "(0, nil)")
			rr.zeroRun++
		case a.n == 0:
			out = append(out, fmt.Sprintf("(0, %v)", r.endErr))
		case a.end:
			out = append(out, fmt.Sprintf("(%q, %v)", r.data[pos:pos+a.n], r.endErr))
			pos += a.n
		default:
			out = append(out, fmt.Sprintf("%q", r.data[pos:pos+a.n]))
			pos += a.n
			rr.zeroRun = 0
		}
	}
	return out
}

// c03Explore is the deviation-bounded DFS over Read answers.
func c03Explore(c *fw.Ctx, cs *c03Case, ex *c03Expect, prefix []int, used int, count *int64) *fw.Violation {
	points, v := c03Run(c, cs, ex, prefix)
	*count++
	if v != nil {
		return v
	}
	c.StatesN += int64(len(points) - len(prefix))
	for i := len(prefix); i < len(points); i++ {
		if !cs.AllChunk && used >= cs.Bound {
			break
		}
		for alt := 1; alt < points[i].menu; alt++ {
			np := make([]int, i+1)
			for k := 0; k < i; k++ {
				np[k] = points[k].choice
			}
			np[i] = alt
			nu := used + 1
			if v := c03Explore(c, cs, ex, np, nu, count); v != nil {
				return v
			}
		}
	}
	return nil
}

// ----- several inputs: every reader is explored, and nothing may be asked of a later input before the earlier ones are done -----

type c03MultiFile struct {
	Data  string `json:"data"`
	Fault bool   `json:"fault,omitempty"`
}

type c03Multi struct {
	Files []c03MultiFile `json:"files"`
	Prog  int            `json:"prog"`
	Bound int            `json:"bound"`
	Sched []int          `json:"sched,omitempty"`
}

type c03MultiExpect struct {
	bounds [][]int
	cum    [][]int    // cum[f][i]: output bytes (without END rules) once files < f are complete and i values of file f are processed
	full   [][]string // the same with the END rules run, for a normal end at that point
	status []StreamStatus
	nvals  []int
	badAt  int // first file that is not a clean stream (by content), len(files) if none
}

func c03MultiModel(prog int, files []c03MultiFile) c03MultiExpect {
	p := c03Progs[prog]
	noEnd := &Program{}
	for _, r := range p.Rules {
		if r.Kind != "END" {
			noEnd.Rules = append(noEnd.Rules, r)
		}
	}
	e := c03MultiExpect{badAt: len(files)}
	var done []ModelFile
	for f, mf := range files {
		st := ParseStream([]byte(mf.Data))
		e.status = append(e.status, st.Status)
		e.nvals = append(e.nvals, len(st.Values))
		if st.Status != StreamClean && e.badAt == len(files) {
			e.badAt = f
		}
		var bounds, cum []int
		var full []string
		var nodes []*JNode
		name := fmt.Sprintf("in%d.json", f+1)
		for i := 0; i <= len(st.Values); i++ {
			if i > 0 {
				nodes = append(nodes, st.Values[i-1].Node)
				bounds = append(bounds, st.Values[i-1].End)
			}
			cur := append(append([]ModelFile{}, done...), ModelFile{Name: name, Values: nodes})
			cum = append(cum, len(RunProgram(noEnd, cur, nil, probeKeyOrder, 0).Stdout))
			full = append(full, RunProgram(p, cur, nil, probeKeyOrder, 0).Stdout)
		}
		e.bounds, e.cum, e.full = append(e.bounds, bounds), append(e.cum, cum), append(e.full, full)
		done = append(done, ModelFile{Name: name, Values: nodes})
	}
	return e
}

func c03MultiRun(c *fw.Ctx, cs *c03Multi, ex *c03MultiExpect, sched []int) ([]c03Point, *fw.Violation) {
	w := &c03Writer{}
	var readers []*c03Reader
	var files []drive.File
	for f, mf := range cs.Files {
		r := &c03Reader{data: []byte(mf.Data), endErr: io.EOF, bounds: ex.bounds[f], out: w, file: f}
		if mf.Fault {
			r.endErr = errBoom
		}
		if f == 0 {
			r.sched = sched
		} else {
			r.env = readers[0]
			r.prior = ex.cum[f][0]
		}
		// the per-value monitor is sound while the stream is clean up to the point looked at: offsets below the first fault
		r.cum = ex.cum[f]
		readers = append(readers, r)
		files = append(files, drive.File{Name: fmt.Sprintf("in%d.json", f+1), Reader: r})
	}
	s := drive.Spec{Program: Source(c03Progs[cs.Prog], Style{}), Files: files, Stdout: w}
	o := run(c, s)
	c.Traces++
	p0 := readers[0]
	c.Transitions += int64(len(p0.points))
	fail := func(what string, want string) *fw.Violation {
		o.Ev = nil
		csv := *cs
		csv.Sched = make([]int, len(p0.points))
		for i, p := range p0.points {
			csv.Sched[i] = p.choice
		}
		b, _ := json.Marshal(csv)
		return &fw.Violation{What: what, Spec: b, Key: fw.KeyOf("C03", "multi", fmt.Sprint(cs.Files, cs.Prog), fmt.Sprint(csv.Sched)),
			Detail: map[string]any{"program": s.Program, "inputs": cs.Files, "read_answers": c03DescribeMulti(readers), "want_stdout": want, "got": o}}
	}
	if p0.diverged {
		panic("c03: schedule replay met a shorter menu than recorded")
	}
	if o.Kind == drive.KPanic || o.Kind == drive.KOther {
		return p0.points, fail("implementation panicked or returned a foreign error", "")
	}
	// the first input that is faulty, by content or by its reader
	bad := len(cs.Files)
	for f, mf := range cs.Files {
		if ex.status[f] != StreamClean || mf.Fault {
			bad = f
			break
		}
	}
	if bad == len(cs.Files) {
		last := len(cs.Files) - 1
		want := ex.full[last][ex.nvals[last]]
		if o.Kind != drive.KNone {
			return p0.points, fail("clean inputs ended in an error", want)
		}
		if o.Stdout != want {
			return p0.points, fail("output of several clean inputs differs from processing their values one after another", want)
		}
	} else {
		if o.Kind == drive.KNone {
			return p0.points, fail("a truncated / malformed / unreadable input was silently treated as end of input", "")
		}
		if o.Kind != drive.KJson {
			return p0.points, fail("an input fault was not reported as a JSON input error", "")
		}
		if want := fmt.Sprintf("in%d.json", bad+1); o.FileName != want {
			return p0.points, fail("the JSON input error does not name the faulty input", want)
		}
		minVals, maxVals := ex.nvals[bad], ex.nvals[bad]
		if cs.Files[bad].Fault && ex.status[bad] != StreamError {
			n := 0
			for i, b := range ex.bounds[bad] {
				if b < len(cs.Files[bad].Data) {
					n = i + 1
				}
			}
			minVals = n
		}
		ok := false
		for n := minVals; n <= maxVals; n++ {
			if len(o.Stdout) == ex.cum[bad][n] && strings.HasPrefix(ex.full[bad][n], o.Stdout) {
				ok = true
			}
		}
		if !ok {
			return p0.points, fail("before the JSON input error, the output is not that of the complete values of this and all earlier inputs", ex.full[bad][minVals][:ex.cum[bad][minVals]])
		}
	}
	if p0.late != "" {
		return p0.points, fail("the interpreter asked for later input before processing a complete value: "+p0.late, "")
	}
	c.Outcome(fmt.Sprintf("multi: first faulty input %d of %d", bad+1, len(cs.Files)))
	return p0.points, nil
}

func c03DescribeMulti(readers []*c03Reader) []string {
	var out []string
	pos := make([]int, len(readers))
	zr := make([]int, len(readers))
	for _, p := range readers[0].points {
		r := readers[p.file]
		rr := &c03Reader{data: r.data, endErr: r.endErr, bounds: r.bounds, pos: pos[p.file], zeroRun: zr[p.file]}
		a := rr.menu()[p.choice]
		pre := fmt.Sprintf("in%d: ", p.file+1)
		switch {
		case a.zero:
			out = append(out, pre+"(0, nil)")
			zr[p.file]++
			continue
		case a.n == 0:
			out = append(out, pre+fmt.Sprintf("(0, %v)", r.endErr))
		case a.end:
			out = append(out, pre+fmt.Sprintf("(%q, %v)", r.data[pos[p.file]:pos[p.file]+a.n], r.endErr))
		default:
			out = append(out, pre+fmt.Sprintf("%q", r.data[pos[p.file]:pos[p.file]+a.n]))
		}
		pos[p.file] += a.n
		zr[p.file] = 0
	}
	return out
}

func c03MultiExplore(c *fw.Ctx, cs *c03Multi, ex *c03MultiExpect, prefix []int, used int) *fw.Violation {
	points, v := c03MultiRun(c, cs, ex, prefix)
	if v != nil {
		return v
	}
	c.StatesN += int64(len(points) - len(prefix))
	if used >= cs.Bound {
		return nil
	}
	for i := len(prefix); i < len(points); i++ {
		for alt := 1; alt < points[i].menu; alt++ {
			np := make([]int, i+1)
			for k := 0; k < i; k++ {
				np[k] = points[k].choice
			}
			np[i] = alt
			if v := c03MultiExplore(c, cs, ex, np, used+1); v != nil {
				return v
			}
		}
	}
	return nil
}

var c03MultiFirst = []string{`1`, "[1,2] 5\n", ``, `{"a":1}`, `"a" `}

// c03MultiStreams: all streams of <= 2 values for a later input
func c03MultiStreams() []string {
	out := []string{"", "\n"}
	for _, a := range c03Values {
		out = append(out, a, a+"\n")
		for _, b := range c03Values {
			for _, sp := range []string{"", " ", "\n"} {
				if sp == "" && c03NeedsSep(a, b) {
					continue
				}
				out = append(out, a+sp+b)
			}
		}
	}
	return out
}

func c03MultiFamily(c *fw.Ctx, firstIdx int, thorough bool) {
	first := c03MultiFirst[firstIdx]
	bound := 1
	if thorough {
		bound = 2
	}
	for _, second := range c03MultiStreams() {
		if c.Expired() {
			return
		}
		for prog := range c03Progs {
			// clean: both readers explored
			cs := &c03Multi{Files: []c03MultiFile{{Data: first}, {Data: second}}, Prog: prog, Bound: bound}
			ex := c03MultiModel(prog, cs.Files)
			c.Do(func() any { return cs }, func() *fw.Violation { return c03MultiExplore(c, cs, &ex, nil, 0) })
			if prog != 0 {
				continue
			}
			// every truncation point of the later input and a read error at every position of it (offset 0 included)
			for k := 0; k <= len(second); k++ {
				for _, fault := range []bool{false, true} {
					if !fault && k == len(second) {
						continue
					}
					t := &c03Multi{Files: []c03MultiFile{{Data: first}, {Data: second[:k], Fault: fault}}, Prog: prog, Bound: 1}
					tex := c03MultiModel(prog, t.Files)
					c.Do(func() any { return t }, func() *fw.Violation { return c03MultiExplore(c, t, &tex, nil, 0) })
					if k <= 1 {
						// and as the third of three inputs
						t3 := &c03Multi{Files: []c03MultiFile{{Data: first}, {Data: "[7] 8"}, {Data: second[:k], Fault: fault}}, Prog: prog, Bound: 1}
						tex3 := c03MultiModel(prog, t3.Files)
						c.Do(func() any { return t3 }, func() *fw.Violation { return c03MultiExplore(c, t3, &tex3, nil, 0) })
					}
				}
			}
		}
		c.State(fmt.Sprintf("two inputs: first %q, second with %d values", first, len(ParseStream([]byte(second)).Values)))
	}
}

// ----- large values: the reader hands out fixed-size chunks; buffer-size thresholds of whatever sits between reader and decoder -----

type c03Big struct {
	Size  int `json:"size"`  // bytes of the large value
	Lead  int `json:"lead"`  // small records before it
	Tail  int `json:"tail"`  // small records after it
	Chunk int `json:"chunk"` // bytes per Read (0: as many as asked for)
	Shape int `json:"shape"` // 0: object with a long string, 1: array of numbers
}

type chunkReader struct {
	data  []byte
	pos   int
	chunk int
}

func (r *chunkReader) Read(p []byte) (int, error) {
	if r.pos >= len(r.data) {
		return 0, io.EOF
	}
	n := len(r.data) - r.pos
	if n > len(p) {
		n = len(p)
	}
	if r.chunk > 0 && n > r.chunk {
		n = r.chunk
	}
	copy(p, r.data[r.pos:r.pos+n])
	r.pos += n
	return n, nil
}

func c03BigData(b c03Big) string {
	var sb strings.Builder
	rec := func(i int) { fmt.Fprintf(&sb, "{\"n\":%d}\n", i) }
	for i := 0; i < b.Lead; i++ {
		rec(i)
	}
	if b.Shape == 0 {
		head := fmt.Sprintf("{\"n\":%d,\"pad\":\"", b.Lead)
		sb.WriteString(head)
		sb.WriteString(strings.Repeat("x", b.Size-len(head)-2))
		sb.WriteString("\"}")
	} else {
		head := fmt.Sprintf("{\"n\":%d,\"pad\":[", b.Lead)
		sb.WriteString(head)
		n := (b.Size - len(head) - 3) / 2
		sb.WriteString(strings.Repeat("1,", n))
		sb.WriteString(strings.Repeat(" ", b.Size-len(head)-3-2*n))
		sb.WriteString("1]}")
	}
	sb.WriteString("\n")
	for i := 0; i < b.Tail; i++ {
		rec(b.Lead + 1 + i)
	}
	return sb.String()
}

func c03BigCheck(c *fw.Ctx, b c03Big) *fw.Violation {
	data := c03BigData(b)
	var want strings.Builder
	for i := 0; i <= b.Lead+b.Tail; i++ {
		fmt.Fprintf(&want, "%d\n", i)
	}
	want.WriteString(fmt.Sprintf("end %d\n", b.Lead+b.Tail+1))
	s := drive.Spec{Program: "BEGINFILE { print $.n; c++ }\nEND { print \"end\", c }", Files: []drive.File{{Name: "in.json", Reader: &chunkReader{data: []byte(data), chunk: b.Chunk}}}, Budget: 50_000_000}
	o := run(c, s)
	c.Traces++
	c.Transitions += int64(b.Lead + b.Tail + 1)
	if v := expect(s, o, want.String(), drive.KNone, fmt.Sprintf("a stream of %d small records, one value of %d bytes, %d small records, delivered %d bytes per Read", b.Lead, b.Size, b.Tail, b.Chunk)); v != nil {
		if d, ok := v.Detail.(detail); ok {
			d.Files = nil
			v.Detail = d
		}
		return v
	}
	c.Outcome("large value stream clean")
	return nil
}

var c03BigSizes = []int{511, 512, 513, 4095, 4096, 4097, 32768, 65535, 65536, 65537, 65600, 70000, 100000, 131071, 131072, 131073, 200000, 300001}
var c03BigChunks = []int{0, 1 << 20, 131072, 100000, 65537, 65536, 65535, 32768, 10000, 4097, 4096, 4095, 1000, 512, 511, 64}

// ----- the real binary fed through a pipe that pauses after every value -----

type c03Pipe struct {
	Form string `json:"form"` // "pipe"
	Prog int    `json:"prog"`
	Strm int    `json:"stream"`
}

var c03PipeProgs = []string{
	`BEGINFILE { print "value", $ }`,
	`BEGINFILE { printf("%v;", $) }`,
	`BEGINFILE { printf("<%v>", $); print "" } ENDFILE { printf(".") }`,
	`{ printf("%v,", $) } ENDFILE { printf("|") }`,
	`BEGINFILE { n++; if (n == 2) { print "two" } else { printf("%s", n) } }`,
	`BEGINFILE { printf("%3000s#", $) }`,
}

var c03PipeStreams = [][]string{
	{`1`, `"a"`, `{"a":1}`, `[1,2]`, `null`},
	{`[1,2]`, `[]`, `[3]`},
	{`"x"`, `"y"`},
}

// c03PipeWait is generous by four orders of magnitude: a value's output normally arrives within a millisecond.
const c03PipeWait = 45 * time.Second

func c03PipeCheck(c *fw.Ctx, ps c03Pipe) *fw.Violation {
	prog, vals := c03PipeProgs[ps.Prog], c03PipeStreams[ps.Strm]
	js, err := lang.VerifAST(prog)
	if err != nil {
		panic("c03: pipe program does not parse: " + prog)
	}
	p, err := FromImplAST(js)
	if err != nil {
		panic(err)
	}
	// the model's cumulative output after each value (the stream is still open: no ENDFILE... the file ends only at EOF)
	var want []string
	var nodes []*JNode
	for _, v := range vals {
		n, _ := ParseJSON(v)
		nodes = append(nodes, n)
		want = append(want, RunProgram(p, []ModelFile{{Name: "<stdin>", Values: nodes}}, nil, probeKeyOrder, 0).Stdout)
	}
	cmd := exec.Command(fw.JqawkBin(), prog)
	stdin, _ := cmd.StdinPipe()
	stdout, _ := cmd.StdoutPipe()
	var stderr strings.Builder
	cmd.Stderr = &stderr
	if err := cmd.Start(); err != nil {
		panic(err)
	}
	c.Evals++
	c.Traces++
	type chunk struct {
		b   []byte
		err error
	}
	ch := make(chan chunk, 64)
	go func() {
		for {
			buf := make([]byte, 65536)
			n, err := stdout.Read(buf)
			ch <- chunk{buf[:n], err}
			if err != nil {
				return
			}
		}
	}()
	got := ""
	fail := func(what string, i int) *fw.Violation {
		cmd.Process.Kill()
		cmd.Wait()
		return &fw.Violation{What: what, Detail: map[string]any{"program": prog, "values written so far": vals[:i+1], "want_stdout_so_far": clip(want[i]), "got_stdout_so_far": clip(got), "stderr": stderr.String()}}
	}
	for i, v := range vals {
		if _, err := io.WriteString(stdin, v+"\n"); err != nil {
			return fail("the binary stopped reading its input", i)
		}
		c.Transitions++
		deadline := time.After(c03PipeWait)
		for len(got) < len(want[i]) {
			select {
			case k := <-ch:
				got += string(k.b)
				if k.err != nil && len(got) < len(want[i]) {
					return fail("standard output ended before the output of a complete value", i)
				}
			case <-deadline:
				return fail(fmt.Sprintf("a complete value and one following byte were written to the binary's input, the input then paused, and the value's output did not appear within %v", c03PipeWait), i)
			}
		}
		if got != want[i] {
			return fail("the output written so far is not the output of the complete values", i)
		}
	}
	stdin.Close()
	for {
		k := <-ch
		got += string(k.b)
		if k.err != nil {
			break
		}
	}
	cmd.Wait()
	final := RunProgram(p, []ModelFile{{Name: "<stdin>", Values: nodes}}, nil, probeKeyOrder, 0)
	_ = final
	c.Outcome("pipe: incremental")
	return nil
}

// c03ProcFile: a named input whose size the file system reports as 0 although it has content is read to its real end.
func c03ProcFile(c *fw.Ctx) *fw.Violation {
	const pp = "/proc/sys/kernel/pid_max"
	b, err := os.ReadFile(pp)
	if err != nil {
		c.Note("no /proc file to read here", 1)
		return nil
	}
	cmd := exec.Command(fw.JqawkBin(), `BEGINFILE { print "value", $, $file } END { print "end" }`, pp)
	so, se, exit, timedOut := runChild(c, cmd, "", 60*time.Second)
	c.Evals++
	c.Traces++
	if timedOut {
		return nil
	}
	want := "value " + strings.TrimSpace(string(b)) + " " + pp + "\nend\n"
	if exit != 0 || so != want {
		return &fw.Violation{What: "a named input that reports size 0 but has content was not read to its end", Detail: map[string]any{"file": pp, "content": string(b), "want_stdout": want, "stdout": so, "stderr": se, "exit": exit}}
	}
	return nil
}

var c03Values = []string{`1`, `"a"`, `[]`, `[1,2]`, `{"a":1}`, `null`, `true`, `-0.5e1`, `[3]`}

func c03NeedsSep(prev, next string) bool {
	isNum := func(s string) bool { return s[0] == '-' || (s[0] >= '0' && s[0] <= '9') }
	return isNum(prev) && next[0] >= '0' && next[0] <= '9'
}

// c03Streams: all sequences of <= 3 values x separators x trailing newline.
func c03Streams(first int) []string {
	var out []string
	seps := []string{"", " ", "\n"}
	var rec func(cur string, last string, n int)
	rec = func(cur string, last string, n int) {
		for _, tr := range []string{"", "\n"} {
			out = append(out, cur+tr)
		}
		if n == 3 {
			return
		}
		for _, v := range c03Values {
			for _, sp := range seps {
				if sp == "" && c03NeedsSep(last, v) {
					continue
				}
				rec(cur+sp+v, v, n+1)
			}
		}
	}
	rec(c03Values[first], c03Values[first], 1)
	return out
}

var c03Corrupt = []byte{']', '}', '[', '{', ',', ':', '"', 'x', ' ', '0'}

// the quick tier's further corruption bytes (the thorough tier takes all 256): controls, DEL, bytes that are not UTF-8 or start a
// longer sequence, and the ASCII bytes that mean something inside a JSON token
var c03CorruptQuick = []byte{0x00, 0x08, 0x0b, 0x0c, 0x1e, 0x1f, 0x7f, 0x80, 0xbf, 0xc0, 0xc2, 0xe2, 0xef, 0xf0, 0xfe, 0xff, 'e', 'E', '-', '+', '.', '\\', 'u', '/', 't', 'n', '1', '9', '\t', '\n', '\r', '\''}

func c03Stream(c *fw.Ctx, data string, thorough bool) {
	bound := 2
	if thorough {
		bound = 3
	}
	for prog := range c03Progs {
		if prog == 2 && strings.Count(data, "[") < 2 {
			continue // the keeping program is about several array roots
		}
		ex := c03Model(prog, data)
		if ex.status != StreamClean {
			panic("c03: generated stream is not clean: " + data)
		}
		c.State(fmt.Sprintf("stream with %d values", ex.nvals))
		// (i) chunkings
		limit := 12
		if thorough {
			limit = 14
		}
		cs := &c03Case{Data: data, Prog: prog, Monitor: true}
		if len(data) <= limit {
			cs.AllChunk = true
		} else {
			cs.Bound = bound
		}
		var n int64
		c.Do(func() any { return cs }, func() *fw.Violation { return c03Explore(c, cs, &ex, nil, 0, &n) })
		if !cs.AllChunk {
			// the all-one-byte schedule
			one := &c03Case{Data: data, Prog: prog, Monitor: true, AllChunk: true}
			sched := make([]int, len(data))
			for i := range sched {
				sched[i] = len(data) - i - 1
			}
			c.Do(func() any { return one }, func() *fw.Violation { _, v := c03Run(c, one, &ex, sched); return v })
		}
		if prog != 0 && prog != 3 {
			continue
		}
		// (ii) every truncation point, (iii) a read error at every position
		for k := 0; k <= len(data); k++ {
			for _, fault := range []bool{false, true} {
				if !fault && k == len(data) {
					continue
				}
				t := &c03Case{Data: data[:k], Prog: prog, Fault: fault, Bound: 1}
				tex := c03Model(prog, t.Data)
				var m int64
				c.Do(func() any { return t }, func() *fw.Violation { return c03Explore(c, t, &tex, nil, 0, &m) })
			}
		}
		if prog == 3 {
			continue
		}
		// a byte order mark (whole or cut off) in front of the stream or of a later value is not JSON, under every chunking
		for _, bom := range []string{"\xef\xbb\xbf", "\xef\xbb", "\xef", "\xfe\xff", "\xef\xbb\xbf\xef\xbb\xbf"} {
			for _, at := range append([]int{0}, c03Model(prog, data).bounds...) {
				if at > len(data) {
					continue
				}
				d := data[:at] + bom + data[at:]
				cc := &c03Case{Data: d, Prog: prog, Bound: 1}
				cex := c03Model(prog, d)
				var m int64
				c.Do(func() any { return cc }, func() *fw.Violation { return c03Explore(c, cc, &cex, nil, 0, &m) })
				ob := &c03Case{Data: d, Prog: prog, AllChunk: true}
				sched := make([]int, len(d))
				for i := range sched {
					sched[i] = len(d) - i - 1
				}
				c.Do(func() any { return ob }, func() *fw.Violation { _, v := c03Run(c, ob, &cex, sched); return v })
			}
		}
		// (iv) single-byte corruptions: replacement and insertion - the structural bytes with every schedule of the explorer, every
		// other byte value (controls such as 0x1e, DEL, bytes that are not UTF-8) under the default schedule (thorough: all 256
		// values, and one byte per Read for the 32 of the quick tier)
		for k := 0; k <= len(data); k++ {
			for bv := 0; bv < 256; bv++ {
				b := byte(bv)
				if bytes.IndexByte(c03Corrupt, b) >= 0 || prog != 0 || (!thorough && bytes.IndexByte(c03CorruptQuick, b) < 0) {
					continue
				}
				var variants []string
				if k < len(data) && data[k] != b {
					variants = append(variants, data[:k]+string([]byte{b})+data[k+1:])
				}
				variants = append(variants, data[:k]+string([]byte{b})+data[k:])
				for _, d := range variants {
					cex := c03Model(prog, d)
					ob := &c03Case{Data: d, Prog: prog, AllChunk: true}
					c.Do(func() any { return ob }, func() *fw.Violation { _, v := c03Run(c, ob, &cex, make([]int, len(d)+1)); return v })
					if !thorough || bytes.IndexByte(c03CorruptQuick, b) < 0 {
						continue
					}
					sched := make([]int, len(d))
					for i := range sched {
						sched[i] = len(d) - i - 1
					}
					c.Do(func() any { return ob }, func() *fw.Violation { _, v := c03Run(c, ob, &cex, sched); return v })
				}
			}
			for _, b := range c03Corrupt {
				var variants []string
				if k < len(data) && data[k] != b {
					variants = append(variants, data[:k]+string(b)+data[k+1:])
				}
				variants = append(variants, data[:k]+string(b)+data[k:])
				for _, d := range variants {
					cc := &c03Case{Data: d, Prog: prog, Bound: 0}
					cex := c03Model(prog, d)
					var m int64
					c.Do(func() any { return cc }, func() *fw.Violation { return c03Explore(c, cc, &cex, nil, 0, &m) })
					if cex.status != StreamClean {
						c.NonTrivial(fmt.Sprintf("corruption class: %d values then status %d", cex.nvals, cex.status))
						ob := &c03Case{Data: d, Prog: prog, AllChunk: true}
						sched := make([]int, len(d))
						for i := range sched {
							sched[i] = len(d) - i - 1
						}
						c.Do(func() any { return ob }, func() *fw.Violation { _, v := c03Run(c, ob, &cex, sched); return v })
					}
				}
			}
		}
	}
}

var c03Fixed = []struct{ first, second string }{
	{`[1] ] [2]`, ""}, {`[1] }`, ""}, {`]`, ""}, {`1 2 x`, ""}, {`{"a":1}} 5`, ""}, {`"abc`, ""}, {`[1,2`, ""}, {`tru`, ""}, {`nul`, ""}, {`1.`, ""}, {`-`, ""}, {`1e`, ""},
	{`1 2`, `3 ]`}, {`1 ]`, `3`}, {`1`, ``}, {`1`, `[`}, {`[`, `1`}, {"", ""}, {" \n", ""}, {`"é"`, ""}, {"\"\xff\"", ""}, {`{"a":{"b":[1,{"c":null}]}}` + "\n" + `[[[]]]`, ""},
}

func init() {
	register(&fw.Prop{
		ID: "C03",
		Rule: "value streams: all sequences of <= 3 values over {1, \"a\", [], [1,2], {\"a\":1}, null, true, -0.5e1, [3]} x separators {none where the grammar allows, blank, newline} x trailing newline, run with four programs (per-value output; a counter across values; every root kept in an array that END prints; BEGIN rules only -- truncation and read faults); " +
			"for each stream: every chunking when it is short, otherwise every schedule with <= k deviating Read answers (1 byte, up to each value boundary, boundary+1, (0,nil), last bytes together with EOF) plus the all-one-byte schedule; every truncation point; a sticky read error at every position (alone and together with the last bytes); " +
			"every single-byte replacement and insertion from 10 bytes at every position; a byte order mark (whole, cut off, doubled, UTF-16) in front of the stream and of every later value; plus fixed faulty streams; SEVERAL INPUTS: 5 first inputs x all later inputs of <= 2 values, both readers explored, every truncation point and a read error at every position (offset 0 included) of the later input, also as third of three inputs, " +
			"with the monitor also flagging any Read on a later input while output of the earlier inputs is outstanding; THE BINARY BEHIND A PIPE: 6 programs (newline-terminated output, printf without a newline, mixtures, 3000-byte fields) x 3 streams, each value written with one following byte and the next one held back until the value's output has arrived (generous 45 s limit, normal latency < 1 ms); LARGE VALUES: one value of 18 sizes around 512 B ... 300 kB (buffer thresholds) after 0 / 3 and before 1 / 5 / 64 / 5000 small records, delivered in 16 fixed Read sizes; oracle: an independent RFC 8259 stream scanner splits the bytes into complete values + clean/error/truncated, the model gives the output of the complete values, " +
			"a fault must be a JSON error naming the file, and a monitor on the reader/writer pair flags any Read issued while a complete value plus one following byte is already handed out and that value's output is not yet written; states = choice points (Read calls) visited; transitions = Read answers given",
		Plan: func(t fw.Tier) int { return len(c03Values)*16 + 1 + len(c03MultiFirst) + len(c03BigSizes) },
		Bound: func(t fw.Tier) string {
			if t == fw.Thorough {
				return "all chunkings of streams <= 14 bytes, k=3 deviations beyond; truncation / fault at every position with 1 deviation; all single-byte corruptions"
			}
			return "all chunkings of streams <= 12 bytes, k=2 deviations beyond; truncation / fault at every position with 1 deviation; all single-byte corruptions"
		},
		Assumptions: []string{"reference stream scanner mc/refsem/json.go", "a value that ends exactly where the reader fails (no following byte delivered) may or may not count as complete", "the monitor assumes every value produces output (the programs print per value)"},
		Run: func(c *fw.Ctx, u int) {
			if u == len(c03Values)*16 {
				stalled := false // one stalled pipe is enough: every further one would wait out the limit again
				for pi := range c03PipeProgs {
					for si := range c03PipeStreams {
						if stalled {
							continue
						}
						ps := c03Pipe{Form: "pipe", Prog: pi, Strm: si}
						c.Do(func() any { return ps }, func() *fw.Violation {
							v := c03PipeCheck(c, ps)
							stalled = stalled || v != nil
							return v
						})
					}
				}
				c.State("the binary behind a pausing pipe")
				c.Do(func() any { return c03Pipe{Form: "procfile"} }, func() *fw.Violation { return c03ProcFile(c) })
				for i, fx := range c03Fixed {
					fx, i := fx, i
					ex := c03Model(0, fx.first)
					cs := &c03Case{Data: fx.first, Prog: 0, Bound: 2, Second: fx.second}
					var n int64
					c.Do(func() any { return cs }, func() *fw.Violation { return c03Explore(c, cs, &ex, nil, 0, &n) })
					c.State(fmt.Sprintf("fixed stream %d", i))
				}
				return
			}
			if u > len(c03Values)*16 {
				k := u - len(c03Values)*16 - 1
				if k < len(c03MultiFirst) {
					c03MultiFamily(c, k, c.Thorough())
					return
				}
				size := c03BigSizes[k-len(c03MultiFirst)]
				for _, lead := range []int{0, 3} {
					for _, tail := range []int{1, 5, 64, 5000} {
						for _, chunk := range c03BigChunks {
							for shape := 0; shape < 2; shape++ {
								if !c.Thorough() && (shape == 1 || tail == 64) && chunk != 0 && chunk != 65536 && chunk != 4096 {
									continue
								}
								b := c03Big{Size: size, Lead: lead, Tail: tail, Chunk: chunk, Shape: shape}
								c.Do(func() any { return b }, func() *fw.Violation { return c03BigCheck(c, b) })
							}
						}
					}
				}
				c.State(fmt.Sprintf("large value of %d bytes", size))
				return
			}
			first, part := u/16, u%16
			for i, s := range c03Streams(first) {
				if i%16 != part {
					continue
				}
				if c.Expired() {
					return
				}
				c03Stream(c, s, c.Thorough())
			}
		},
		Replay: func(c *fw.Ctx, raw json.RawMessage) *fw.Violation {
			var probe struct {
				Files []c03MultiFile `json:"files"`
				Size  int            `json:"size"`
				Form  string         `json:"form"`
			}
			if !unmarshal(raw, &probe) {
				return nil
			}
			if probe.Form == "procfile" {
				return c03ProcFile(c)
			}
			if probe.Form == "pipe" {
				var ps c03Pipe
				unmarshal(raw, &ps)
				return c03PipeCheck(c, ps)
			}
			if probe.Size > 0 {
				var b c03Big
				unmarshal(raw, &b)
				return c03BigCheck(c, b)
			}
			if probe.Files != nil {
				var m c03Multi
				unmarshal(raw, &m)
				ex := c03MultiModel(m.Prog, m.Files)
				if m.Sched != nil {
					_, v := c03MultiRun(c, &m, &ex, m.Sched)
					return v
				}
				return c03MultiExplore(c, &m, &ex, nil, 0)
			}
			var cs c03Case
			if !unmarshal(raw, &cs) {
				return nil
			}
			ex := c03Model(cs.Prog, cs.Data)
			if cs.Sched != nil {
				_, v := c03Run(c, &cs, &ex, cs.Sched)
				return v
			}
			var n int64
			return c03Explore(c, &cs, &ex, nil, 0, &n)
		},
	})
}

// c03LongStream: n values; every Read hands out exactly the rest of one value and the first byte behind it, so that by the next
// Read the value is complete and followed by a byte. The monitor in Read flags a Read that is issued while the output of a
// value that was complete by then is not written - for every one of the n values, not only the first few.
func c03LongStream(c *fw.Ctx, n int) *fw.Violation {
	var sb strings.Builder
	for k := 1; k <= n; k++ {
		switch k % 4 {
		case 0:
			fmt.Fprintf(&sb, "[%d]\n", k)
		case 1:
			fmt.Fprintf(&sb, "%d ", k)
		case 2:
			fmt.Fprintf(&sb, "{\"v\": %d} ", k)
		default:
			fmt.Fprintf(&sb, "\"s%d\"\n", k)
		}
	}
	data := sb.String()
	cs := &c03Case{Data: data, Prog: 0, Monitor: true, AllChunk: true}
	ex := c03Model(0, data)
	if ex.status != StreamClean || ex.nvals != n {
		panic("c03LongStream: generated stream is not clean")
	}
	// schedule: with all chunkings allowed, choice j hands out (remaining - j) bytes
	var sched []int
	pos := 0
	for _, b := range ex.bounds {
		want := b + 1 - pos
		if pos+want > len(data) {
			want = len(data) - pos
		}
		if want <= 0 {
			continue
		}
		sched = append(sched, len(data)-pos-want)
		pos += want
	}
	_, v := c03Run(c, cs, &ex, sched)
	return v
}

// c03BurstStream: the first Read is answered with as many bytes as were asked for (a source that has data ready fills the
// buffer), every later Read with the rest of one value and one byte behind it. The same monitor as in c03Reader: no Read may be
// issued while the output of a value that was complete, and followed by a byte, at that moment is not written.
type c03Burst struct {
	data   []byte
	pos    int
	reads  int
	burst  int // Reads answered with a full buffer
	bounds []int
	cum    []int
	out    *c03Writer
	late   string
}

func (r *c03Burst) Read(p []byte) (int, error) {
	r.reads++
	if r.late == "" {
		for i, b := range r.bounds {
			if b+1 <= r.pos && r.out.n < r.cum[i+1] {
				r.late = fmt.Sprintf("Read #%d issued with %d bytes handed out: value %d ended at offset %d but only %d of its %d output bytes are written", r.reads, r.pos, i+1, b, r.out.n, r.cum[i+1])
				break
			}
		}
	}
	rem := len(r.data) - r.pos
	if rem == 0 {
		return 0, io.EOF
	}
	n := rem
	if r.reads <= r.burst {
		if n > len(p) {
			n = len(p)
		}
	} else {
		for _, b := range r.bounds {
			if b >= r.pos && b+1-r.pos >= 1 {
				if b+1-r.pos < n {
					n = b + 1 - r.pos
				}
				break
			}
		}
		if n > len(p) {
			n = len(p)
		}
	}
	copy(p, r.data[r.pos:r.pos+n])
	r.pos += n
	return n, nil
}

func c03BurstStream(c *fw.Ctx, n int) *fw.Violation {
	var sb strings.Builder
	for k := 1; k <= n; k++ {
		switch k % 3 {
		case 0:
			fmt.Fprintf(&sb, "[%d]\n", k)
		case 1:
			fmt.Fprintf(&sb, "%d ", k)
		default:
			fmt.Fprintf(&sb, "{\"v\": \"s%d\"} ", k)
		}
	}
	data := sb.String()
	ex := c03Model(0, data)
	if ex.status != StreamClean || ex.nvals != n {
		panic("c03BurstStream: generated stream is not clean")
	}
	for _, burst := range []int{1, 2, 3} {
		w := &c03Writer{}
		r := &c03Burst{data: []byte(data), burst: burst, bounds: ex.bounds, cum: ex.cum, out: w}
		s := drive.Spec{Program: Source(c03Progs[0], Style{}), Files: []drive.File{{Name: "in.json", Reader: r}}, Stdout: w, Budget: 5000000 + 2000*int64(n)}
		o := run(c, s)
		c.Traces++
		what := ""
		switch {
		case o.Kind != drive.KNone:
			what = "a clean stream ended in an error"
		case o.Stdout != ex.full[ex.nvals]:
			what = "output of a clean stream differs from processing its values one after another"
		case r.late != "":
			what = "the interpreter waited for later input before processing a complete value: " + r.late
		}
		if what != "" {
			o.Ev, o.Stdout = nil, clip(o.Stdout)
			return &fw.Violation{What: fmt.Sprintf("after %d Read(s) answered with a full buffer: %s", burst, what), Detail: map[string]any{"values": n, "bytes": len(data), "got": o}}
		}
	}
	return nil
}

// c03BigThenBad: a value of `big` bytes, two small values, then a malformed byte, delivered in Reads of at most `chunk` bytes
// (0: whatever is asked for). The values in front of the fault are processed, the fault is a JSON input error naming the file,
// whatever the two sizes are.
var c03BigThenBadGrid = func() [][2]int {
	var out [][2]int
	for _, big := range []int{10, 500, 4000, 4096, 5000, 7680, 7681, 8192, 12000, 70000} {
		for _, chunk := range []int{1, 7, 512, 4096, 4097, 5000, 8192, 0} {
			if chunk == 1 && big > 12000 {
				continue
			}
			out = append(out, [2]int{big, chunk})
		}
	}
	return out
}()

func c03BigThenBad(c *fw.Ctx, n int) *fw.Violation {
	big, chunk := c03BigThenBadGrid[n-1][0], c03BigThenBadGrid[n-1][1]
	for _, tail := range []string{" x", "\n[1, }", " {\"k\" 1}", "\n\"open"} {
		data := "\"" + strings.Repeat("a", big) + "\" \"bc\"\n[\"d\"]" + tail
		s := drive.Spec{Program: "{ print $.length() }\nEND { print \"end\" }\n", Files: []drive.File{{Name: "in.json", Reader: &chunkReader{data: []byte(data), chunk: chunk}}}, Budget: 50000000}
		o := run(c, s)
		c.Traces++
		want := fmt.Sprintf("%d\n2\n1\n", big)
		what := ""
		switch {
		case o.Kind == drive.KPanic || o.Kind == drive.KOther:
			what = "implementation panicked or returned a foreign error"
		case o.Kind != drive.KJson:
			what = "a malformed stream was not reported as a JSON input error"
		case o.FileName != "in.json":
			what = "the JSON input error does not name the file"
		case o.Stdout != want:
			what = "before the JSON input error, the output is not that of the complete values"
		}
		if what != "" {
			o.Ev, o.Stdout = nil, clip(o.Stdout)
			return &fw.Violation{What: fmt.Sprintf("a value of %d bytes, Reads of at most %d bytes: %s", big, chunk, what), Detail: map[string]any{"tail": tail, "want_stdout": want, "got": o}}
		}
	}
	return nil
}
