package props

import (
	"fmt"
	"math"
	"strings"

	"verif/mc/refsem"

	"verif/mc/drive"
)

func pad(k, w int) string { return fmt.Sprintf("%0*d", w, k) }

func nums(n int, sep string) string { return seqs2(n, sep, itoa) }

func tri(n int) int { return n * (n + 1) / 2 }

var scaleFamsCache []*scaleFam

func scaleFamilies() []*scaleFam {
	if scaleFamsCache == nil {
		scaleFamsCache = scaleFamiliesBuild()
	}
	return scaleFamsCache
}

func scaleFamiliesBuild() []*scaleFam {
	all := append(append(scaleSchemas(), specialFamilies()...), gridFamilies()...)
	// families that exercise a sentence of two properties are run under both
	for _, also := range [][2]string{{"a callee n frames below the function whose parameter it assigns", "C09"}, {"n pattern rules between a BEGIN and an END rule", "C07"},
		{"a function of p parameters recursing d deep, with a parameter assigned from the recursive call", "C09"}, {"a function of p parameters recursing d deep, with a parameter assigned from the recursive call", "C20"},
		{"a recursion d deep with e pending operators around the recursive call", "C20"}, {"a width and an argument of given lengths; two widths in a row", "C20"},
		{"a call of n arguments whose k-th argument is itself a call", "C16"}, {"a for-in statement that walks a growing object of n keys twice", "C07"},
		{"one name read through call paths that bind it at different distances", "C09"},
		{"cases whose alternatives bind different names, subjects in every order", "C11"},
		{"a literal as match subject, bound by name, assigned in the body, then the literal again", "C13"}, {"a literal as match subject, bound by name, assigned in the body, then the literal again", "C19"},
		{"root selectors with a variable of their own, value after value", "C10"}, {"faults inside a root selector are positioned in the selector", "C11"}, {"faults inside a root selector are positioned in the selector", "C20"},
		{"n control-flow signals that leave a match arm, a call or a loop through an expression", "C08"}, {"n control-flow signals that leave a match arm, a call or a loop through an expression", "C02"},
		{"a match case with an expression body that is left by next", "C08"}, {"a failing operator in every kind of rule", "C05"},
		{"what one special rule stores in $ and what the next one sees", "C15"}, {"what -o writes when a BEGINFILE rule ends the run", "C04"}} {
		for _, f := range all {
			if f.Name == also[0] {
				g := *f
				g.Prop = also[1]
				all = append(all, &g)
				break
			}
		}
	}
	return all
}

func scaleSchemas() []*scaleFam {
	one := []inFile{{Name: "in.json", Text: "[0]"}}
	return []*scaleFam{
		// ---------------------------------------------------------------- C02: rule schedule
		{Prop: "C02", Name: "n pattern rules between a BEGIN and an END rule", Max: 5000, QMax: 1100, Build: func(n int) scaleCase {
			prog := "BEGIN { print \"b\" }\n" + seqs2(n, "\n", func(k int) string { return "{ print " + itoa(k) + " }" }) + "\nEND { print \"e\" }\n"
			return scaleCase{Prog: prog, Files: one, Want: "b\n" + nums(n, "\n") + "\ne\n"}
		}},
		{Prop: "C02", Name: "n BEGIN rules, n END rules and n pattern rules of which every third matches", Max: 3000, QMax: 600, Build: func(n int) scaleCase {
			prog := seqs2(n, "\n", func(k int) string {
				return fmt.Sprintf("BEGIN { print \"b\", %d }\n$ %% 3 == %d { print \"p\", %d, $ }\nEND { print \"e\", %d }", k, k%3, k, k)
			})
			var w strings.Builder
			for k := 1; k <= n; k++ {
				fmt.Fprintf(&w, "b %d\n", k)
			}
			for _, rec := range []int{7, 8} {
				for k := 1; k <= n; k++ {
					if k%3 == rec%3 {
						fmt.Fprintf(&w, "p %d %d\n", k, rec)
					}
				}
			}
			for k := 1; k <= n; k++ {
				fmt.Fprintf(&w, "e %d\n", k)
			}
			return scaleCase{Prog: prog, Files: []inFile{{Name: "in.json", Text: "[7, 8]"}}, Want: w.String()}
		}},
		{Prop: "C02", Name: "n records that each end in next inside two nested statements", Max: 400000, QMax: 200000, Build: func(n int) scaleCase {
			in := "[" + strings.TrimSuffix(strings.Repeat("1,2,", (n+1)/2), ",") + "]"
			cnt := 2 * ((n + 1) / 2)
			return scaleCase{Prog: "{ if ($ > 0) { c++; if ($ == 1) { next } } }\n{ d++; next }\n{ print \"never\" }\nEND { print c, d, $index; if (1) { if (1) { if (1) { print \"ok\" } } } }\n", Files: []inFile{{Name: "in.json", Text: in}}, Want: fmt.Sprintf("%d %d %d\nok\n", cnt, cnt/2, cnt-1), NoModel: n > 20000}
		}},
		{Prop: "C02", Name: "an array of n records", Max: 70000, QMax: 5000, Build: func(n int) scaleCase {
			prog := "{ c++; s += $; if ($index != c - 1) { bad++ } }\n$ % 1000 == 0 { print $index, $ }\nEND { print c, s, bad is unknown, $index }\n"
			var w strings.Builder
			for k := 1000; k <= n; k += 1000 {
				fmt.Fprintf(&w, "%d %d\n", k-1, k)
			}
			fmt.Fprintf(&w, "%d %d true %d\n", n, tri(n), n-1)
			return scaleCase{Prog: prog, Files: []inFile{{Name: "in.json", Text: "[" + nums(n, ",") + "]"}}, Want: w.String(), CLI: n%64 < 3 || n < 80}
		}},
		{Prop: "C02", Name: "n input files", Max: 1100, QMax: 200, Build: func(n int) scaleCase {
			var files []inFile
			var w strings.Builder
			w.WriteString("begin\n")
			for k := 1; k <= n; k++ {
				name := fmt.Sprintf("f%d.json", k)
				var recs []string
				for r := 0; r < k%3+1; r++ {
					recs = append(recs, itoa(k*10+r))
				}
				files = append(files, inFile{Name: name, Text: "[" + strings.Join(recs, ", ") + "]"})
				fmt.Fprintf(&w, "bf %d\n", k)
				for r := 0; r < k%3+1; r++ {
					fmt.Fprintf(&w, "%d %d\n", r, k*10+r)
				}
				fmt.Fprintf(&w, "ef %d\n", k)
			}
			fmt.Fprintf(&w, "end %d\n", n)
			prog := "BEGIN { print \"begin\" }\nBEGINFILE { nf++; print \"bf\", nf }\n{ print $index, $ }\nENDFILE { print \"ef\", nf }\nEND { print \"end\", nf }\n"
			return scaleCase{Prog: prog, Files: files, Want: w.String(), CLI: n <= 130 || n%100 == 0}
		}},
		{Prop: "C02", Name: "n functions, called last-defined first", Max: 3000, QMax: 600, Build: func(n int) scaleCase {
			prog := "BEGIN { print f" + itoa(n) + "(), f1(), f" + itoa((n+1)/2) + "(); print " + seqs2(n, " + ", func(k int) string { return "f" + itoa(n+1-k) + "()" }) + " }\n" +
				seqs2(n, "\n", func(k int) string { return fmt.Sprintf("function f%d() { return %d }", k, k) }) + "\n"
			return scaleCase{Prog: prog, Want: fmt.Sprintf("%d 1 %d\n%d\n", n, (n+1)/2, tri(n))}
		}},
		// ---------------------------------------------------------------- C08: calls
		{Prop: "C08", Name: "a function of n parameters called with n arguments", Max: 3000, QMax: 600, Build: func(n int) scaleCase {
			params := seqs2(n, ", ", func(k int) string { return "p" + itoa(k) })
			prog := "function sum(" + params + ") { return " + seqs2(n, " + ", func(k int) string { return "p" + itoa(k) }) + " }\n" +
				"function last(" + params + ") { return p" + itoa(n) + " }\n" +
				"function first(" + params + ") { p" + itoa(n) + " = \"changed\"; return p1 }\n" +
				"function leak() { return p1 is unknown }\nfunction leak2(p" + itoa(n+1) + ") { return p" + itoa((n+1)/2) + " is unknown }\n" +
				"BEGIN { p" + itoa(n) + " = \"global\"; print sum(" + nums(n, ", ") + "), last(" + nums(n, ", ") + "), first(" + nums(n, ", ") + "), p" + itoa(n) + ", leak(), leak2(1) }\n"
			return scaleCase{Prog: prog, Want: fmt.Sprintf("%d %d %s global %s %s\n", tri(n), n, ifs(n == 1, "changed", "1"), ifs(n == 1, "false", "true"), ifs(n == 1, "false", "true"))}
		}},
		{Prop: "C08", Name: "a function of n parameters called with n - 1 arguments", Max: 3000, QMax: 600, Build: func(n int) scaleCase {
			params := seqs2(n, ", ", func(k int) string { return "p" + itoa(k) })
			prog := "function f(" + params + ") { r = p" + itoa(n) + " is null; p" + itoa(n) + " = 5; return r }\n" +
				"BEGIN { p" + itoa(n) + " = \"global\"; print f(" + nums(n-1, ", ") + "), f(" + nums(n-1, ", ") + "), p" + itoa(n) + " }\n"
			return scaleCase{Prog: prog, Want: "true true global\n"}
		}},
		{Prop: "C08", Name: "a function that creates n variables, then other calls", Max: 3000, QMax: 600, Build: func(n int) scaleCase {
			prog := "function make() { " + seqs2(n, "; ", func(k int) string { return fmt.Sprintf("l%d = %d", k, k) }) + "; return l1 + l" + itoa(n) + " }\n" +
				"function probe() { return l1 is unknown && l" + itoa(n) + " is unknown && l" + itoa((n+1)/2) + " is unknown }\nfunction probe2() { return m1 is unknown && m" + itoa(n) + " is unknown }\nfunction counter() { cnt++; return cnt }\n" +
				"BEGIN { g = 0 }\n{ print make(), probe(), counter(), counter(); match ($) { v => { " + seqs2(n, "; ", func(k int) string { return fmt.Sprintf("m%d = %d", k, k) }) + " } }\nprint probe2(), probe() }\n"
			return scaleCase{Prog: prog, Files: []inFile{{Name: "in.json", Text: "[1, 2]"}}, Want: fmt.Sprintf("%d true 1 1\ntrue true\n%d true 1 1\ntrue true\n", n+1, n+1)}
		}},
		{Prop: "C08", Name: "a callee n frames below the function whose parameter it assigns", Max: 3000, QMax: 600, Build: func(n int) scaleCase {
			prog := fmt.Sprintf("function count(total) { down(%d); return total }\nfunction down(k) { if (k == 0) { leaf(); return 0 } return down(k - 1) }\nfunction leaf() { total = total + 1 }\nBEGIN { total = 100; print count(0), total; print count(5), total }\n", n)
			return scaleCase{Prog: prog, Want: "1 100\n6 100\n"}
		}},
		{Prop: "C08", Name: "a chain of n distinct functions each calling the next", Max: 3000, QMax: 600, Build: func(n int) scaleCase {
			prog := seqs2(n-1, "\n", func(k int) string { return fmt.Sprintf("function f%d(x) { return f%d(x + 1) + 1 }", k, k+1) }) +
				fmt.Sprintf("\nfunction f%d(x) { return x }\nBEGIN { print f1(0), f1(100) }\n", n)
			return scaleCase{Prog: prog, Want: fmt.Sprintf("%d %d\n", 2*(n-1), 100+2*(n-1))}
		}},
		{Prop: "C08", Name: "n arguments with side effects, evaluated left to right and bound by position", Max: 2000, QMax: 400, Build: func(n int) scaleCase {
			params := seqs2(n, ", ", func(k int) string { return "p" + itoa(k) })
			prog := "function t(x) { order = order + \",\" + x; return x }\nfunction pick(" + params + ") { return p" + itoa(n) + " * 1000000 + p1 * 1000 + p" + itoa((n+1)/2) + " }\n" +
				"BEGIN { order = \"\"; print pick(" + seqs2(n, ", ", func(k int) string { return "t(" + itoa(k) + ")" }) + "); print order }\n"
			return scaleCase{Prog: prog, Want: fmt.Sprintf("%d\n,%s\n", n*1000000+1000+(n+1)/2, nums(n, ","))}
		}},
		// ---------------------------------------------------------------- C09: locations
		{Prop: "C09", Name: "n distinct global variables", Max: 5000, QMax: 1100, Build: func(n int) scaleCase {
			prog := "BEGIN {\n" + seqs2(n, "\n", func(k int) string { return fmt.Sprintf("v%d = %d", k, k) }) + "\nv" + itoa(n) + " += 1000000\nv1 -= 1\nprint " +
				seqs2(n, " + ", func(k int) string { return "v" + itoa(k) }) + "\nprint v1, v" + itoa((n+1)/2) + ", v" + itoa(n) + ", v" + itoa(n+1) + " is unknown\n}\n"
			mid := (n + 1) / 2
			vals := func(k int) int {
				v := k
				if k == n {
					v += 1000000
				}
				if k == 1 {
					v--
				}
				return v
			}
			return scaleCase{Prog: prog, Want: fmt.Sprintf("%d\n%d %d %d true\n", tri(n)+1000000-1, vals(1), vals(mid), vals(n))}
		}},
		{Prop: "C09", Name: "a chain of n member accesses created by one assignment", Max: 2000, QMax: 400, Build: func(n int) scaleCase {
			chain := "o" + strings.Repeat(".a", n)
			prog := "BEGIN { " + chain + " = 5; " + chain + "++; print " + chain + ", o" + strings.Repeat(".a", n-1) + " is object || " + itoa(n) + " == 1, o.b is unknown || o.b is null }\n"
			return scaleCase{Prog: prog, Want: "6 true true\n"}
		}},
		{Prop: "C09", Name: "a chain of n index accesses created by one assignment", Max: 2000, QMax: 400, Build: func(n int) scaleCase {
			chain := "a" + strings.Repeat("[0]", n)
			prog := "BEGIN { " + chain + " = 5; " + chain + " += 2; print " + chain + ", a.length(), a" + strings.Repeat("[0]", n-1) + ".length() }\n"
			return scaleCase{Prog: prog, Want: "7 1 1\n"}
		}},
		{Prop: "C09", Name: "n elements stored one by one, one replaced", Max: 70000, QMax: 5000, Build: func(n int) scaleCase {
			prog := fmt.Sprintf("BEGIN { for (i = 0; i < %d; i++) { a[i] = i + 1 } b = a; a[%d] = -1; for (v in a) { s += v } for (v in b) { t += v } print a.length(), s, t, a[0], a[%d], a[-1] }\n", n, n/2, n-1)
			last := n
			if n/2 == n-1 {
				last = -1
			}
			first := 1
			if n/2 == 0 {
				first = -1
			}
			s := tri(n) - (n/2 + 1) - 1
			return scaleCase{Prog: prog, Want: fmt.Sprintf("%d %d %d %d %d %d\n", n, s, s, first, last, last)}
		}},
		{Prop: "C09", Name: "n keys stored one by one, one replaced", Max: 70000, QMax: 5000, Build: func(n int) scaleCase {
			prog := fmt.Sprintf("BEGIN { for (i = 0; i < %d; i++) { o[\"k\" + i] = i + 1 } o.k%d = -1; for (k, v in o) { s += v; c++ } print o.length(), c, s, o.k0, o[\"k%d\"], o.k%d is unknown || o.k%d is null }\n", n, n/2, n-1, n, n)
			last := n
			if n/2 == n-1 {
				last = -1
			}
			first := 1
			if n/2 == 0 {
				first = -1
			}
			s := tri(n) - (n/2 + 1) - 1
			return scaleCase{Prog: prog, Want: fmt.Sprintf("%d %d %d %d %d true\n", n, n, s, first, last)}
		}},
		// ---------------------------------------------------------------- C06: grouping
		{Prop: "C06", Name: "operator chains of n operands", Max: 3000, QMax: 600, Build: func(n int) scaleCase {
			ones := func(op string) string { return seqs2(n, " "+op+" ", func(int) string { return "1" }) }
			prog := "BEGIN { print " + ones("+") + "\nprint 1000000 - " + ones("-") + "\nprint " + seqs2(n, " + ", func(k int) string { return "\"" + string(rune('a'+k%26)) + "\"" }) +
				"\nprint " + seqs2(n, " && ", func(int) string { return "true" }) + " && 0\nprint " + seqs2(n, " || ", func(int) string { return "0" }) + " || \"x\"\nprint 1 + " +
				seqs2(n, " + ", func(int) string { return "2 * 3" }) + "\nprint 7 - 2 * " + ones("*") + " - 1\nprint 1 + 2 + \"s\" + " + ones("+") + "\nprint true + null + " + ones("+") + " + \"s\" + 1 + 2 }\n"
			return scaleCase{Prog: prog, Want: fmt.Sprintf("%d\n%d\n%s\nfalse\ntrue\n%d\n4\n3s%s\n%ds12\n", n, 1000000-n, seqs2(n, "", func(k int) string { return string(rune('a' + k%26)) }), 1+6*n, strings.Repeat("1", n), n+1)}
		}},
		{Prop: "C06", Name: "n nested parentheses, signs, negations and brackets", Max: 2000, QMax: 400, Build: func(n int) scaleCase {
			prog := "BEGIN { print " + strings.Repeat("(", n) + "1" + strings.Repeat(")", n) + " + 1\nprint " + strings.Repeat("- ", n) + "1\nprint " + strings.Repeat("! ", n) + "true\nprint " +
				strings.Repeat("[", n) + "1" + strings.Repeat("]", n) + strings.Repeat("[0]", n-1) + "\nprint 2 * " + strings.Repeat("(1 + ", n) + "1" + strings.Repeat(")", n) + " + 1\nprint 2 * " + strings.Repeat("(", n) + "3" + strings.Repeat(")", n) + " + 1, 10 - " + strings.Repeat("(", n) + "3" + strings.Repeat(")", n) + " - 2, 2 * f(" + strings.Repeat("g(", n) + "3" + strings.Repeat(")", n) + ") + 1, 10 - a" + strings.Repeat("[0]", n) + " - 2 }\nfunction f(x) { return x }\nfunction g(x) { return x }\nBEGIN { }\n"
			prog = "BEGIN { a" + strings.Repeat("[0]", n) + " = 3 }\n" + prog
			sign, neg := "1", "true"
			if n%2 == 1 {
				sign, neg = "-1", "false"
			}
			return scaleCase{Prog: prog, Want: fmt.Sprintf("2\n%s\n%s\n[1]\n%d\n7 5 7 5\n", sign, neg, 2*(n+1)+1)}
		}},
		// ---------------------------------------------------------------- C05: operators on long operands
		{Prop: "C05", Name: "strings of n bytes as operands", Max: 70000, QMax: 5000, Build: func(n int) scaleCase {
			x := strings.Repeat("x", n)
			prog := fmt.Sprintf("BEGIN { a = \"%sa\"; b = \"%sb\"; print a < b, a > b, a == b, a != b, a == \"%sa\", (a + b).length(), a ~ \"a$\", a ~ \"b$\", a ~ b, (a + 1).length(), a * 1, a && true, ! a }\n", x, x, x)
			return scaleCase{Prog: prog, Want: fmt.Sprintf("true false false true true %d true false false %d 0 true false\n", 2*n+2, n+2)}
		}},
		{Prop: "C05", Name: "numerals and numeric strings of n digits", Max: 400, QMax: 200, Dense: 400, Build: func(n int) scaleCase {
			d := strings.Repeat("9", n)
			// 0.999...9 with n nines and 1 followed by n zeros after the point: exact decimal -> double conversions
			prog := fmt.Sprintf("BEGIN { a = \"1%s\"; b = \"2%s\"; print a < b, a == b, a + 0 < b + 0, \"0.%s5\" + 0 == 0.%s5, 1.%s == 1, \"1.%s\" == 1, 0.%s <= 1 }\n", strings.Repeat("0", n), strings.Repeat("0", n), strings.Repeat("0", n), strings.Repeat("0", n), strings.Repeat("0", n), strings.Repeat("0", n), d)
			return scaleCase{Prog: prog, Want: "true false true true true true true\n"}
		}},
		// ---------------------------------------------------------------- C07: control flow
		{Prop: "C07", Name: "n nested conditionals", Max: 2000, QMax: 400, Build: func(n int) scaleCase {
			prog := "BEGIN { " + seqs2(n, " ", func(k int) string { return fmt.Sprintf("if (x%d is unknown) {", k) }) + " print \"in\" " + seqs2(n, " ", func(k int) string { return fmt.Sprintf("} else { print \"no\", %d }", n+1-k) }) +
				"\n" + seqs2(n, " ", func(k int) string { return fmt.Sprintf("if (%d) {", k%2) }) + " print \"in2\" " + strings.Repeat("} ", n) + "\nprint \"after\" }\n"
			want := "in\n"
			if n == 1 {
				want += "in2\n"
			}
			return scaleCase{Prog: prog, Want: want + "after\n"}
		}},
		{Prop: "C07", Name: "n nested loops of one iteration", Max: 1000, QMax: 300, Build: func(n int) scaleCase {
			prog := "BEGIN { " + seqs2(n, " ", func(k int) string {
				switch k % 3 {
				case 0:
					return fmt.Sprintf("for (i%d = 0; i%d < 1; i%d++) {", k, k, k)
				case 1:
					return fmt.Sprintf("for (v%d in [%d]) {", k, k)
				}
				return fmt.Sprintf("w%d = 0; while (w%d++ < 1) {", k, k)
			}) + " c++; if (c > 0) { continue } c = 99 " + strings.Repeat("} ", n) + " print c, v1 }\n"
			return scaleCase{Prog: prog, Want: "1 1\n"}
		}},
		{Prop: "C07", Name: "an else-if chain of n arms", Max: 3000, QMax: 600, Build: func(n int) scaleCase {
			chain := seqs2(n, " else ", func(k int) string { return fmt.Sprintf("if (x == %d) { return \"a%d\" }", k, k) }) + " else { return \"none\" }"
			prog := "function arm(x) { " + chain + " }\nBEGIN { print arm(1), arm(" + itoa((n+1)/2) + "), arm(" + itoa(n) + "), arm(" + itoa(n+1) + "), arm(0) }\n"
			return scaleCase{Prog: prog, Want: fmt.Sprintf("a1 a%d a%d none none\n", (n+1)/2, n)}
		}},
		{Prop: "C07", Name: "a block of n statements, on lines and on one line", Max: 70000, QMax: 5000, Build: func(n int) scaleCase {
			prog := "BEGIN {\n" + strings.Repeat("c++\n", n) + "print c\n" + strings.Repeat("d++; ", n) + "print d\n}\n"
			return scaleCase{Prog: prog, Want: fmt.Sprintf("%d\n%d\n", n, n)}
		}},
		{Prop: "C07", Name: "a loop of n iterations with continue, break and a nested loop", Max: 70000, QMax: 5000, Build: func(n int) scaleCase {
			prog := fmt.Sprintf("BEGIN { i = 0; e = 0; m = 0; while (true) { i++; if (i > %d) { break } if (i %% 2 == 1) { continue } for (j = 0; j < 3; j++) { if (j == 1) { continue } if (j == 2) { break } e++ } } print i, e; for (k = %d; k > 0; k--) { if (k %% 3 == 0) continue; m++ } print k, m }\n", n, n)
			return scaleCase{Prog: prog, Want: fmt.Sprintf("%d %d\n0 %d\n", n+1, n/2, n-n/3)}
		}},
		{Prop: "C07", Name: "n control-flow signals that leave a match arm, a call or a loop through an expression", Max: 400000, QMax: 400000, Build: func(n int) scaleCase {
			prog := fmt.Sprintf("function skip(v) { if (v %% 2 == 0) { next } return v }\nfunction pick(v) { for (x in [v]) { return match (x) { 0 => 0, k => { return k + 1 } } } }\nBEGIN { odd = 0; t = 0; for (i = 0; i < %d; i++) { match (i %% 2) { 0 => { continue }, 1 => { if (i > %d) { break } } } odd++ } print odd; for (i = 0; i < %d; i++) { t += pick(1) } print t }\n{ cnt += ! ! ! ! skip($index) > 0 }\nEND { print cnt; print match ([1, 2]) { [1, 3] => \"a\", [2, y] => \"b\", [z, 2] => \"c\" } }\n", n, n, n)
			recs := 2000
			return scaleCase{Prog: prog, Files: []inFile{{Name: "in.json", Text: "[" + strings.TrimSuffix(strings.Repeat("0,", recs), ",") + "]"}}, Want: fmt.Sprintf("%d\n%d\n%d\nc\n", n/2, 2*n, recs/2), NoModel: n > 20000}
		}},
		{Prop: "C19", Name: "n records through array patterns that fail at an element before one matches", Max: 400000, QMax: 400000, Build: func(n int) scaleCase {
			var sb strings.Builder
			sb.WriteString("[")
			for k := 1; k <= n; k++ {
				if k > 1 {
					sb.WriteString(",")
				}
				sb.WriteString([]string{`["add",2]`, `["sub",1]`, `["other",5]`}[k%3])
			}
			sb.WriteString("]")
			add, sub := (n+2)/3, (n+1)/3 // k%3==1 -> sub? computed below
			add, sub = 0, 0
			for k := 1; k <= n; k++ {
				switch k % 3 {
				case 0:
					add++
				case 1:
					sub++
				}
			}
			return scaleCase{Prog: "{ total += match ($) { [\"add\", v] => v, [\"sub\", v] => 0 - v, [w, v] => 0 } }\nEND { print total, (1 + (2 + (3 + 4))) }\n", Files: []inFile{{Name: "in.json", Text: sb.String()}}, Want: fmt.Sprintf("%d 10\n", 2*add-sub), NoModel: n > 20000}
		}},
		// ---------------------------------------------------------------- C19: match
		{Prop: "C19", Name: "a match of n literal cases", Max: 3000, QMax: 600, Build: func(n int) scaleCase {
			cases := seqs2(n, ", ", func(k int) string { return fmt.Sprintf("%d => \"c%d\"", k, k) })
			scases := seqs2(n, ", ", func(k int) string { return fmt.Sprintf("\"s%d\" => %d", k, k) })
			prog := "function m(x) { return match (x) { " + cases + ", _ => \"none\" } }\nfunction s(x) { return match (x) { " + scases + ", other => other } }\n" +
				fmt.Sprintf("BEGIN { print m(1), m(%d), m(%d), m(%d), m(\"x\"), s(\"s%d\"), s(\"s1\"), s(\"s%d\"), s(7) }\n", (n+1)/2, n, n+1, n, n+1)
			return scaleCase{Prog: prog, Want: fmt.Sprintf("c1 c%d c%d none none %d 1 s%d 7\n", (n+1)/2, n, n, n+1)}
		}},
		{Prop: "C19", Name: "an array pattern of n elements", Max: 2000, QMax: 400, Build: func(n int) scaleCase {
			names := seqs2(n, ", ", func(k int) string { return "a" + itoa(k) })
			prog := "function m(x) { return match (x) { [" + nums(n-1, ", ") + ifs(n > 1, ", ", "") + "0] => \"zero\", [" + nums(n, ", ") + "] => \"literal\", [" + names + "] => a1 + a" + itoa(n) + ", _ => \"no\" } }\n" +
				"BEGIN { print m([" + nums(n, ", ") + "]), m([" + nums(n-1, ", ") + ifs(n > 1, ", ", "") + "0]), m([" + seqs2(n, ", ", func(k int) string { return itoa(k * 2) }) + "]), m([" + nums(n+1, ", ") + "]), m([" + nums(n-1, ", ") + "]) }\n"
			return scaleCase{Prog: prog, Want: fmt.Sprintf("literal zero %d no no\n", 2+2*n)}
		}},
		// ---------------------------------------------------------------- C17: print
		{Prop: "C17", Name: "a print list of n items", Max: 5000, QMax: 1100, Build: func(n int) scaleCase {
			prog := "BEGIN { print " + nums(n, ", ") + "\nprint " + seqs2(n, ", ", func(k int) string { return []string{"\"s\"", "null", "true", "[" + itoa(k) + "]", "1.5"}[k%5] }) + " }\n"
			return scaleCase{Prog: prog, Want: nums(n, " ") + "\n" + seqs2(n, " ", func(k int) string { return []string{"s", "null", "true", "[" + itoa(k) + "]", "1.5"}[k%5] }) + "\n"}
		}},
		{Prop: "C17", Name: "arrays of n elements and objects of n keys printed whole", Max: 5000, QMax: 1100, Build: func(n int) scaleCase {
			obj := seqs2(n, ", ", func(k int) string { return fmt.Sprintf("customer_key_%s: %d", pad(n+1-k, 5), n+1-k) })
			prog := "BEGIN { a = [" + nums(n, ", ") + "]; print a; o = {" + obj + "}; print o; print [a, \"s\"][1], [o][0].customer_key_" + pad(n, 5) + " }\n"
			return scaleCase{Prog: prog, Want: "[" + nums(n, ", ") + "]\n{" + seqs2(n, ", ", func(k int) string { return fmt.Sprintf("\"customer_key_%s\": %d", pad(k, 5), k) }) + "}\ns " + itoa(n) + "\n"}
		}},
		{Prop: "C17", Name: "arrays nested n deep printed whole", Max: 2000, QMax: 400, Build: func(n int) scaleCase {
			prog := "BEGIN { a = 1; for (i = 0; i < " + itoa(n) + "; i++) { a = [a, \"s\"] } print a; o = 2; for (i = 0; i < " + itoa(n) + "; i++) { o = {k: o} } print o }\n"
			return scaleCase{Prog: prog, Want: strings.Repeat("[", n) + "1" + strings.Repeat(", \"s\"]", n) + "\n" + strings.Repeat("{\"k\": ", n) + "2" + strings.Repeat("}", n) + "\n"}
		}},
		{Prop: "C17", Name: "a value shared by two siblings below n levels of nesting", Max: 2000, QMax: 400, Build: func(n int) scaleCase {
			prog := fmt.Sprintf("BEGIN { e = [1]; o = {k: 2}; v = [e, e, o, o]; w = {a: e, b: e}; for (i = 0; i < %d; i++) { v = [v]; w = {n: w} } print v; print w }\n", n)
			return scaleCase{Prog: prog, Want: strings.Repeat("[", n) + "[[1], [1], {\"k\": 2}, {\"k\": 2}]" + strings.Repeat("]", n) + "\n" + strings.Repeat("{\"n\": ", n) + "{\"a\": [1], \"b\": [1]}" + strings.Repeat("}", n) + "\n"}
		}},
		{Prop: "C17", Name: "numbers that are exact in single precision, printed", Max: 120, QMax: 120, Dense: 120, Build: func(n int) scaleCase {
			var vals []float64
			for _, base := range []float64{0.1, 0.3, 1.1, 2.7, 1e-5, 123.456, 1.0 / 3, 16777217.5} {
				vals = append(vals, float64(float32(base*float64(n))), float64(float32(base/float64(n))))
			}
			vals = append(vals, math.Ldexp(1, -n), math.Ldexp(3, -n), -math.Ldexp(5, -n-3))
			var in, want []string
			for _, f := range vals {
				in = append(in, refsem.FormatNum(f))
				want = append(want, refsem.FormatNum(f)+" ["+refsem.FormatNum(f)+"] "+refsem.FormatNum(f*2))
			}
			return scaleCase{Prog: "{ print $, [$], $ * 2 }\n", Files: []inFile{{Name: "in.json", Text: "[" + strings.Join(in, ", ") + "]"}}, Want: strings.Join(want, "\n") + "\n"}
		}},
		{Prop: "C17", Name: "a doubly linked chain of n nodes printed from its head", Max: 1000, QMax: 200, Build: func(n int) scaleCase {
			prog := fmt.Sprintf("BEGIN { head = [0, null, null]; cur = head; for (i = 1; i < %d; i++) { nx = [i, null, cur]; cur[1] = nx; cur = nx } print head; print \"done\" }\n", n)
			return scaleCase{Prog: prog, ModelWant: true}
		}},
		{Prop: "C17", Name: "strings of n characters printed bare and inside a container", Max: 70000, QMax: 5000, Build: func(n int) scaleCase {
			unit := []string{"x", "é", "\\n", "€", "\\t"}
			shown := []string{"x", "é", "\n", "€", "\t"}
			lit := seqs2(n, "", func(k int) string { return unit[k%5] })
			prog := "BEGIN { s = \"" + lit + "\"; print s; print [s]; print s.length() }\n"
			text := seqs2(n, "", func(k int) string { return shown[k%5] })
			return scaleCase{Prog: prog, Want: text + "\n[\"" + text + "\"]\n" + itoa(len(text)) + "\n"}
		}},
		// ---------------------------------------------------------------- C18: printf
		{Prop: "C18", Name: "a format of n directives with n arguments", Max: 3000, QMax: 600, Build: func(n int) scaleCase {
			dirs := []string{"%v", "%s", "%3v", "%-3s", "%%", "%f"}
			format := seqs2(n, ",", func(k int) string { return dirs[k%6] })
			var args, want []string
			for k := 1; k <= n; k++ {
				switch k % 6 {
				case 0:
					args, want = append(args, itoa(k)), append(want, itoa(k))
				case 1:
					args, want = append(args, "\"s"+itoa(k)+"\""), append(want, "s"+itoa(k))
				case 2:
					args, want = append(args, itoa(k%7)), append(want, "  "+itoa(k%7))
				case 3:
					args, want = append(args, "\"ab\""), append(want, "ab ")
				case 4:
					want = append(want, "%")
				case 5:
					args, want = append(args, "0.5"), append(want, "0.5")
				}
			}
			prog := "BEGIN { printf(\"" + format + "\\n\"" + ifs(len(args) > 0, ", ", "") + strings.Join(args, ", ") + ") }\n"
			return scaleCase{Prog: prog, Want: strings.Join(want, ",") + "\n"}
		}},
		{Prop: "C18", Name: "n bytes of literal text in front of every directive", Max: 5000, QMax: 1100, Build: func(n int) scaleCase {
			t := strings.Repeat("average: ", n/9+1)[:n]
			prog := "BEGIN { printf(\"" + t + "%s" + t + "%%" + t + "%3v" + t + "%f|\\n\", \"S\", 7, 0.5); printf(\"" + t + "%s\\n\", 5) }\n"
			return scaleCase{Prog: prog, Want: t + "S" + t + "%" + t + "  7" + t + "0.5|\n", Kind: drive.KRuntime}
		}},
		{Prop: "C18", Name: "a string argument of n bytes under widths around n", Max: 60000, QMax: 5000, Build: func(n int) scaleCase {
			s := strings.Repeat("y", n)
			prog := fmt.Sprintf("BEGIN { s = \"%s\"; printf(\"%%s|%%%ds|%%%ds|%%-%ds|%%%ds|\\n\", s, s, s, s, s) }\n", s, n, n+3, n+2, imax(n-1, 1))
			return scaleCase{Prog: prog, Want: s + "|" + s + "|   " + s + "|" + s + "  |" + s + "|\n"}
		}},
		// ---------------------------------------------------------------- C16: string methods
		{Prop: "C16", Name: "upper and lower of n ASCII bytes followed by, preceded by and around a letter that is not ASCII", Max: 5000, QMax: 1100, Build: func(n int) scaleCase {
			a := strings.Repeat("ab", n/2+1)[:n]
			A := strings.ToUpper(a)
			prog := fmt.Sprintf("BEGIN { print \"%sé\".upper(), \"É%s\".lower(), \"%sñ%s\".upper(), \"%sÉÑ\".lower(), \"%sß\".upper().length() }\n", a, A, a, a, A, a)
			return scaleCase{Prog: prog, Want: fmt.Sprintf("%sÉ é%s %sÑ%s %séñ %d\n", A, a, A, A, a, len(strings.ToUpper(a+"ß")))}
		}},
		{Prop: "C16", Name: "split, join, upper, lower and length on n fields", Max: 70000, QMax: 5000, Build: func(n int) scaleCase {
			prog := fmt.Sprintf("BEGIN { for (i = 1; i <= %d; i++) { if (i > 1) { s = s + \",\" } s = s + \"ab\" } p = s.split(\",\"); for (f in p) { if (f != \"ab\") { bad++ } } print p.length(), p[0], p[-1], bad is unknown, s.upper().lower() == s, s.upper().length(), s.length(), s.split(\"b,a\").length(), s.split(\"\").length(), s.upper().split(\"B\").length() }\n", n)
			return scaleCase{Prog: prog, Want: fmt.Sprintf("%d ab ab true true %d %d %d %d %d\n", n, 3*n-1, 3*n-1, n, 3*n-1, n+1)}
		}},
		// ---------------------------------------------------------------- C15: array methods
		{Prop: "C15", Name: "n pushes, a sort, n pops and n popfirsts", Max: 20000, QMax: 3000, Build: func(n int) scaleCase {
			prog := fmt.Sprintf("BEGIN { a = []; for (i = %d; i >= 1; i--) { a.push(i * 7 %% %d) } b = a.sort(); bad = 0; for (i = 1; i < b.length(); i++) { if (b[i - 1] > b[i]) { bad++ } } print a.length(), b.length(), bad, a[0] == %d * 7 %% %d, b.contains(a[0]), b.contains(-1); "+
				"c = 0; while (a.length() > %d) { a.pop(); c++ } while (a.length() > 0) { a.popfirst(); c++ } print c, a.length(), b.length(); b.push(\"end\"); print b[-1], b.length() }\n", n, n+1, n, n+1, n/2)
			return scaleCase{Prog: prog, Want: fmt.Sprintf("%d %d 0 true true false\n%d 0 %d\nend %d\n", n, n, n, n, n+1)}
		}},
		// ---------------------------------------------------------------- C11 / C12: faults after n steps, on line n
		{Prop: "C11", Name: "n lines of output before a runtime fault", Max: 70000, QMax: 5000, Build: func(n int) scaleCase {
			prog := fmt.Sprintf("BEGIN { for (i = 1; i <= %d; i++) { print \"line\", i } x = 1 %% 0; print \"after\" }\nEND { print \"end\" }\n", n)
			return scaleCase{Prog: prog, Want: seqs2(n, "", func(k int) string { return "line " + itoa(k) + "\n" }), Kind: drive.KRuntime, CLI: n%64 < 3 || n < 80}
		}},
		{Prop: "C11", Name: "n valid print statements before a syntax error", Max: 20000, QMax: 3000, Build: func(n int) scaleCase {
			prog := "BEGIN {\n" + seqs2(n, "\n", func(k int) string { return "print " + itoa(k) }) + "\n}\nEND { print ) }\n"
			return scaleCase{Prog: prog, Want: "", Kind: drive.KSyntax, NoModel: true, CLI: n < 40}
		}},
		{Prop: "C11", Name: "a match of n string cases on a container subject", Max: 3000, QMax: 600, Build: func(n int) scaleCase {
			cases := seqs2(n, ", ", func(k int) string { return fmt.Sprintf("\"s%d\" => %d", k, k) })
			prog := "function m(x) { return match (x) { " + cases + ", other => \"default\" } }\nfunction m2(x) { return match (x) { " + cases + " } }\n{ print \"before\", m(\"s" + itoa(n) + "\"), m(7), m2(\"zz\") is null; print m" + ifs(n%2 == 0, "", "2") + "($); print \"after\" }\nEND { print \"end\" }\n"
			return scaleCase{Prog: prog, Files: []inFile{{Name: "in.json", Text: "[[1], 2]"}}, Want: fmt.Sprintf("before %d default true\n", n), Kind: drive.KRuntime}
		}},
		{Prop: "C12", Name: "a runtime fault on line n", Max: 70000, QMax: 5000, Build: func(n int) scaleCase {
			src := "  y = 1 % 0 # \x1b[31mcolour\x1b[0m \"é\" \x1b[2J"
			prog := "BEGIN {" + strings.Repeat("\n", n-1) + src + "\n}\n"
			if n == 1 {
				src = "BEGIN {" + src
			}
			return scaleCase{Prog: prog, Want: "", Kind: drive.KRuntime, Line: n, SrcLine: src}
		}},
		{Prop: "C12", Name: "a runtime fault at column n of one long line, through the binary as well", Max: 60000, QMax: 5000, Build: func(n int) scaleCase {
			line := "BEGIN { x = \"" + strings.Repeat("a", imax(n-14, 1)) + "\"; y = 1 % 0 }"
			return scaleCase{Prog: "# first line\n" + line + "\nEND { print 1 }\n", Want: "", Kind: drive.KRuntime, Line: 2, SrcLine: line, CLI: true}
		}},
		{Prop: "C12", Name: "a syntax error on line n behind n - 1 statement lines", Max: 70000, QMax: 5000, Build: func(n int) scaleCase {
			prog := "BEGIN {\n" + strings.Repeat("x = 1 # c\n", n-1) + "  y = 1 + )\n}\n"
			return scaleCase{Prog: prog, Want: "", Kind: drive.KSyntax, Line: n + 1, SrcLine: "  y = 1 + )", NoModel: true}
		}},
		{Prop: "C12", Name: "an illegal character in the first column of line n", Max: 70000, QMax: 5000, Build: func(n int) scaleCase {
			prog := "BEGIN {\n" + strings.Repeat("x = 1\n", n-1) + "@ = 2\n}\n"
			return scaleCase{Prog: prog, Want: "", Kind: drive.KSyntax, Line: n + 1, SrcLine: "@ = 2", NoModel: true}
		}},
		{Prop: "C12", Name: "a runtime fault whose operand starts line n in the first column", Max: 70000, QMax: 5000, Build: func(n int) scaleCase {
			prog := "BEGIN {\n" + strings.Repeat("x = 1\n", n-1) + "$nope\n}\n"
			return scaleCase{Prog: prog, Want: "", Kind: drive.KRuntime, Line: n + 1, SrcLine: "$nope"}
		}},
		// ---------------------------------------------------------------- C13: lexical
		{Prop: "C13", Name: "identifiers, numerals and string literals of n characters", Max: 60000, QMax: 5000, Build: func(n int) scaleCase {
			id := "v" + strings.Repeat("a_1", (n+2)/3)[:n]
			prog := "BEGIN { " + id + " = 5; " + id + "b = 6; print " + id + ", " + id + "b, 0." + strings.Repeat("0", n) + "5 < 1, 1" + strings.Repeat("0", n%300) + " > 0, \"" + strings.Repeat("q", n) + "\".length(), '" + strings.Repeat("q", n) + "'.length() }\n"
			return scaleCase{Prog: prog, Want: fmt.Sprintf("5 6 true true %d %d\n", n, n)}
		}},
		{Prop: "C13", Name: "string literals of n bytes that hold every escape and bytes that are not UTF-8", Max: 60000, QMax: 5000, Build: func(n int) scaleCase {
			units := []string{"ab", "\\\\U", "\\n", "é", "\\\\", "\\t", "C:\\\\me", "\xe9", "\x80\\n", "q"}
			shown := []string{"ab", "\\U", "\n", "é", "\\", "\t", "C:\\me", "\xe9", "\x80\n", "q"}
			var lit, text strings.Builder
			for k := 0; lit.Len() < n; k++ {
				lit.WriteString(units[k%10])
				text.WriteString(shown[k%10])
			}
			prog := "BEGIN { s = \"" + lit.String() + "\"; t = '" + lit.String() + "'; print s; print s == t, s.length() }\n"
			return scaleCase{Prog: prog, Want: text.String() + "\ntrue " + itoa(text.Len()) + "\n", NoModel: true}
		}},
		// ---------------------------------------------------------------- C03: input stream
		{Prop: "C03", Name: "a stream of n top-level values", Max: 70000, QMax: 5000, Build: func(n int) scaleCase {
			in := seqs2(n, " ", func(k int) string {
				return []string{itoa(k), "[" + itoa(k) + "]", "{\"v\": " + itoa(k) + "}", "\"" + itoa(k) + "\"", "null"}[k%5]
			})
			prog := "BEGINFILE { c++ }\nEND { print c }\n"
			return scaleCase{Prog: prog, Files: []inFile{{Name: "in.json", Text: in}}, Want: itoa(n) + "\n", CLI: n%64 < 3 || n < 80}
		}},
		{Prop: "C03", Name: "a stream of n values handed out one value per Read, output watched at every Read", Max: 3000, QMax: 600, Dense: 200, Custom: c03LongStream},
		{Prop: "C03", Name: "a stream of n values whose first Reads are answered with a full buffer, the rest one value per Read", Max: 3000, QMax: 600, Dense: 200, Custom: c03BurstStream},
		{Prop: "C03", Name: "a big value, two small ones, then a malformed byte, for every pair of value size and Read size", Max: len(c03BigThenBadGrid), QMax: len(c03BigThenBadGrid), All: true, Custom: c03BigThenBad},
		{Prop: "C03", Name: "n complete values in front of a malformed one", Max: 70000, QMax: 5000, Build: func(n int) scaleCase {
			in := seqs2(n, "\n", func(k int) string { return "[" + itoa(k) + "]" }) + "\n[1, }"
			prog := "{ print $ }\nEND { print \"end\" }\n"
			return scaleCase{Prog: prog, Files: []inFile{{Name: "in.json", Text: in}}, Want: seqs2(n, "", func(k int) string { return itoa(k) + "\n" }), Kind: drive.KJson, ErrFile: "in.json", CLI: n%64 < 3 || n < 80}
		}},
		// ---------------------------------------------------------------- C14: the wrapper
		{Prop: "C14", Name: "a program file of n statements through -f", Max: 70000, QMax: 40000, Build: func(n int) scaleCase {
			prog := "BEGIN {\n" + strings.Repeat("c = c + 1\n", n) + "}\n{ print $, c }\nEND { print \"end\", c }\n"
			return scaleCase{Prog: prog, Files: []inFile{{Name: "in.json", Text: "[1, 2]"}}, Want: fmt.Sprintf("1 %d\n2 %d\nend %d\n", n, n, n), CLI: n < 40 || n%1000 < 3 || n%1024 < 3 || n > 9000, NoModel: n > 5000}
		}},
		// ---------------------------------------------------------------- C04: JSON output
		{Prop: "C04", Name: "a document of n keys, each an array of n % 7 elements, written back", Max: 20000, QMax: 3000, Build: func(n int) scaleCase {
			doc := "{" + seqs2(n, ", ", func(k int) string {
				return fmt.Sprintf("\"key %d\": [%s]", k, seqs2(k%7, ", ", func(j int) string { return []string{"1.5", "\"s\"", "null", "true", "{}", "[]", "-0"}[j%7] }))
			}) + "}"
			return scaleCase{Prog: "{ c++ }\n", Files: []inFile{{Name: "in.json", Text: doc}}, Want: "", RootEq: doc}
		}},
		{Prop: "C04", Name: "an array of n elements, element n / 2 replaced, written back", Max: 70000, QMax: 5000, Build: func(n int) scaleCase {
			doc := "[" + nums(n, ", ") + "]"
			want := "[" + seqs2(n, ", ", func(k int) string {
				if k == n/2+1 {
					return "{\"was\": " + itoa(k) + "}"
				}
				return itoa(k)
			}) + "]"
			return scaleCase{Prog: fmt.Sprintf("$index == %d { $ = {was: $} }\n", n/2), Files: []inFile{{Name: "in.json", Text: doc}}, Want: "", RootEq: want}
		}},
	}
}

func ifs(c bool, a, b string) string {
	if c {
		return a
	}
	return b
}

func imax(a, b int) int {
	if a > b {
		return a
	}
	return b
}
