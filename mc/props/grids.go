package props

// Grid families: two size parameters at once (each pair of a small grid that brackets the usual powers of two), and
// histories inside one run that need a size. Same oracle as the scale sweeps: a closed form computed here.

import (
	"fmt"
	"sort"
	"strings"

	"verif/mc/drive"
	"verif/mc/refsem"
)

type gridPoint struct{ a, b, c int }

// gridFam: a family whose n-th case is the n-th point of a grid (all points at both tiers).
func gridFam(prop, name string, pts []gridPoint, build func(p gridPoint) scaleCase) *scaleFam {
	return &scaleFam{Prop: prop, Name: name, Max: len(pts), QMax: len(pts), All: true, Build: func(n int) scaleCase { return build(pts[n-1]) }}
}

func grid2(as, bs []int, ok func(a, b int) bool) []gridPoint {
	var out []gridPoint
	for _, a := range as {
		for _, b := range bs {
			if ok == nil || ok(a, b) {
				out = append(out, gridPoint{a, b, 0})
			}
		}
	}
	return out
}

func gridFamilies() []*scaleFam {
	return []*scaleFam{
		gridFam("C08", "a function of p parameters recursing d deep, with a parameter assigned from the recursive call",
			grid2([]int{1, 2, 3, 7, 8, 9, 10, 15, 16, 17, 20, 31, 33, 60, 64, 65}, []int{1, 2, 7, 8, 9, 10, 12, 16, 17, 33, 64, 65, 66, 100, 103, 104, 120, 128, 129, 257, 513, 911, 1000, 1024, 1025, 1093, 2000, 2731, 3000, 3277, 3500, 4000},
				func(p, d int) bool { return float64(d)*float64(d)*float64(p) <= 1.5e8 }),
			func(g gridPoint) scaleCase {
				p, d := g.a, g.b
				params := seqs2(p, ", ", func(k int) string { return "a" + itoa(k) })
				rest := ""
				if p > 1 {
					rest = ", " + seqs2(p-1, ", ", func(k int) string { return "a" + itoa(k+1) })
				}
				prog := "function f(n, " + params + ") { if (n == 0) { return a1 + a" + itoa(p) + " * 1000 } a1 = f(n - 1, a1 + 1" + rest + "); return a1 }\n" +
					"BEGIN { print f(" + itoa(d) + ", " + nums(p, ", ") + "), f(0, " + nums(p, ", ") + ") }\n"
				want := 1 + d + 1000*p
				base := 1 + 1000*p
				if p == 1 {
					want, base = (1+d)*1001, 1001
				}
				return scaleCase{Prog: prog, Want: fmt.Sprintf("%d %d\n", want, base), NoModel: d > 1100}
			}),
		gridFam("C05", "a recursion d deep with e pending operators around the recursive call",
			// (the expressions and statements in evaluation over all frames are limited to 150 000 since repair row 30: points that
			// lie clearly below that work, points clearly above are refused with a runtime error, the band between is left out)
			grid2([]int{1, 2, 8, 16, 32, 60, 64, 100, 128, 300, 1000}, []int{1, 10, 100, 1000, 1100, 2048, 2185, 2400, 3000, 4000}, func(e, d int) bool { return d*(e+6) <= 135000 || d*e >= 165000 }),
			func(g gridPoint) scaleCase {
				e, d := g.a, g.b
				open, close, per := "1 + (", ")", 1+e
				switch (e + d) % 3 {
				case 1:
					open, close, per = "[", "][0]", 1
				case 2:
					open, close, per = "id(", ")", 1
				}
				prog := "function id(x) { return x }\nfunction f(n) { if (n == 0) { return 0 } return 1 + " + strings.Repeat(open, e) + "f(n - 1)" + strings.Repeat(close, e) + " }\nBEGIN { print \"before\"; print f(" + itoa(d) + ") }\n"
				if d*e >= 165000 {
					return scaleCase{Prog: prog, Want: "before\n", Kind: drive.KRuntime, NoModel: true, CLI: true}
				}
				return scaleCase{Prog: prog, Want: fmt.Sprintf("before\n%d\n", d*per), NoModel: d*e > 60000 || d > 1100}
			}),
		gridFam("C19", "one match run k times on arrays of m elements",
			grid2([]int{1, 2, 15, 16, 17, 18, 20, 33, 40, 65, 100}, []int{0, 1, 2, 3, 7, 8, 9, 10, 16, 17, 33}, nil),
			func(g gridPoint) scaleCase {
				k, m := g.a, g.b
				rec := "[" + seqs2(m, ", ", func(int) string { return "7" }) + "]"
				in := "[" + seqs2(k, ", ", func(int) string { return rec }) + "]"
				line := itoa(m)
				if m == 0 {
					line = "empty"
				}
				prog := "{ print match ($) { [1, x] => \"pair\", [] => \"empty\", other => other.length() }, match ($) { [7, 7, 7, 7, 7, 7, 7, 7, y] => \"nine\", [8], z => \"any\" } }\n"
				second := "any"
				if m == 9 {
					second = "nine"
				}
				return scaleCase{Prog: prog, Files: []inFile{{Name: "in.json", Text: in}}, Want: strings.Repeat(line+" "+second+"\n", k)}
			}),
		gridFam("C14", "k root selectors over a stream of v values",
			grid2([]int{1, 2, 3, 5, 9}, []int{1, 2, 10, 1025, 2049, 4097, 5000}, nil),
			func(g gridPoint) scaleCase {
				k, v := g.a, g.b
				var sels []string
				for i := 1; i <= k; i++ {
					sels = append(sels, fmt.Sprintf("$.s%d", i))
				}
				val := "{" + seqs2(k, ", ", func(i int) string { return fmt.Sprintf("\"s%d\": %d", i, i) }) + "}"
				in := strings.Repeat(val+"\n", v)
				per := seqs2(k, "", func(i int) string { return itoa(i) + "\n" })
				return scaleCase{Prog: "{ print $ }\nEND { print \"end\" }\n", Sels: sels, Files: []inFile{{Name: "in.json", Text: in}}, Want: strings.Repeat(per, v) + "end\n", CLI: v <= 10 || v == 4097}
			}),
		gridFam("C15", "P pushes, Q pops, then a store beyond the end",
			func() []gridPoint {
				var out []gridPoint
				for _, P := range []int{1, 10, 33, 64, 100, 129, 1000} {
					for _, Q := range []int{0, 1, 10, 40, 99, 1000} {
						if Q > P {
							continue
						}
						for _, gap := range []int{0, 1, 31, 32, 33, 40, 100} {
							out = append(out, gridPoint{P, Q, gap})
						}
					}
				}
				return out
			}(),
			func(g gridPoint) scaleCase {
				P, Q, gap := g.a, g.b, g.c
				idx := P - Q + gap
				prog := fmt.Sprintf("BEGIN { a = []; for (i = 0; i < %d; i++) { a.push(i + 1000) } for (i = 0; i < %d; i++) { a.pop() } a[%d] = \"x\"; nn = 0; for (i = %d; i < %d; i++) { if (!(a[i] is null)) { nn++ } } print a.length(), nn, a.contains(%d), a[%d], a.contains(null) }\n", P, Q, idx, P-Q, idx, 1000+P-1, idx)
				// the last pushed value 1000+P-1 is still there only if nothing was popped and P > 0
				has := Q == 0
				return scaleCase{Prog: prog, Want: fmt.Sprintf("%d 0 %v x %v\n", idx+1, has, gap > 0)}
			}),
		gridFam("C08", "a call of n arguments whose k-th argument is itself a call",
			func() []gridPoint {
				var out []gridPoint
				for n := 1; n <= 24; n++ {
					for k := 1; k <= n; k++ {
						out = append(out, gridPoint{n, k, 0})
					}
				}
				return out
			}(),
			func(g gridPoint) scaleCase {
				n, k := g.a, g.b
				params := seqs2(n, ", ", func(i int) string { return "a" + itoa(i) })
				body := seqs2(n, " + ", func(i int) string { return fmt.Sprintf("a%d * %d", i, i) })
				args := seqs2(n, ", ", func(i int) string {
					if i == k {
						return fmt.Sprintf("id(%d, 0)", i)
					}
					if i == k+1 {
						return fmt.Sprintf("\"%d\".length() + %d", i, i-len(itoa(i)))
					}
					return itoa(i)
				})
				keys := seqs2(n, ", ", func(i int) string {
					if i == k {
						return fmt.Sprintf("id(\"k%d\", 0).lower()", i)
					}
					return fmt.Sprintf("\"k%d\"", i)
				})
				obj := "{" + seqs2(n+2, ", ", func(i int) string { return fmt.Sprintf("k%d: %d", i, i) }) + "}"
				var ks []string
				for i := 1; i <= n; i++ {
					ks = append(ks, fmt.Sprintf("k%d", i))
				}
				sort.Strings(ks)
				var parts []string
				for _, key := range ks {
					parts = append(parts, fmt.Sprintf("\"%s\": %s", key, key[1:]))
				}
				sum := 0
				for i := 1; i <= n; i++ {
					sum += i * i
				}
				prog := "function id(x, y) { return x }\nfunction f(" + params + ") { return " + body + " }\nBEGIN { print f(" + args + "); o = " + obj + "; print o.pluck(" + keys + ") }\n"
				return scaleCase{Prog: prog, Want: fmt.Sprintf("%d\n{%s}\n", sum, strings.Join(parts, ", "))}
			}),
		gridFam("C17", "an array of L numbers whose element i is a non-empty array",
			func() []gridPoint {
				var out []gridPoint
				var Ls []int
				for L := 1; L <= 40; L++ {
					Ls = append(Ls, L)
				}
				Ls = append(Ls, 64, 65, 128, 129, 130, 200)
				for _, L := range Ls {
					seen := map[int]bool{}
					for _, i := range []int{0, 1, 15, 16, 17, 18, 19, 33, L / 2, L - 2, L - 1} {
						if i >= 0 && i < L && !seen[i] {
							seen[i] = true
							out = append(out, gridPoint{L, i, 0})
						}
					}
				}
				return out
			}(),
			func(g gridPoint) scaleCase {
				L, at := g.a, g.b
				el := func(i int) string {
					if i-1 == at {
						return "[99, \"s\", [98]]"
					}
					if i-1 == at+1 {
						return "{\"k\": [97]}"
					}
					return itoa(i)
				}
				lit := "[" + seqs2(L, ", ", func(i int) string { return strings.Replace(el(i), "\"k\":", "k:", 1) }) + "]"
				return scaleCase{Prog: "BEGIN { a = " + lit + "; print a; print [a, 1] }\n", Want: "[" + seqs2(L, ", ", el) + "]\n[[" + seqs2(L, ", ", el) + "], 1]\n"}
			}),
		gridFam("C18", "a width and an argument of given lengths; two widths in a row",
			func() []gridPoint {
				var out []gridPoint
				for _, W := range []int{3, 4096, 65535, 65536, 65537, 70000, 131072} {
					for _, L := range []int{1, 5000, 65536, 65537, 70000, 140000} {
						out = append(out, gridPoint{W, L, 0})
					}
				}
				for _, w1 := range []int{100, 40960, 40961, 65000, 65536} {
					for _, w2 := range []int{65537, 70000, 81920, 81921, 100000} {
						for pad := 1; pad <= 3; pad++ {
							out = append(out, gridPoint{w1, w2, pad})
						}
					}
				}
				return out
			}(),
			func(g gridPoint) scaleCase {
				if g.c == 0 {
					W, L := g.a, g.b
					s := strings.Repeat("y", L)
					prog := fmt.Sprintf("BEGIN { s = \"%s\"; print \"before\"; printf(\"<%%%ds>\\n\", s); printf(\"<%%-%dv|%%0%ds>\\n\", s, s); print \"after\" }\n", s, W, W, W)
					if W > 65536 {
						return scaleCase{Prog: prog, Want: "before\n", Kind: drive.KRuntime}
					}
					padn := 0
					if W > L {
						padn = W - L
					}
					return scaleCase{Prog: prog, Want: "before\n<" + strings.Repeat(" ", padn) + s + ">\n<" + s + strings.Repeat(" ", padn) + "|" + strings.Repeat("0", padn) + s + ">\nafter\n"}
				}
				w1, w2 := g.a, g.b
				flag := []string{"", "", "0", "-"}[g.c]
				first := strings.Repeat(" ", w1-1) + "x|"
				if flag == "0" {
					first = strings.Repeat("0", w1-1) + "x|"
				} else if flag == "-" {
					first = "x" + strings.Repeat(" ", w1-1) + "|"
				}
				prog := fmt.Sprintf("BEGIN { printf(\"%%%s%ds|\\n\", \"x\"); printf(\"%%%s%ds|\\n\", \"y\"); print \"after\" }\n", flag, w1, flag, w2)
				return scaleCase{Prog: prog, Want: first + "\n", Kind: drive.KRuntime}
			}),
		gridFam("C12", "a fault behind n lines of l bytes",
			grid2([]int{10, 60, 63, 64, 65, 100, 200}, []int{10, 100, 1100, 5000, 70000}, func(n, l int) bool { return n*l <= 1500000 && (l < 70000 || n <= 65) }),
			func(g gridPoint) scaleCase {
				n, l := g.a, g.b
				var sb strings.Builder
				sb.WriteString("BEGIN {\n")
				for i := 0; i < n; i++ {
					switch i % 3 {
					case 0:
						sb.WriteString("# " + strings.Repeat("c", l-2) + "\n")
					case 1:
						sb.WriteString("x = \"" + strings.Repeat("s", l-6) + "\"\n")
					default:
						sb.WriteString("x = 1" + strings.Repeat(" ", l-5) + "\n")
					}
				}
				src := "  y = x + 1 % 0"
				sb.WriteString(src + "\n")
				for i := 0; i < 40; i++ {
					sb.WriteString("z = 2\n")
				}
				sb.WriteString("}\n")
				return scaleCase{Prog: sb.String(), Want: "", Kind: drive.KRuntime, Line: n + 2, SrcLine: src}
			}),
		gridFam("C04", "a chain of t objects that leads into a ring of r objects, given to json()",
			grid2([]int{0, 1, 63, 64, 65, 100, 300}, []int{1, 3, 63, 64, 65, 100, 300}, nil),
			func(g gridPoint) scaleCase {
				t, r := g.a, g.b
				prog := fmt.Sprintf("BEGIN { head = {}; cur = head; for (i = 0; i < %d; i++) { nx = {}; cur.link = nx; cur = nx } first = cur; for (i = 1; i < %d; i++) { nx = {}; cur.link = nx; cur = nx } cur.link = first; print \"built\"; print json(head); print \"after\" }\n", t, r)
				return scaleCase{Prog: prog, Want: "built\n", Kind: drive.KRuntime, CLIOnly: true}
			}),
		gridFam("C07", "an object for-in of a keys around one of b keys around one of 3 keys",
			grid2([]int{1, 2, 10, 50, 60, 64, 65, 100, 127, 128, 129, 200}, []int{1, 2, 10, 28, 50, 60, 64, 65, 100, 127, 128, 129, 200}, nil),
			func(g gridPoint) scaleCase {
				a, b := g.a, g.b
				prog := fmt.Sprintf("function walk(t, depth, n) { n = 0; for (k, v in t) { n++; if (depth > 0) { n += walk(t, depth - 1) } } return n }\nBEGIN { for (i = 0; i < %d; i++) { o[\"a\" + i] = i } for (i = 0; i < %d; i++) { p[\"b\" + i] = i + 1 } q = {x: 1, y: 2, z: 3}; for (k, u in o) { for (j, v in p) { c++; s += v; for (m, w in q) { d += w } } last = k } print c, s, d, last is string; print walk(p, 1) }\n", a, b)
				return scaleCase{Prog: prog, Want: fmt.Sprintf("%d %d %d true\n%d\n", a*b, a*tri(b), a*b*6, b+b*b), NoModel: a*b > 20000}
			}),
		gridFam("C06", "a chain of a operands one of which holds a chain of b operands",
			grid2([]int{1, 2, 8, 9, 10, 11, 12, 16, 17, 33}, []int{1, 2, 8, 9, 10, 11, 12, 16, 17, 33}, nil),
			func(g gridPoint) scaleCase {
				a, b := g.a, g.b
				inner := "1000 - " + nums(b, " - ")
				outer := func(in string, at int) string {
					return seqs2(a, " + ", func(k int) string {
						if k == at {
							return in
						}
						return itoa(k)
					})
				}
				mid := (a + 1) / 2
				prog := "function id(x) { return x }\nBEGIN { t = [5, 6, 7, 8]; print " + outer("("+inner+")", a) + ", " + outer("("+inner+")", mid) + ", " + outer("id("+inner+")", mid) + ", " + outer("t["+nums(b, " - ")+" + "+itoa(tri(b)-2+1)+"]", 1) + ", " + outer("2 * "+nums(b, " * ")+" * 1", mid) + " }\n"
				iv := 1000 - tri(b)
				fact := 1.0
				for k := 1; k <= b; k++ {
					fact *= float64(k)
				}
				tv := 5 + (1 - (tri(b) - 1) + tri(b) - 2 + 1) // t[1 - 2 - ... - b + c] with c chosen so that the index is 0 or 1
				_ = tv
				idx := 1 - (tri(b) - 1) + (tri(b) - 2 + 1)
				return scaleCase{Prog: prog, Want: fmt.Sprintf("%d %d %d %d %s\n", tri(a)-a+iv, tri(a)-mid+iv, tri(a)-mid+iv, tri(a)-1+5+idx, refsem.FormatNum(float64(tri(a)-mid)+2*fact))}
			}),
		// ---- histories inside one run that need a size
		{Prop: "C15", Name: "a sorted copy of n numbers, one element overwritten, then contains", Max: 5000, QMax: 1100, Build: func(n int) scaleCase {
			prog := fmt.Sprintf("BEGIN { a = []; for (i = %d; i >= 1; i--) { a.push(i) } s = a.sort(); s[0] = 999999; print s.contains(999999), s.contains(1), a.contains(1), s.contains(%d), s.length(), s[0]; s[%d] = -5; print s.contains(-5), s.contains(%d) }\n", n, n, n-1, n)
			return scaleCase{Prog: prog, Want: fmt.Sprintf("true false true %v %d 999999\ntrue false\n", n > 1, n)}
		}},
		{Prop: "C17", Name: "an object of n keys printed, extended through an earlier alias, printed again", Max: 3000, QMax: 600, Build: func(n int) scaleCase {
			keys := func(extra bool) string {
				out := seqs2(n, ", ", func(k int) string { return fmt.Sprintf("\"key%s\": %d", pad(k, 5), k) })
				if extra {
					out += ", \"zz_seen\": 1"
				}
				return "{" + out + "}"
			}
			return scaleCase{Prog: "{ r = $; print; r.zz_seen = 1; print; print r; print $ }\n", Files: []inFile{{Name: "in.json", Text: "[" + keys(false) + "]"}}, Want: keys(false) + "\n" + keys(true) + "\n" + keys(true) + "\n" + keys(true) + "\n"}
		}},
		{Prop: "C18", Name: "n distinct formats used in turn over two records", Max: 3000, QMax: 600, Build: func(n int) scaleCase {
			prog := "{\n" + seqs2(n, "\n", func(k int) string { return fmt.Sprintf("printf(\"col%d=%%v;\", $)", k) }) + "\nprint \"\"\n}\n"
			line := func(v int) string {
				return seqs2(n, "", func(k int) string { return fmt.Sprintf("col%d=%d;", k, v) }) + "\n"
			}
			return scaleCase{Prog: prog, Files: []inFile{{Name: "in.json", Text: "[1, 2]"}}, Want: line(1) + line(2)}
		}},
		{Prop: "C10", Name: "a for-in statement that walks a growing object of n keys twice", Max: 3000, QMax: 600, Build: func(n int) scaleCase {
			var ks []string
			for k := 1; k <= n; k++ {
				ks = append(ks, fmt.Sprintf("k%s0", pad(k, 5)))
			}
			lit := "{" + seqs2(n, ", ", func(k int) string { return ks[n-k] + ": 1" }) + "}"
			prog := "BEGIN { o = " + lit + "; for (pass = 0; pass < 3; pass++) { out = \"\"; for (k in o) { out = out + k + \",\" } print out; if (pass == 0) { o.k000005y = 1; o.k000005x = 1; o.k000005z = 1; o.a = 1 } else { o.k000005w = 1; o.zz = 1 } } }\n"
			line := func(extra ...string) string {
				all := append(append([]string{}, ks...), extra...)
				sort.Strings(all)
				return strings.Join(all, ",") + ",\n"
			}
			return scaleCase{Prog: prog, Want: line() + line("k000005y", "k000005x", "k000005z", "a") + line("k000005y", "k000005x", "k000005z", "a", "k000005w", "zz")}
		}},
		{Prop: "C13", Name: "a rule of n literals followed by a rule that uses literals of its own", Max: 5000, QMax: 1100, Build: func(n int) scaleCase {
			prog := "BEGIN { codes = [" + seqs2(n, ", ", func(k int) string {
				if k%3 == 0 {
					return fmt.Sprintf("\"s%d\"", k)
				}
				return itoa(7000 + k)
			}) + "] }\n{ print $.name, \"is\", codes[$.code], 5, 'q' }\nfunction g() { return \"from g\" }\nEND { print g(), 42, \"end\" }\n"
			el := func(k int) string {
				if k%3 == 0 {
					return fmt.Sprintf("s%d", k)
				}
				return itoa(7000 + k)
			}
			return scaleCase{Prog: prog, Files: []inFile{{Name: "in.json", Text: fmt.Sprintf(`[{"name": "first", "code": 0}, {"name": "last", "code": %d}]`, n-1)}}, Want: "first is " + el(1) + " 5 q\nlast is " + el(n) + " 5 q\nfrom g 42 end\n"}
		}},
		{Prop: "C02", Name: "n lines of 100 bytes, then exit", Max: 40000, QMax: 22000, Build: func(n int) scaleCase {
			padl := strings.Repeat("p", 90)
			prog := fmt.Sprintf("{ for (i = 1; i <= %d; i++) { print \"%s\", i } }\n$ == 2 { print \"stop\"; exit }\n{ print \"rest\", $ }\nEND { print \"end\" }\n", n, padl)
			lines := seqs2(n, "", func(k int) string { return padl + " " + itoa(k) + "\n" })
			return scaleCase{Prog: prog, Files: []inFile{{Name: "in.json", Text: "[1, 2, 3]"}}, Want: lines + "rest 1\n" + lines + "stop\n", CLI: n%1000 < 3 || n < 30, NoModel: n > 3000}
		}},
		{Prop: "C12", Name: "a match of n literal cases: an earlier record takes a later case, then a subject that cannot be compared", Max: 600, QMax: 200, Build: func(n int) scaleCase {
			prog := "{ print match ($) {\n" + seqs2(n, ",\n", func(k int) string { return fmt.Sprintf("  \"k%d\" => %d", k, k) }) + "\n} }\n"
			return scaleCase{Prog: prog, Files: []inFile{{Name: "in.json", Text: fmt.Sprintf(`["k%d", "k%d", [1]]`, (n+1)/2, n)}}, Want: fmt.Sprintf("%d\n%d\n", (n+1)/2, n), Kind: drive.KRuntime, Line: 2, SrcLine: "  \"k1\" => 1" + ifs(n > 1, ",", "")}
		}},
	}
}
