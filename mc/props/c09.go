package props

import (
	"encoding/json"
	"fmt"
	"strings"

	"verif/mc/fw"
	. "verif/mc/refsem"
)

// C09: assignment changes exactly the addressed location; reads never change the input.

var c09Steps = []struct {
	name string
	mk   func(Expr) Expr
}{
	{".a", func(x Expr) Expr { return Mem(x, "a") }},
	{".b", func(x Expr) Expr { return Mem(x, "b") }},
	{"[0]", func(x Expr) Expr { return Idx(x, N("0")) }},
	{"[1]", func(x Expr) Expr { return Idx(x, N("1")) }},
	{"[-1]", func(x Expr) Expr { return Idx(x, Un("-", N("1"))) }},
	{"[2]", func(x Expr) Expr { return Idx(x, N("2")) }},
	{"[5]", func(x Expr) Expr { return Idx(x, N("5")) }},
	{"[0.9]", func(x Expr) Expr { return Idx(x, N("0.9")) }},
	{"[-0.5]", func(x Expr) Expr { return Idx(x, Un("-", N("0.5"))) }},
	{"[1048577]", func(x Expr) Expr { return Idx(x, N("1048577")) }},
	{"['a']", func(x Expr) Expr { return Idx(x, S("a")) }},
	// an index whose magnitude no integer type holds: still "before the start", an error and not a crash
	{"[-1e19]", func(x Expr) Expr { return Idx(x, Un("-", N("10000000000000000000"))) }},
}

var c09Roots = []string{"$", "d", "f"}

var c09Ops = []struct {
	name  string
	write bool
	mk    func(t func() Expr) Expr
}{
	{"T = 9", true, func(t func() Expr) Expr { return Asg("=", t(), N("9")) }},
	{"T += 2", true, func(t func() Expr) Expr { return Asg("+=", t(), N("2")) }},
	{"++T", true, func(t func() Expr) Expr { return Un("++", t()) }},
	{"T++", true, func(t func() Expr) Expr { return &Postfix{"++", t()} }},
	{"--T", true, func(t func() Expr) Expr { return Un("--", t()) }},
	{"T--", true, func(t func() Expr) Expr { return &Postfix{"--", t()} }},
	{"T = [7]", true, func(t func() Expr) Expr { return Asg("=", t(), Arr_(N("7"))) }},
	{"T", false, func(t func() Expr) Expr { return t() }},
	{"T.length()", false, func(t func() Expr) Expr { return CallE(Mem(t(), "length")) }},
	{"T.sort()", false, func(t func() Expr) Expr { return CallE(Mem(t(), "sort")) }},
	{"T.contains(1)", false, func(t func() Expr) Expr { return CallE(Mem(t(), "contains"), N("1")) }},
	{"T.pluck('a')", false, func(t func() Expr) Expr { return CallE(Mem(t(), "pluck"), S("a")) }},
	{"T is array", false, func(t func() Expr) Expr { return &IsExpr{t(), "array"} }},
	{"T == null", false, func(t func() Expr) Expr { return Bin("==", t(), &NullLit{}) }},
	{"!T", false, func(t func() Expr) Expr { return Un("!", t()) }},
	{"T + 1", false, func(t func() Expr) Expr { return Bin("+", t(), N("1")) }},
}

type c09Spec struct {
	Form string `json:"form"` // path, hist
	Doc  string `json:"doc"`
	Root int    `json:"root,omitempty"`
	Path []int  `json:"path,omitempty"`
	Op   int    `json:"op,omitempty"`
	Seq  []int  `json:"seq,omitempty"`
	Text string `json:"text,omitempty"`
}

var c09Show = &Func{Name: "show", Params: []string{"n", "v"}, Body: Blk(&If{Cond: &IsExpr{V("v"), "unknown"}, Then: Pr(V("n"), S("unset")), Else: Pr(V("n"), V("v"))})}

func showS(name string, e Expr) Stmt { return Ex(CallE(V("show"), S(name), e)) }

func c09PathProg(s c09Spec) *progCase {
	target := func() Expr {
		var x Expr = V(c09Roots[s.Root])
		for _, st := range s.Path {
			x = c09Steps[st].mk(x)
		}
		return x
	}
	op := c09Ops[s.Op]
	body := []Stmt{
		Ex(Asg("=", V("d"), V("$"))),
		Ex(Asg("=", V("r"), op.mk(target))),
		showS("r", V("r")), showS("$", V("$")), showS("d", V("d")), showS("f", V("f")),
	}
	// BEGINFILE sees the whole document as $ (a pattern rule would see one element of a root array)
	return &progCase{P: &Program{Funcs: []*Func{c09Show}, Rules: []*Rule{{Kind: "BEGINFILE", Body: Blk(body...)}, {Kind: "ENDFILE", Body: Blk(showS("end", V("$")))}}},
		Files: []inFile{{"in.json", s.Doc}}, Root: true}
}

func c09PathCheck(c *fw.Ctx, s c09Spec) *fw.Violation {
	pc := c09PathProg(s)
	v, res, skipped := pc.check(c)
	if skipped {
		return nil
	}
	if v == nil {
		cls := "write"
		if !c09Ops[s.Op].write {
			cls = "read"
			// model-free: a read leaves the document as it was read
			if res.Kind == "none" && res.HasRoot {
				if n, ok := ParseJSON(s.Doc); ok && !EqualJSON(n, res.Root) && s.Root != 2 {
					panic("c09: the model changed the document on a read: " + pc.source())
				}
			}
		}
		c.State(fmt.Sprintf("%s root=%s len=%d -> %s", cls, c09Roots[s.Root], len(s.Path), res.Kind))
	}
	return v
}

// c09PathStream: ONE target expression evaluated over a sequence of documents (the elements of the input array), so that
// anything remembered per expression site (a resolved member, a cached length) would show.
func c09StreamProg(s c09Spec, docs []string) *progCase {
	target := func() Expr {
		var x Expr = V("$")
		for _, st := range s.Path {
			x = c09Steps[st].mk(x)
		}
		return x
	}
	op := c09Ops[s.Op]
	body := []Stmt{Ex(Asg("=", V("r"), op.mk(target))), showS("r", V("r")), showS("$", V("$"))}
	if s.Root == 1 {
		for i, j := 0, len(docs)-1; i < j; i, j = i+1, j-1 {
			docs[i], docs[j] = docs[j], docs[i]
		}
	}
	doc := "[" + strings.Join(docs, ",") + "]"
	return &progCase{P: &Program{Funcs: []*Func{c09Show}, Rules: []*Rule{{Body: Blk(body...)}, {Kind: "ENDFILE", Body: Blk(showS("end", V("$")))}}},
		Files: []inFile{{"in.json", doc}}, Root: true, MaxSteps: 2_000_000}
}

// ----- statement histories -----

func c09HistStmts() []struct {
	name string
	st   func() Stmt
} {
	x, y := func() Expr { return V("x") }, func() Expr { return V("y") }
	return []struct {
		name string
		st   func() Stmt
	}{
		{"x = $.a", func() Stmt { return Ex(Asg("=", x(), Mem(V("$"), "a"))) }},
		{"y = x", func() Stmt { return Ex(Asg("=", y(), x())) }},
		{"x[0] = 9", func() Stmt { return Ex(Asg("=", Idx(x(), N("0")), N("9"))) }},
		{"x[2] = 8", func() Stmt { return Ex(Asg("=", Idx(x(), N("2")), N("8"))) }},
		{"y.k = 7", func() Stmt { return Ex(Asg("=", Mem(y(), "k"), N("7"))) }},
		{"x.push(6)", func() Stmt { return Ex(CallE(Mem(x(), "push"), N("6"))) }},
		{"y.pop()", func() Stmt { return Ex(CallE(Mem(y(), "pop"))) }},
		{"$.a = $.b", func() Stmt { return Ex(Asg("=", Mem(V("$"), "a"), Mem(V("$"), "b"))) }},
		{"mut(x)", func() Stmt { return Ex(CallE(V("mut"), x())) }},
		{"for (v in x) v = 5", func() Stmt {
			return &ForIn{V: "v", Iter: x(), Body: Ex(Asg("=", V("v"), N("5")))}
		}},
		{"z = [x]", func() Stmt { return Ex(Asg("=", V("z"), Arr_(x()))) }},
		{"x = 4", func() Stmt { return Ex(Asg("=", x(), N("4"))) }},
		{"z[0][1] = 3", func() Stmt { return Ex(Asg("=", Idx(Idx(V("z"), N("0")), N("1")), N("3"))) }},
		{"$.b++", func() Stmt { return Ex(&Postfix{"++", Mem(V("$"), "b")}) }},
	}
}

var c09Mut = &Func{Name: "mut", Params: []string{"p"}, Body: Blk(Ex(CallE(Mem(V("p"), "push"), N("2"))), Ex(Asg("=", V("p"), N("1"))))}

var c09HistDocs = []string{`{"a":[1,2],"b":[3]}`, `{"a":{"k":1},"b":5}`, `[{"a":[1],"b":[2]},{"a":0,"b":"s"}]`}

func c09HistProg(s c09Spec) *progCase {
	stmts := c09HistStmts()
	var body []Stmt
	for _, i := range s.Seq {
		body = append(body, stmts[i].st(), showS("x", V("x")), showS("y", V("y")), showS("z", V("z")), showS("$", V("$")))
	}
	return &progCase{P: &Program{Funcs: []*Func{c09Show, c09Mut}, Rules: []*Rule{{Body: Blk(body...)}, {Kind: "ENDFILE", Body: Blk(showS("end", V("$")))}}},
		Files: []inFile{{"in.json", s.Doc}}, Root: true}
}

func c09HistCheck(c *fw.Ctx, s c09Spec) *fw.Violation {
	pc := c09HistProg(s)
	v, res, skipped := pc.check(c)
	if !skipped && v == nil {
		c.Outcome("hist:" + res.Kind)
	}
	return v
}

// ----- object histories: aliases, iteration and printing interleaved with inserts through another reference -----

func c09ObjStmts() []struct {
	name string
	st   func() Stmt
} {
	forIn := func(v, w string, it Expr, tag string) Stmt {
		if w == "" {
			return &ForIn{V: v, Iter: it, Body: Pr(S(tag), V(v))}
		}
		return &ForIn{V: v, W: w, Iter: it, Body: Pr(S(tag), V(v), V(w))}
	}
	return []struct {
		name string
		st   func() Stmt
	}{
		{"b.y = 2", func() Stmt { return Ex(Asg("=", Mem(V("b"), "y"), N("2"))) }},
		{"a.x = 3", func() Stmt { return Ex(Asg("=", Mem(V("a"), "x"), N("3"))) }},
		{"for (k in a)", func() Stmt { return forIn("k", "", V("a"), "a") }},
		{"for (k, v in b)", func() Stmt { return forIn("k", "v", V("b"), "b") }},
		{"print a", func() Stmt { return Pr(S("print"), V("a")) }},
		{"add(a, 'z')", func() Stmt { return Ex(CallE(V("add"), V("a"), S("z"))) }},
		{"lengths", func() Stmt {
			return Pr(S("len"), CallE(Mem(V("a"), "length")), CallE(Mem(V("b"), "length")), CallE(Mem(V("e"), "length")))
		}},
		{"b = {}", func() Stmt { return Ex(Asg("=", V("b"), &ObjLit{})) }},
		{"pluck", func() Stmt {
			return Blk(Ex(Asg("=", V("c"), CallE(Mem(V("a"), "pluck"), S("m"), S("y")))), Ex(Asg("=", Mem(V("c"), "w"), N("1"))), Pr(S("c"), V("c")))
		}},
		{"alias = e; alias.q = 1", func() Stmt { return Blk(Ex(Asg("=", V("alias"), V("e"))), Ex(Asg("=", Mem(V("alias"), "q"), N("1")))) }},
		{"for (k in e)", func() Stmt { return forIn("k", "", V("e"), "e") }},
		{"b = a", func() Stmt { return Ex(Asg("=", V("b"), V("a"))) }},
	}
}

var c09Add = &Func{Name: "add", Params: []string{"t", "k"}, Body: Blk(Ex(&Postfix{"++", Idx(V("t"), V("k"))}))}

func c09ObjProg(s c09Spec) *progCase {
	stmts := c09ObjStmts()
	body := []Stmt{Ex(Asg("=", V("a"), &ObjLit{Keys: []string{"m"}, Vals: []Expr{N("1")}})), Ex(Asg("=", V("b"), V("a"))), Ex(Asg("=", V("e"), &ObjLit{}))}
	for _, i := range s.Seq {
		body = append(body, stmts[i].st())
	}
	body = append(body, Pr(S("end"), V("a"), V("b"), V("e")))
	// the body runs once per element of [1,2]: every literal in it is evaluated twice, and nothing of the first round may
	// reach the second
	return &progCase{P: &Program{Funcs: []*Func{c09Add}, Rules: []*Rule{{Body: Blk(body...)}}}, Files: []inFile{{"in.json", "[1,2]"}}}
}

func c09ObjCheck(c *fw.Ctx, s c09Spec) *fw.Violation {
	pc := c09ObjProg(s)
	v, res, skipped := pc.check(c)
	if !skipped && v == nil {
		c.Outcome("objhist:" + res.Kind)
	}
	return v
}

// ----- mixed histories: statements from every corner of the language, interleaved -----

func c09MixStmts() []struct {
	name string
	st   func() Stmt
} {
	a, o, n, sv := func() Expr { return V("a") }, func() Expr { return V("o") }, func() Expr { return V("n") }, func() Expr { return V("s") }
	call := func(recv Expr, m string, args ...Expr) Expr { return CallE(Mem(recv, m), args...) }
	return []struct {
		name string
		st   func() Stmt
	}{
		{"a = [3, 1, 2]", func() Stmt { return Ex(Asg("=", a(), Arr_(N("3"), N("1"), N("2")))) }},
		{"o = {k: 1, j: [5]}", func() Stmt {
			return Ex(Asg("=", o(), &ObjLit{Keys: []string{"k", "j"}, Vals: []Expr{N("1"), Arr_(N("5"))}}))
		}},
		{"n = n + 1", func() Stmt { return Ex(Asg("=", n(), Bin("+", n(), N("1")))) }},
		{"a.push(n)", func() Stmt { return Ex(call(a(), "push", n())) }},
		{"b = a", func() Stmt { return Ex(Asg("=", V("b"), a())) }},
		{"b.pop()", func() Stmt { return Ex(call(V("b"), "pop")) }},
		{"o.j.push(a.length())", func() Stmt { return Ex(call(Mem(o(), "j"), "push", call(a(), "length"))) }},
		{"p = o.pluck('k','j'); p.j.push(0); p.k = 9", func() Stmt {
			return Blk(Ex(Asg("=", V("p"), call(o(), "pluck", S("k"), S("j")))), Ex(call(Mem(V("p"), "j"), "push", N("0"))), Ex(Asg("=", Mem(V("p"), "k"), N("9"))))
		}},
		{"t = s.split(','); t[0] = 'Z'", func() Stmt {
			return Blk(Ex(Asg("=", V("t"), call(sv(), "split", S(",")))), Ex(Asg("=", Idx(V("t"), N("0")), S("Z"))))
		}},
		{"for (v in a) n += v", func() Stmt { return &ForIn{V: "v", Iter: a(), Body: Ex(Asg("+=", n(), V("v")))} }},
		{"for (k, v in o) q[k] = v", func() Stmt { return &ForIn{V: "k", W: "v", Iter: o(), Body: Ex(Asg("=", Idx(V("q"), V("k")), V("v")))} }},
		{"r = match (a) {...}", func() Stmt {
			return Ex(Asg("=", V("r"), &MatchExpr{Subj: a(), Cases: []MatchCase{
				{Pats: []Expr{Arr_(V("x"), V("y"), V("z"))}, Body: Bin("+", V("x"), V("z"))},
				{Pats: []Expr{Arr_(V("x"))}, Body: V("x")}, {Pats: []Expr{V("w")}, Body: call(V("w"), "length")}}}))
		}},
		{"r = match (n) {...}", func() Stmt {
			return Ex(Asg("=", V("r"), &MatchExpr{Subj: n(), Cases: []MatchCase{
				{Pats: []Expr{N("1")}, Body: S("one")}, {Pats: []Expr{N("2"), N("3")}, Body: S("few")}, {Pats: []Expr{V("m")}, Body: Bin("*", V("m"), N("2"))}}}))
		}},
		{"grow(a)", func() Stmt { return Ex(CallE(V("grow"), a())) }},
		{"n = dflt(n)", func() Stmt { return Ex(Asg("=", n(), CallE(V("dflt"), n()))) }},
		{"a = a.sort()", func() Stmt { return Ex(Asg("=", a(), call(a(), "sort"))) }},
		{"o.k++", func() Stmt { return Ex(&Postfix{"++", Mem(o(), "k")}) }},
		{"a[a.length()] = $", func() Stmt { return Ex(Asg("=", Idx(a(), call(a(), "length")), V("$"))) }},
		{"o[s] = a", func() Stmt { return Ex(Asg("=", Idx(o(), sv()), a())) }},
		{"if (a.contains(2)) a.popfirst() else a.push(2)", func() Stmt {
			return &If{Cond: call(a(), "contains", N("2")), Then: Ex(call(a(), "popfirst")), Else: Ex(call(a(), "push", N("2")))}
		}},
		{"while (a.length() > 3) a.pop()", func() Stmt { return &While{Cond: Bin(">", call(a(), "length"), N("3")), Body: Ex(call(a(), "pop"))} }},
		{"u = a[5]; u2 = o.none.deeper", func() Stmt {
			return Blk(Ex(Asg("=", V("u"), Idx(a(), N("5")))), Ex(Asg("=", V("u2"), Mem(Mem(o(), "none"), "deeper"))))
		}},
		{"printf", func() Stmt { return Ex(CallE(V("printf"), S("%4v|%s|%f\n"), a(), sv(), n())) }},
		{"s = s + n", func() Stmt { return Ex(Asg("=", sv(), Bin("+", sv(), n()))) }},
		{"c = [a, a]; c[0].push(7)", func() Stmt {
			return Blk(Ex(Asg("=", V("c"), Arr_(a(), a()))), Ex(call(Idx(V("c"), N("0")), "push", N("7"))))
		}},
		{"$.seen = n", func() Stmt { return &If{Cond: &IsExpr{V("$"), "object"}, Then: Ex(Asg("=", Mem(V("$"), "seen"), n()))} }},
	}
}

var c09MixFuncs = []*Func{
	{Name: "grow", Params: []string{"arr"}, Body: Blk(Ex(CallE(Mem(V("arr"), "push"), S("g"))), Ex(Asg("=", V("arr"), N("0"))))},
	{Name: "dflt", Params: []string{"v", "step"}, Body: Blk(&If{Cond: &IsExpr{V("step"), "null"}, Then: Ex(Asg("=", V("step"), N("10")))}, &Return{X: Bin("+", V("v"), V("step"))})},
}

func c09MixProg(s c09Spec) *progCase {
	stmts := c09MixStmts()
	body := []Stmt{Ex(Asg("=", V("a"), Arr_(N("4")))), Ex(Asg("=", V("o"), &ObjLit{Keys: []string{"k"}, Vals: []Expr{N("0")}})), Ex(Asg("=", V("s"), S("x,y"))), Ex(Asg("=", V("b"), Arr_())), Ex(Asg("=", V("q"), &ObjLit{}))}
	for _, i := range s.Seq {
		body = append(body, stmts[i].st())
	}
	for _, v := range []string{"a", "b", "o", "p", "t", "n", "q", "r", "c", "u", "u2", "s", "$"} {
		body = append(body, showS(v, V(v)))
	}
	// the rule runs for two elements: n, p, t, r, c, u survive from the first into the second round, the literals are rebuilt
	return &progCase{P: &Program{Funcs: append([]*Func{c09Show}, c09MixFuncs...), Rules: []*Rule{{Body: Blk(body...)}}}, Files: []inFile{{"in.json", `[1,{"x":2}]`}}, Root: true}
}

// c09CopyTime: "scalars are copied on argument passing and insertion into containers" -- at the moment the element is
// evaluated. One list (array literal, object literal, arguments of a user function, of printf, of a method) holds a plain
// read of a scalar location, then an expression that changes that location, then the read again; and calls that return a
// global by value next to calls that change it.
func c09CopyTimePrograms() []*progCase {
	out, _ := copyTimePrograms()
	return out
}

// copyTimePrograms also returns, per program, the kind of list it is about (literal, call, printf, push, assign, return).
func copyTimePrograms() ([]*progCase, []string) {
	type loc struct {
		init []Stmt
		x    func() Expr
		doc  string
	}
	locs := []loc{
		{[]Stmt{Ex(Asg("=", V("i"), N("1")))}, func() Expr { return V("i") }, ""},
		{[]Stmt{Ex(Asg("=", V("o"), &ObjLit{Keys: []string{"k"}, Vals: []Expr{N("1")}}))}, func() Expr { return Mem(V("o"), "k") }, ""},
		{[]Stmt{Ex(Asg("=", V("a"), Arr_(N("1"), N("5"))))}, func() Expr { return Idx(V("a"), N("0")) }, ""},
		{nil, func() Expr { return Mem(V("$"), "x") }, `[{"x":1},{"x":"s"}]`},
		{nil, func() Expr { return V("$") }, `[1,"s",2]`},
	}
	effects := []func(x Expr) Expr{
		func(x Expr) Expr { return &Postfix{Op: "++", X: x} },
		func(x Expr) Expr { return Un("++", x) },
		func(x Expr) Expr { return &Postfix{Op: "--", X: x} },
		func(x Expr) Expr { return Asg("+=", x, N("5")) },
		func(x Expr) Expr { return Asg("=", x, N("7")) },
		func(x Expr) Expr { return Asg("=", x, S("new")) },
		func(x Expr) Expr { return CallE(V("set9"), N("0")) }, // a callee that assigns the globals i, o.k, a[0]
	}
	f3 := &Func{Name: "f3", Params: []string{"p", "q", "r"}, Body: Blk(Pr(S("in f3"), V("p"), V("q"), V("r")), &Return{X: Arr_(V("p"), V("q"), V("r"))})}
	set9 := &Func{Name: "set9", Params: []string{"z"}, Body: Blk(
		&If{Cond: &IsExpr{V("i"), "number"}, Then: Ex(Asg("=", V("i"), N("9")))},
		&If{Cond: &IsExpr{V("o"), "object"}, Then: Ex(Asg("=", Mem(V("o"), "k"), N("9")))},
		&If{Cond: &IsExpr{V("a"), "array"}, Then: Ex(Asg("=", Idx(V("a"), N("0")), N("9")))},
		&Return{X: S("set")})}
	cur := &Func{Name: "cur", Body: Blk(&Return{X: V("count")})}
	curk := &Func{Name: "curk", Body: Blk(&Return{X: Mem(V("g"), "k")})}
	bump := &Func{Name: "bump", Body: Blk(Ex(Asg("=", V("count"), Bin("+", V("count"), N("1")))), Ex(Asg("=", Mem(V("g"), "k"), Bin("+", Mem(V("g"), "k"), N("10")))), &Return{X: V("count")})}
	funcs := []*Func{c09Show, f3, set9, cur, curk, bump}
	var out []*progCase
	var tags []string
	tag := "literal"
	add := func(l loc, body ...Stmt) {
		tags = append(tags, tag)
		pc := &progCase{P: &Program{Funcs: funcs, Rules: []*Rule{{Kind: "BEGIN", Body: Blk(append(append([]Stmt{}, l.init...), body...)...)}}}}
		if l.doc != "" {
			pc.P.Rules[0].Kind = ""
			pc.Files = []inFile{{"in.json", l.doc}}
			pc.Root = true
		}
		out = append(out, pc)
	}
	for li, l := range locs {
		for ei, ef := range effects {
			if ei == 6 && li >= 3 {
				continue
			}
			x := l.x
			e := func() Expr { return ef(x()) }
			add(l, Ex(Asg("=", V("r"), Arr_(x(), e(), x()))), showS("r", V("r")), showS("loc", x()))
			add(l, Ex(Asg("=", V("r"), Arr_(x(), x(), e()))), showS("r", V("r")), showS("loc", x()))
			add(l, Ex(Asg("=", V("r"), Arr_(Arr_(x()), e(), &ObjLit{Keys: []string{"v"}, Vals: []Expr{x()}}))), showS("r", V("r")))
			add(l, Ex(Asg("=", V("r"), &ObjLit{Keys: []string{"p", "q", "r"}, Vals: []Expr{x(), e(), x()}})), showS("r", V("r")), showS("loc", x()))
			tag = "call"
			add(l, Ex(Asg("=", V("r"), CallE(V("f3"), x(), e(), x()))), showS("r", V("r")), showS("loc", x()))
			add(l, Ex(Asg("=", V("r"), CallE(V("f3"), x(), x(), e()))), showS("r", V("r")), showS("loc", x()))
			tag = "printf"
			add(l, Ex(CallE(V("printf"), S("%v|%v|%v\n"), x(), e(), x())), showS("loc", x()))
			add(l, Ex(CallE(V("printf"), S("%v|%v|%v\n"), x(), x(), e())), showS("loc", x()))
			tag = "push"
			add(l, Ex(Asg("=", V("b"), Arr_())), Ex(CallE(Mem(CallE(Mem(CallE(Mem(V("b"), "push"), x()), "push"), e()), "push"), x())), showS("b", V("b")), showS("loc", x()))
			tag = "assign"
			add(l, Ex(Asg("=", V("kept"), x())), Blk(Ex(e())), showS("kept", V("kept")), showS("loc", x()))
			tag = "literal"
		}
	}
	// an element that is itself an assignment or a match yielding a variable: the container gets the value, not the variable
	tag = "literal"
	for li, l := range locs {
		if li >= 3 {
			continue
		}
		x := l.x
		asg := func() Expr { return Asg("=", x(), N("1")) }
		plus := func() Expr { return Asg("+=", x(), N("1")) }
		viaMatch := func() Expr {
			return &MatchExpr{Subj: N("1"), Cases: []MatchCase{{Pats: []Expr{N("1")}, Body: x()}}}
		}
		for _, el := range []func() Expr{asg, plus, viaMatch} {
			for _, mk := range []func(e Expr) Expr{
				func(e Expr) Expr { return Arr_(e, S("k")) },
				func(e Expr) Expr { return &ObjLit{Keys: []string{"id", "name"}, Vals: []Expr{e, S("n")}} },
				func(e Expr) Expr { return CallE(V("f3"), e, N("0"), N("0")) },
				func(e Expr) Expr { return CallE(Mem(Arr_(), "push"), e) },
			} {
				// build the container, change the location, show both; change the container's element, show both
				add(l, Ex(Asg("=", V("r"), mk(el()))), showS("r", V("r")), Blk(Ex(Asg("=", x(), N("50")))), showS("r", V("r")), showS("loc", x()),
					&If{Cond: &IsExpr{V("r"), "array"}, Then: Blk(Ex(Asg("=", Idx(V("r"), N("0")), N("60")))), Else: Blk(Ex(Asg("=", Mem(V("r"), "id"), N("60"))))}, showS("r", V("r")), showS("loc", x()))
			}
		}
	}
	// the per-record idiom: every record gets its own number
	out = append(out, &progCase{P: &Program{Funcs: funcs, Rules: []*Rule{{Kind: "BEGIN", Body: Blk(Ex(Asg("=", V("recs"), Arr_())))}, {Body: Blk(Ex(CallE(Mem(V("recs"), "push"), &ObjLit{Keys: []string{"id", "name"}, Vals: []Expr{Asg("+=", V("n"), N("1")), V("$")}})))},
		{Kind: "END", Body: Blk(showS("recs", V("recs")), showS("n", V("n")))}}}, Files: []inFile{{"in.json", `["a","b","c"]`}}})
	tags = append(tags, "literal")
	tag = "return"
	g := loc{init: []Stmt{Ex(Asg("=", V("count"), N("0"))), Ex(Asg("=", V("g"), &ObjLit{Keys: []string{"k"}, Vals: []Expr{N("1")}}))}}
	for _, c := range []func() Expr{func() Expr { return CallE(V("cur")) }, func() Expr { return CallE(V("curk")) }} {
		b := func() Expr { return CallE(V("bump")) }
		add(g, Pr(c(), b(), c()))
		add(g, Ex(Asg("=", V("r"), Bin("+", c(), b()))), showS("r", V("r")))
		add(g, Ex(Asg("=", V("r"), Bin("<", c(), b()))), showS("r", V("r")))
		add(g, Ex(Asg("=", V("r"), Bin("==", c(), b()))), showS("r", V("r")))
		add(g, Ex(Asg("=", V("r"), Bin("+", Bin("+", S("<"), c()), b()))), showS("r", V("r")))
		add(g, Ex(Asg("=", V("r"), Arr_(c(), b(), c()))), showS("r", V("r")))
		add(g, Ex(Asg("=", V("r"), CallE(V("f3"), c(), b(), c()))), showS("r", V("r")))
		tag = "printf"
		add(g, Ex(CallE(V("printf"), S("%v|%v|%v\n"), c(), b(), c())))
		tag = "return"
		add(g, Ex(Asg("=", V("r"), &MatchExpr{Subj: c(), Cases: []MatchCase{{Pats: []Expr{V("m")}, Body: Arr_(b(), V("m"), c())}}})), showS("r", V("r")))
		add(g, Ex(Asg("=", V("kept"), c())), Ex(b()), showS("kept", V("kept")), Ex(Asg("+=", V("kept"), N("100"))), showS("cur", c()))
	}
	return out, tags
}

// copyTimeRun runs the copy-time programs of the given kinds as cases of another property.
func copyTimeRun(c *fw.Ctx, kinds ...string) {
	pcs, tags := copyTimePrograms()
	for i, pc := range pcs {
		want := false
		for _, k := range kinds {
			want = want || tags[i] == k
		}
		if !want {
			continue
		}
		pc, i := pc, i
		c.Do(func() any { return c09Spec{Form: "copytime", Op: i, Text: pc.source()} }, func() *fw.Violation { return pc.mustCheck(c, "copy time") })
	}
}

func copyTimeReplay(c *fw.Ctx, raw json.RawMessage) (*fw.Violation, bool) {
	var s c09Spec
	if !unmarshal(raw, &s) || s.Form != "copytime" {
		return nil, false
	}
	v, _, _ := c09CopyTimePrograms()[s.Op].check(c)
	return v, true
}

func c09Base() int {
	nSt := len(c09Steps)
	return len(c09Roots)*nSt + len(c09Roots) + len(c09HistStmts())*len(c09HistDocs) + len(c09ObjStmts()) + nSt + len(c09MixStmts())*len(c09MixStmts())
}

func init() {
	var docs1, docs2 *docGen
	setup := func() {
		if docs1 == nil {
			docs1 = newDocGen(1, 2, docScalarsNarrow)
			docs2 = newDocGen(2, 2, docScalarsNarrow[:3])
		}
	}
	nSt := len(c09Steps)
	register(addTok(tokFramesC09, &fw.Prop{
		ID: "C09",
		Rule: "documents (all trees of depth <= 1, thorough also depth 2) x target paths of <= 3 steps over .a .b ['a'] and the indices 0 1 -1 2 5 0.9 -0.5 1048577 -10^19, rooted at $, at a variable aliasing the document and at a fresh variable, x 7 stores (=, +=, prefix and postfix ++/--, storing a container) and 9 reads (plain, non-mutating methods, operators); " +
			"after the operation the program shows the result, $, the alias and the fresh variable, ENDFILE shows $ again and the JSON output is compared with the model's document; " +
			"all histories of <= L statements over 14 aliasing / mutating statements (copy, share, index and member stores, push/pop through aliases, a mutating callee, loop variables, padding) on three documents, showing every variable after every statement; all histories of L statements over 12 object statements (inserts through an alias or a callee, iteration and printing through the other name, pluck, rebinding); " +
			"all histories of L' statements over 26 statements drawn from every corner of the language (arrays, objects, strings, pluck, split, sort, match, for-in, functions with default parameters, printf, stores into $), run once per element of a two-element input; every target path of <= 2 steps x operation also as ONE expression site over the sequence of all documents (forward and reversed); COPY TIME: 5 scalar locations x 7 effects x 10 list forms (array / object literal, arguments of a user function, printf and chained push) holding read, effect, read of one location, an element that is itself an assignment or a match yielding a variable, followed by changes on either side; and calls returning a global by value next to calls changing it in 10 forms; oracle: whole-store equality with the reference interpreter (DESIGN.md 3.10); states = (read/write, root, path length, outcome); non-trivial = same",
		Plan: func(t fw.Tier) int {
			return c09Base() + 1
		},
		Bound: func(t fw.Tier) string {
			setup()
			if t == fw.Thorough {
				return fmt.Sprintf("%d docs x paths<=3 + %d docs x paths<=2; histories <= 5", docs1.Count(), docs2.Count())
			}
			return fmt.Sprintf("%d docs x paths<=3; histories <= 4", docs1.Count())
		},
		Assumptions: []string{"reference interpreter mc/refsem (locations, pending paths, copy-vs-share)", "the JSON output is read with the independent RFC 8259 reader"},
		Run: func(c *fw.Ctx, u int) {
			setup()
			if u == c09Base() {
				for i, pc := range c09CopyTimePrograms() {
					pc, i := pc, i
					c.Do(func() any { return c09Spec{Form: "copytime", Op: i, Text: pc.source()} }, func() *fw.Violation {
						v := pc.mustCheck(c, "copy time")
						if v == nil {
							c.State("copy time")
						}
						return v
					})
				}
				return
			}
			nPathUnits := len(c09Roots)*nSt + len(c09Roots)
			if u < nPathUnits {
				var root, first int
				if u < len(c09Roots) {
					root, first = u, -1 // the empty path
				} else {
					root, first = (u-len(c09Roots))/nSt, (u-len(c09Roots))%nSt
				}
				run := func(g *docGen, maxLen int) {
					for di := 0; di < g.Count(); di++ {
						doc := g.At(di)
						var rec func(path []int)
						rec = func(path []int) {
							for op := range c09Ops {
								s := c09Spec{Form: "path", Doc: doc, Root: root, Path: append([]int{}, path...), Op: op}
								c.Do(func() any { s.Text = c09PathProg(s).source(); return s }, func() *fw.Violation { return c09PathCheck(c, s) })
							}
							if len(path) == maxLen {
								return
							}
							for st := 0; st < nSt; st++ {
								rec(append(path, st))
							}
						}
						if first < 0 {
							for op := range c09Ops {
								s := c09Spec{Form: "path", Doc: doc, Root: root, Op: op}
								c.Do(func() any { return s }, func() *fw.Violation { return c09PathCheck(c, s) })
							}
						} else {
							rec([]int{first})
						}
					}
				}
				run(docs1, 3)
				if c.Thorough() {
					run(docs2, 2)
				}
				return
			}
			u -= nPathUnits
			if u >= len(c09HistStmts())*len(c09HistDocs)+len(c09ObjStmts())+nSt {
				u -= len(c09HistStmts())*len(c09HistDocs) + len(c09ObjStmts()) + nSt
				nm := len(c09MixStmts())
				L := c.Pick(3, 4)
				seq := make([]int, L)
				seq[0], seq[1] = u/nm, u%nm
				var rec func(i int)
				rec = func(i int) {
					if i == L {
						s := c09Spec{Form: "mix", Seq: append([]int{}, seq...)}
						c.Do(func() any { s.Text = c09MixProg(s).source(); return s }, func() *fw.Violation { v, _, _ := c09MixProg(s).check(c); return v })
						return
					}
					for k := 0; k < nm; k++ {
						seq[i] = k
						rec(i + 1)
					}
				}
				rec(2)
				return
			}
			if u >= len(c09HistStmts())*len(c09HistDocs)+len(c09ObjStmts()) {
				first := u - len(c09HistStmts())*len(c09HistDocs) - len(c09ObjStmts())
				var docs []string
				for di := 0; di < docs1.Count(); di++ {
					docs = append(docs, docs1.At(di))
				}
				paths := [][]int{{first}}
				for st := 0; st < nSt; st++ {
					paths = append(paths, []int{first, st})
				}
				for _, path := range paths {
					for op := range c09Ops {
						for rev := 0; rev < 2; rev++ {
							s := c09Spec{Form: "pathstream", Root: rev, Path: path, Op: op}
							c.Do(func() any { return s }, func() *fw.Violation {
								v, _, _ := c09StreamProg(s, append([]string{}, docs...)).check(c)
								return v
							})
						}
					}
				}
				return
			}
			if u >= len(c09HistStmts())*len(c09HistDocs) {
				first := u - len(c09HistStmts())*len(c09HistDocs)
				L := c.Pick(4, 5)
				eachSeq(len(c09ObjStmts()), L, first, func(seq []int) {
					if len(seq) != L {
						return
					}
					s := c09Spec{Form: "objhist", Seq: append([]int{}, seq...)}
					c.Do(func() any { s.Text = c09ObjProg(s).source(); return s }, func() *fw.Violation { return c09ObjCheck(c, s) })
				})
				return
			}
			n := len(c09HistStmts())
			first, doc := u/len(c09HistDocs), c09HistDocs[u%len(c09HistDocs)]
			L := c.Pick(4, 5)
			eachSeq(n, L, first, func(seq []int) {
				if len(seq) != L {
					return // every shorter history is a prefix, and every prefix state is shown
				}
				s := c09Spec{Form: "hist", Doc: doc, Seq: append([]int{}, seq...)}
				c.Do(func() any { s.Text = c09HistProg(s).source(); return s }, func() *fw.Violation { return c09HistCheck(c, s) })
			})
		},
		Finish: func(c *fw.Ctx) {
			for s := range c.States {
				c.NonTrivial(s)
			}
		},
		Replay: func(c *fw.Ctx, raw json.RawMessage) *fw.Violation {
			var s c09Spec
			if !unmarshal(raw, &s) {
				return nil
			}
			if s.Form == "copytime" {
				v, _, _ := c09CopyTimePrograms()[s.Op].check(c)
				return v
			}
			if s.Form == "hist" {
				return c09HistCheck(c, s)
			}
			if s.Form == "objhist" {
				return c09ObjCheck(c, s)
			}
			if s.Form == "mix" {
				v, _, _ := c09MixProg(s).check(c)
				return v
			}
			if s.Form == "pathstream" {
				var docs []string
				for di := 0; di < docs1.Count(); di++ {
					docs = append(docs, docs1.At(di))
				}
				v, _, _ := c09StreamProg(s, docs).check(c)
				return v
			}
			return c09PathCheck(c, s)
		},
	}))
}
