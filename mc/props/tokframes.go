package props

// Frames of the token-sequence differential (tokdiff.go), one list per property.

func tokShows(names ...string) string {
	s := ""
	for _, n := range names {
		s += " show(\"" + n + "\", " + n + ");"
	}
	return s
}

// C05: every expression over operands of every kind and all operators
var tokFramesC05 = []*tokFrame{{
	Name:  "C05 expressions",
	Funcs: tokShow + "function fn() { return 1 }\n",
	Head:  "BEGIN { x = 6 ; y = \"3\" ; z = [ 1 ] ; n = null ; o = { k : 2 } ; r =",
	Tail:  ";" + tokShows("r", "x", "y", "z", "n") + " }",
	Alpha: []string{"x", "y", "z", "n", "u", "o.k", "2", "0", "0.5", "\"a\"", "\"\"", "true", "/a/", "+", "-", "*", "/", "%", "==", "!=", "<", "<=", ">", ">=", "~", "!~", "&&", "||", "!", "(", ")", "is number", "is string", "++", "--"},
	Depth: [2]int{4, 5},
}}

// C02: every program of a few rules
var tokFramesC02 = []*tokFrame{{
	Name:  "C02 rule lists",
	Funcs: "",
	Head:  "",
	Tail:  "",
	Alpha: []string{"BEGIN", "END", "BEGINFILE", "ENDFILE", "{ print \"a\" , $ }", "{ print \"b\" , $ , $file ; next }", "{ print \"c\" ; exit }", "{ n ++ ; print n }", "$ > 1", "true", "false", "n", "! n", "\n"},
	Files: []inFile{{"f1.json", "[1,2] {\"a\":[3,4]}"}, {"f2.json", "5"}},
	Root:  true,
	Depth: [2]int{5, 6},
}}

// C07: every statement list over the control-flow constructs
var tokFramesC07 = []*tokFrame{{
	Name:  "C07 statements",
	Funcs: tokShow + "function f(p) { while (p < 3) { p ++ ; if (p == 2) { return p } } print \"fend\" }\n",
	Head:  "{ a = [ 1 , 2 ] ; v = 0 ; w = 0 ; i = 0 ;",
	Tail:  "; print \"rend\", $, v, w, i }\n{ print \"second\", $ }\nEND { print \"END\", v, w, i }",
	Alpha: []string{"if (", "else", "while (", "for (", "v in a", "v , w in a", ")", "{", "}", ";", "break", "continue", "next", "exit", "print v", "v ++", "v < 2", "i = 0", "i < 2", "i ++", "true", "false", "f ( v )"},
	Files: []inFile{{"in.json", "[1,2]"}},
	Depth: [2]int{6, 7},
}}

// C08: every statement list over calls of three functions
var tokFramesC08 = []*tokFrame{{
	Name:  "C08 calls",
	Funcs: tokShow + "function f(a, b) { a = a + 1 ; g = g + 1 ; q = b ; return a + b }\nfunction h(a) { if (a > 3) { return a } return h(a + f(a, 1)) }\nfunction p2(a) { a . k = 5 ; t = 1 }\n",
	Head:  "{ g = 10 ; x = 1 ; o = { k : 0 } ;",
	Tail:  ";" + tokShows("r", "g", "x", "o", "a", "b", "q", "t") + " }",
	Alpha: []string{"f (", "h (", "p2 (", ")", ",", "x", "g", "o", "o . k", "a", "1", "[ x ]", "r =", "x =", ";", "+", "$", "print"},
	Files: []inFile{{"in.json", "[1,2]"}},
	Depth: [2]int{6, 7},
}}

// C09: every statement list over assignment targets, stores and reads
var tokFramesC09 = []*tokFrame{{
	Name:  "C09 stores",
	Funcs: tokShow,
	Head:  "{ a = [ 1 , [ 2 ] ] ; o = { k : 1 } ; b = a ;",
	Tail:  ";" + tokShows("a", "b", "o", "x", "$") + " }\nENDFILE { show(\"end\", $) }",
	Alpha: []string{"a", "b", "o", "x", "$", ". k", ". j", "[ 0 ]", "[ 1 ]", "[ -1 ]", "[ 2 ]", "[ \"k\" ]", "=", "+=", "++", "--", ";", "1", "\"s\"", "[ ]", "null"},
	Files: []inFile{{"in.json", "[{\"k\":[1]},5]"}},
	Root:  true,
	Depth: [2]int{5, 6},
}}

// C15: every statement list over the array methods
var tokFramesC15 = []*tokFrame{{
	Name:  "C15 array methods",
	Funcs: tokShow,
	Head:  "BEGIN { a = [ 3 , 1 ] ; b = a ; c = [ ] ;",
	Tail:  ";" + tokShows("a", "b", "c", "r") + " }",
	Alpha: []string{"a", "b", "c", "r =", ". push (", ". pop ( )", ". popfirst ( )", ". length ( )", ". contains (", ". sort ( )", ")", "[ 0 ]", "[ -1 ]", "[ 2 ]", "=", ";", "1", "\"s\"", "5"},
	Depth: [2]int{5, 6},
}}

// C16: every expression statement over the string / number / object methods and num()
var tokFramesC16 = []*tokFrame{{
	Name:  "C16 methods",
	Funcs: tokShow,
	Head:  "BEGIN { s = \"a,B\" ; n = 2.5 ; o = { k : 1 , j : \"v\" } ;",
	Tail:  ";" + tokShows("s", "n", "o", "r") + " }",
	Alpha: []string{"s", "n", "o", "r =", ". split (", ". upper ( )", ". lower ( )", ". length ( )", ". floor ( )", ". ceil ( )", ". round ( )", ". pluck (", "num (", ")", "\",\"", "\"\"", "\"k\"", "\"z\"", ",", "[ 0 ]", ";", "-", "1"},
	Depth: [2]int{5, 6},
}}

// C17: every print statement over values of every shape
var tokFramesC17 = []*tokFrame{{
	Name:  "C17 print",
	Funcs: "",
	Head:  "{ x = \"s\" ; y = 1.5 ; a = [ 1 , \"t\" ] ; o = { k : null } ; e = [ ] ;",
	Tail:  "; print \"rend\" }",
	Alpha: []string{"print", ",", "x", "y", "a", "o", "e", "$", "null", "true", "\"l1\\nl2\"", "\"q\\\\b\"", "[", "]", "{ k :", "}", ";", "100000000000000000000", "0.1", "- 0", "a . push ( a )"},
	Files: []inFile{{"in.json", "[\"top\",{\"b\":[]}]"}},
	Depth: [2]int{5, 6},
}}

// C19: every case list of a match, one frame per subject
var tokFramesC19 = func() []*tokFrame {
	var out []*tokFrame
	for _, subj := range []string{"x", "a", "a [ 1 ]", "\"a\"", "null", "u", "[ 1 , x ]"} {
		out = append(out, &tokFrame{
			Name:  "C19 match ( " + subj + " )",
			Funcs: tokShow,
			Head:  "BEGIN { x = 1 ; a = [ 1 , [ 2 , 3 ] ] ; v = \"ov\" ; r = match ( " + subj + " ) {",
			Tail:  ";" + tokShows("r", "v", "w", "x") + " }",
			Open:  "{",
			Alpha: []string{"1 =>", "2 =>", "\"a\" =>", "null =>", "_ =>", "v =>", "x =>", "[ v , w ] =>", "[ 1 , v ] =>", "[ ] =>", "1 ,", "v ,", ",", "v", "w", "x", "[ v , w ]", "{ print v }", "{ print w ; v = 2 }", "v + 1", "match ( v ) {", "}"},
			Depth: [2]int{5, 6},
		})
	}
	return out
}()
