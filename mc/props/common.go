// Package props holds one decision procedure per property.
package props

import (
	"bytes"
	"encoding/json"
	"fmt"
	"os/exec"
	"strings"
	"time"

	"verif/mc/drive"
	"verif/mc/fw"
)

func run(c *fw.Ctx, s drive.Spec) drive.Outcome {
	c.Evals++
	return drive.Run(s)
}

type detail struct {
	Program    string        `json:"program,omitempty"`
	Files      []drive.File  `json:"files,omitempty"`
	Selectors  []string      `json:"selectors,omitempty"`
	WantStdout string        `json:"want_stdout"`
	WantKind   drive.ErrKind `json:"want_kind"`
	Got        drive.Outcome `json:"got"`
	Note       string        `json:"note,omitempty"`
}

func clip(s string) string {
	if len(s) > 600 {
		return s[:300] + fmt.Sprintf("…(%d bytes)…", len(s)) + s[len(s)-200:]
	}
	return s
}

// expect compares one implementation run with the model's observation: exact
// stdout and outcome class. It returns nil when they agree.
func expect(s drive.Spec, o drive.Outcome, wantOut string, wantKind drive.ErrKind, note string) *fw.Violation {
	what := ""
	switch {
	case o.Kind == drive.KPanic:
		what = "implementation panicked"
	case o.Kind == drive.KOther:
		what = "implementation returned an error that is none of the three kinds"
	case o.Kind != wantKind:
		what = fmt.Sprintf("outcome differs from the model: want %s, got %s", wantKind, o.Kind)
	case o.Stdout != wantOut:
		what = "stdout differs from the model"
	default:
		return nil
	}
	o.Ev = nil
	o.Stdout = clip(o.Stdout)
	return &fw.Violation{What: what, Detail: detail{Program: s.Program, Files: s.Files, Selectors: s.Selectors, WantStdout: clip(wantOut), WantKind: wantKind, Got: o, Note: note}}
}

func unmarshal(raw json.RawMessage, v any) bool {
	return json.Unmarshal(raw, v) == nil
}

func pow(b, e int) int {
	r := 1
	for i := 0; i < e; i++ {
		r *= b
	}
	return r
}

// runChild runs a child process with a generous wall-clock limit. Expiry is
// inconclusive (timedOut=true), never a verdict: the caller notes it and moves on.
func runChild(c *fw.Ctx, cmd *exec.Cmd, stdin string, limit time.Duration) (stdout, stderr string, exit int, timedOut bool) {
	cmd.Stdin = strings.NewReader(stdin)
	var so, se bytes.Buffer
	cmd.Stdout, cmd.Stderr = &so, &se
	if err := cmd.Start(); err != nil {
		return "", err.Error(), -1, false
	}
	done := make(chan error, 1)
	go func() { done <- cmd.Wait() }()
	var err error
	select {
	case err = <-done:
	case <-time.After(limit):
		cmd.Process.Kill()
		<-done
		c.Incompl("a child process was stopped after " + limit.String() + " (inconclusive)")
		c.Note("child processes stopped by the wall-clock limit", 1)
		return so.String(), se.String(), -1, true
	}
	if err != nil {
		exit = -1
		if ee, ok := err.(*exec.ExitError); ok {
			exit = ee.ExitCode()
		}
	}
	return so.String(), se.String(), exit, false
}
