package props

import (
	. "verif/mc/refsem"
)

// Seed programs (18): model ASTs that together use every statement and expression
// form. Each prints in BEGIN before anything else. Used by C11 (syntax
// splices), C12 (error positions) and C13 (layout neighbourhoods).

func seedPrograms() []*progCase {
	num := func(s string) Expr { return N(s) }
	doc := []inFile{{"in.json", `[{"name":"Beth","rate":4,"hours":0,"tags":["a","b"]},{"name":"Kathy","rate":4.5,"hours":10,"tags":[]}]`}}
	var out []*progCase
	add := func(files []inFile, funcs []*Func, rules ...*Rule) {
		out = append(out, &progCase{P: &Program{Funcs: funcs, Rules: rules}, Files: files})
	}
	begin := func(body ...Stmt) *Rule {
		return &Rule{Kind: "BEGIN", Body: Blk(append([]Stmt{Pr(S("start"))}, body...)...)}
	}
	// 1 arithmetic, precedence, unary, grouping
	add(nil, nil, begin(
		Pr(Bin("-", Bin("-", num("8"), num("3")), num("2")), Bin("*", Bin("+", num("1"), num("2")), num("3")), Bin("+", num("1"), Bin("*", num("2"), num("3")))),
		Pr(Un("-", num("4")), Un("!", num("0")), Un("!", Un("!", S("x"))), Bin("%", num("7"), num("3")), Bin("/", num("7"), num("2"))),
		Pr(Bin("-", num("3"), num("1")), Bin("+", S("a"), num("1")), Bin("+", num("1.5"), num("007"))),
	))
	// 2 comparison, logic, is, regex
	add(nil, nil, begin(
		Pr(Bin("<", num("1"), num("2")), Bin(">=", S("b"), S("a")), Bin("==", S("1.0"), num("1")), Bin("!=", &NullLit{}, num("0"))),
		Pr(Bin("&&", num("1"), S("")), Bin("||", num("0"), S("x")), Bin("||", Bin("&&", num("0"), num("0")), num("1"))),
		Pr(&IsExpr{num("1"), "number"}, &IsExpr{S("s"), "string"}, &IsExpr{V("nope"), "unknown"}, &IsExpr{Arr_(), "array"}, &IsExpr{&NullLit{}, "null"}, &IsExpr{V("f"), "function"}),
		Pr(Bin("~", S("hello"), &RegexLit{"l+"}), Bin("!~", S("hello"), S("^x"))),
	), &Rule{Kind: "END", Body: Blk(Pr(S("end")))})
	out[len(out)-1].P.Funcs = []*Func{{Name: "f", Body: Blk(&Return{num("1")})}}
	// 3 the README shape: pattern rule, printf, accumulation, END
	add(doc, nil, begin(Pr(S("Pay"))),
		&Rule{Pattern: Bin(">", Mem(V("$"), "hours"), num("0")), Body: Blk(
			Ex(CallE(V("printf"), S("%-8s %f\n"), Mem(V("$"), "name"), Bin("*", Mem(V("$"), "rate"), Mem(V("$"), "hours")))),
			Ex(Asg("+=", V("total"), Bin("*", Mem(V("$"), "rate"), Mem(V("$"), "hours")))),
		)},
		&Rule{Kind: "END", Body: Blk(Pr(S("Total"), V("total")))})
	// 4 if / else chains, while, break, continue
	add(nil, nil, begin(
		Ex(Asg("=", V("i"), num("0"))),
		&While{Cond: Bin("<", V("i"), num("6")), Body: Blk(
			Ex(&Postfix{"++", V("i")}),
			&If{Cond: Bin("==", V("i"), num("2")), Then: &Continue{}},
			&If{Cond: Bin("==", V("i"), num("5")), Then: Blk(&Break{}), Else: &If{Cond: Bin("==", Bin("%", V("i"), num("2")), num("0")), Then: Pr(S("even"), V("i")), Else: Pr(S("odd"), V("i"))}},
		)},
		Pr(S("i"), V("i")),
	))
	// 5 three-clause for, for-in over array / object / string
	add(nil, nil, begin(
		&For{Init: Asg("=", V("j"), num("0")), Cond: Bin("<", V("j"), num("3")), Post: &Postfix{"++", V("j")}, Body: Pr(S("j"), V("j"))},
		&ForIn{V: "v", Iter: Arr_(num("10"), num("20")), Body: Pr(V("v"))},
		&ForIn{V: "v", W: "k", Iter: Arr_(S("x"), S("y")), Body: Pr(V("k"), V("v"))},
		&ForIn{V: "key", W: "val", Iter: &ObjLit{Keys: []string{"b", "a"}, Vals: []Expr{num("2"), num("1")}}, Body: Blk(Pr(V("key"), V("val")))},
		&ForIn{V: "ch", W: "off", Iter: S("héy"), Body: Pr(V("ch"), V("off"))},
	))
	// 6 functions: parameters, return, recursion, locals
	add(nil, []*Func{
		{Name: "fact", Params: []string{"n"}, Body: Blk(&If{Cond: Bin("<=", V("n"), num("1")), Then: &Return{num("1")}}, &Return{Bin("*", V("n"), CallE(V("fact"), Bin("-", V("n"), num("1"))))})},
		{Name: "noret", Params: []string{"a", "b"}, Body: Blk(Ex(Asg("=", V("loc"), Bin("+", V("a"), num("1")))), Pr(S("in"), V("a"), V("b"), V("loc")))},
	}, begin(
		Pr(CallE(V("fact"), num("5"))),
		Ex(Asg("=", V("r"), CallE(V("noret"), num("1")))),
		Pr(V("r"), &IsExpr{V("loc"), "unknown"}),
		Ex(CallE(V("noret"), num("1"), num("2"), num("3"))),
	))
	// 7 arrays, objects, members, indices, methods
	add(nil, nil, begin(
		Ex(Asg("=", V("a"), Arr_(num("3"), num("1"), num("2")))),
		Ex(CallE(Mem(V("a"), "push"), num("9"))),
		Pr(V("a"), CallE(Mem(V("a"), "length")), Idx(V("a"), num("0")), Idx(V("a"), Un("-", num("1"))), CallE(Mem(V("a"), "sort"))),
		Pr(CallE(Mem(V("a"), "pop")), CallE(Mem(V("a"), "popfirst")), V("a"), CallE(Mem(V("a"), "contains"), num("1"))),
		Ex(Asg("=", V("o"), &ObjLit{Keys: []string{"k", "two words"}, Vals: []Expr{num("1"), Arr_(num("2"))}})),
		Ex(Asg("=", Mem(Mem(V("o"), "deep"), "er"), num("5"))),
		Ex(Asg("=", Idx(Mem(V("o"), "list"), num("2")), S("z"))),
		Pr(V("o"), CallE(Mem(V("o"), "length")), Idx(V("o"), S("k")), Mem(Mem(V("o"), "missing"), "x"), CallE(Mem(V("o"), "pluck"), S("k"))),
	))
	// 8 strings: escapes, both quotes, methods
	add(nil, nil, begin(
		Pr(&StrLit{S: "tab\there", Quote: '\''}, &StrLit{S: "back\\slash"}, &StrLit{S: "it's", Quote: '"'}, &StrLit{S: `say "hi"`, Quote: '\''}),
		Pr(CallE(Mem(S("a,b,c"), "split"), S(",")), CallE(Mem(S("MiXed"), "upper")), CallE(Mem(S("MiXed"), "lower")), CallE(Mem(S("héy"), "length")), Idx(S("abc"), num("1"))),
		Ex(Asg("=", V("n"), num("2.5"))),
		Pr(CallE(V("num"), S("12.5")), CallE(V("num"), S("x")), CallE(Mem(V("n"), "floor")), CallE(Mem(V("n"), "ceil")), CallE(Mem(V("n"), "round"))),
		Pr(S("# not a comment"), S("semi;colon")),
	))
	// 9 match: literals, identifiers, arrays, blocks
	add(nil, nil, begin(
		&ForIn{V: "s", Iter: Arr_(num("1"), S("a"), Arr_(num("2"), num("5")), Arr_(num("1"), Arr_(num("2"), num("3"))), &NullLit{}, num("7")), Body: Blk(
			Ex(Asg("=", V("r"), &MatchExpr{Subj: V("s"), Cases: []MatchCase{
				{Pats: []Expr{Arr_(num("1"), V("x")), Arr_(num("2"), V("x"))}, Body: V("x")},
				{Pats: []Expr{&NullLit{}}, Block: Blk(Pr(S("null case")))},
				{Pats: []Expr{num("1"), S("a")}, Body: S("one or a")},
				{Pats: []Expr{V("other")}, Body: Bin("+", V("other"), num("100"))},
			}})),
			Pr(S("r"), V("r")),
		)},
	))
	// 10 BEGINFILE / ENDFILE / pattern-less / body-less / next / exit
	add([]inFile{{"one.json", `[1,2,3]`}, {"two.json", `{"a":[5]} 7`}}, nil, begin(),
		&Rule{Kind: "BEGINFILE", Body: Blk(Pr(S("bf"), V("$file"), V("$")))},
		&Rule{Pattern: Bin("&&", &IsExpr{V("$"), "number"}, Bin("==", V("$"), num("2"))), Body: Blk(Pr(S("two")), &Next{})},
		&Rule{Body: Blk(Pr(S("el"), V("$")))},
		&Rule{Kind: "ENDFILE", Body: Blk(Pr(S("ef"), V("$")))},
		&Rule{Pattern: Bin("&&", &IsExpr{V("$"), "number"}, Bin("==", V("$"), num("7"))), Body: Blk(&Exit{})},
		&Rule{Kind: "END", Body: Blk(Pr(S("never")))},
		&Rule{Pattern: &IsExpr{V("$"), "number"}},
	)
	// 11 compound assignment, prefix / postfix, chained assignment
	add(nil, nil, begin(
		Ex(Asg("=", V("a"), Asg("=", V("b"), num("5")))),
		Ex(Asg("+=", V("a"), num("2"))), Ex(Asg("-=", V("b"), num("1"))), Ex(Asg("*=", V("a"), num("3"))), Ex(Asg("/=", V("b"), num("2"))),
		Pr(V("a"), V("b")), Pr(&Postfix{"++", V("a")}), Pr(Un("++", V("a"))), Pr(&Postfix{"--", V("b")}), Pr(Un("--", V("b"))), Pr(V("a"), V("b")),
		Ex(Asg("=", V("c"), Arr_())), Ex(&Postfix{"++", Idx(V("c"), num("1"))}), Ex(Asg("+=", Mem(Idx(V("c"), num("2")), "n"), num("4"))),
		Pr(V("c")),
	))
	// 12 selectors
	out = append(out, &progCase{P: &Program{Rules: []*Rule{begin(), {Body: Blk(Pr(V("$index"), V("$")))}, {Kind: "ENDFILE", Body: Blk(Pr(S("ef"), V("$")))}}},
		Files: []inFile{{"in.json", `{"a":[1,2],"b":{"c":[3]}}`}}, Sels: []Expr{Mem(V("$"), "a"), Mem(Mem(V("$"), "b"), "c")}})
	// 13 json output of a mutated document, nested containers, sharing
	add([]inFile{{"in.json", `{"list":[1,2],"name":"n"}`}}, nil, begin(),
		&Rule{Body: Blk(
			Ex(Asg("=", V("x"), Mem(V("$"), "list"))), Ex(CallE(Mem(V("x"), "push"), num("3"))), Ex(Asg("=", Mem(V("$"), "copy"), V("x"))),
			Ex(Asg("=", Mem(V("$"), "name"), Bin("+", Mem(V("$"), "name"), S("!")))),
			Pr(V("$")),
		)})
	out[len(out)-1].Root = true
	// 14 printf forms
	add(nil, nil, begin(
		Ex(CallE(V("printf"), S("%s|%5s|%-5s|%05f|%v|%%\n"), S("a"), S("b"), S("c"), num("1.5"), Arr_(num("1"), S("x")))),
		Ex(CallE(V("printf"), S("no newline"))), Pr(S("")),
	))
	// 15 nested blocks, if without braces, dangling else
	add(nil, nil, begin(
		&If{Cond: num("1"), Then: &If{Cond: num("0"), Then: Pr(S("a")), Else: Pr(S("b"))}},
		&If{Cond: num("0"), Then: Blk(&If{Cond: num("1"), Then: Pr(S("c"))}), Else: Pr(S("d"))},
		Blk(Blk(Pr(S("nested")))),
		&While{Cond: Bin("<", &Postfix{"++", V("w")}, num("2")), Body: Pr(S("w"), V("w"))},
	))
	// 16 bare print followed by further statements, body-less rule, statements after blocks
	add([]inFile{{"in.json", `[4,5]`}}, nil, begin(),
		&Rule{Body: Blk(Pr(), Ex(Asg("=", V("x"), Bin("+", V("x"), V("$")))), Pr(), &If{Cond: num("1"), Then: Blk(Pr(S("x"), V("x")))}, Pr(S("after block")), &Exit{})},
	)
	// 17 the one-word statements (return, break, continue, next, exit) each followed by another statement of the same block
	add([]inFile{{"in.json", `[4,5,6]`}}, []*Func{
		{Name: "g", Params: []string{"a"}, Body: Blk(&If{Cond: Bin(">", V("a"), num("5")), Then: &Return{}}, Pr(S("small"), V("a")), &If{Cond: Bin(">", V("a"), num("2")), Then: Blk(&Return{}, Pr(S("dead")))}, &Return{X: V("a")}, Pr(S("dead")))},
	}, begin(
		Pr(CallE(V("g"), num("7")), CallE(V("g"), num("1")), CallE(V("g"), num("3"))),
		&For{Init: Asg("=", V("i"), num("0")), Cond: Bin("<", V("i"), num("4")), Post: &Postfix{"++", V("i")}, Body: Blk(
			&If{Cond: Bin("==", V("i"), num("1")), Then: Blk(&Continue{}, Pr(S("dead")))}, Pr(S("i"), V("i")), &If{Cond: Bin("==", V("i"), num("2")), Then: Blk(&Break{}, Pr(S("dead")))}, Pr(S("x")))},
		&While{Cond: num("1"), Body: Blk(&Break{}, Pr(S("dead")))},
	),
		&Rule{Body: Blk(&If{Cond: Bin("==", V("$"), num("4")), Then: Blk(&Next{}, Pr(S("dead")))}, Pr(S("el"), V("$")), &If{Cond: Bin("==", V("$"), num("5")), Then: Blk(&Exit{}, Pr(S("dead")))}, Pr(S("after")))},
		&Rule{Kind: "END", Body: Blk(Pr(S("never")))},
	)
	// 18 match expressions with multi-statement block bodies inside parentheses, brackets and argument lists
	add([]inFile{{"in.json", `[{"kind":"a"},{"kind":"b"},{"kind":"c"}]`}}, nil, begin(Ex(Asg("=", V("skipped"), num("0"))), Ex(Asg("=", V("hits"), num("0"))), Ex(Asg("=", V("seen"), S("none")))),
		&Rule{Body: Blk(
			Ex(Asg("+=", V("n"), CallE(V("num"), &MatchExpr{Subj: Mem(V("$"), "kind"), Cases: []MatchCase{{Pats: []Expr{S("a")}, Body: S("1")}, {Pats: []Expr{V("k")}, Block: Blk(Pr(S("other"), V("k")), Ex(&Postfix{"++", V("skipped")}))}}}))),
			Ex(Asg("=", V("r"), Arr_(&MatchExpr{Subj: Mem(V("$"), "kind"), Cases: []MatchCase{{Pats: []Expr{S("b")}, Block: Blk(Pr(), Ex(Asg("=", V("hits"), Bin("+", V("hits"), num("1")))))}, {Pats: []Expr{V("_")}, Body: num("0")}}}, num("7")))),
			Pr(S("r"), V("r"), &Paren{X: &MatchExpr{Subj: num("1"), Cases: []MatchCase{{Pats: []Expr{V("w")}, Block: Blk(Ex(Asg("=", V("seen"), V("w"))), Pr(S("in parens"), V("w")))}}}}),
		)},
		&Rule{Kind: "END", Body: Blk(Pr(S("end"), V("n"), V("skipped"), V("hits"), V("seen")))},
	)
	return out
}
