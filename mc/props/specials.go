package props

import (
	"strings"

	"verif/mc/drive"

	"verif/mc/refsem"
)

// Special values: fixed programs around values that an alphabet of "representative" values does not hold - doubles no numeral
// denotes, keys that look like numbers or are empty, characters with a special encoding, strings that look like keywords. The
// expected result of each is the reference interpreter's, run in strict mode on the implementation's own parse (E5's oracle);
// a program the interpreter declines shows as `exhaustive: false`.

type textProg struct {
	Prog  string
	Input string
	Root  bool
}

func textFam(prop, name string, progs []textProg) *scaleFam {
	return &scaleFam{Prop: prop, Name: name, Max: len(progs), QMax: len(progs), All: true, Build: func(n int) scaleCase {
		t := progs[n-1]
		var files []inFile
		if t.Input != "" {
			files = []inFile{{Name: "in.json", Text: t.Input}}
		}
		return scaleCase{Prog: t.Prog, Files: files, ModelWant: true, Root: t.Root}
	}}
}

// fixedFam: a list of fixed programs with closed-form results.
func fixedFam(prop, name string, cases []scaleCase) *scaleFam {
	return &scaleFam{Prop: prop, Name: name, Max: len(cases), QMax: len(cases), All: true, Build: func(n int) scaleCase { return cases[n-1] }}
}

func specialFamilies() []*scaleFam {
	bigIds := `[{"id": 18446744073709551615, "name": "a"}, {"id": 9223372036854775808, "name": "b"}, {"id": 1e21, "name": "c"}, {"id": 9223372036854775807, "name": "d"}, {"id": 9007199254740993, "name": "e"}, {"id": -9223372036854775808, "name": "f"}, {"id": 1e300, "name": "g"}]`
	return []*scaleFam{
		textFam("C09", "object members addressed by numbers no small alphabet holds", []textProg{
			{Prog: "{ byId[$.id] = $.name; n[$.id]++ }\nEND { print byId.length(); for (k, v in byId) { print k, v, n[k] } }\n", Input: bigIds},
			{Prog: "BEGIN { big = 9223372036854775808; o[big] = \"first\"; o[big * 2] = \"second\"; o[1000000000000000000000] = \"third\"; o[\"-9223372036854775808\"] = \"fourth\"; print o.length(), o[big], o[big * 2], o[\"-9223372036854775808\"]; o[1000000000000000000000] = \"changed\"; o[big * 4]++; print o.length(), o[big], o[big * 2], o[\"-9223372036854775808\"], o[big * 4]; for (k, v in o) { print k, v } }\n"},
			{Prog: "{ $[1000000000000000000000]++; $[9223372036854775808] = 1 }\nEND { print $ }\n", Input: `{"-9223372036854775808": 7, "1000000000000000000000": 1}`, Root: true},
			{Prog: "BEGIN { c = {} }\n{ c[$.round()]++; d[$ * 0] = $ }\nEND { print c; print d; print c[0], c[-0], c[\"0\"], c[\"-0\"], d.length() }\n", Input: `[0.3, -0.2, 0.4, -0.4, 1.2]`},
			{Prog: "BEGIN { z = 0; m = -0; o[z] = \"zero\"; o[m] = \"minus\"; o[0.0] = \"again\"; print o.length(), o[0], o[-0], o[\"0\"], o[\"-0\"]; a = [1, 2]; a[m] = \"x\"; print a }\n"},
			{Prog: "BEGIN { n = num(\"NaN\"); i = num(\"Inf\"); o[n] = 1; o[i] = 2; o[0 - i] = 3; o[n]++; print o.length(); for (k, v in o) { print k, v } print o[\"NaN\"], o[\"+Inf\"], o[\"-Inf\"] }\n"},
			{Prog: "{ o[$] = $index; p[$ + \"\"] = $index }\nEND { print o.length(), p.length(); for (k, v in o) { print k, v, p[k] } }\n", Input: `[0.1, 0.30000000000000004, 1e21, 1e-7, 123456789012345680000, 0.000001, 100, 1e2, "100", "1e2", true, null]`},
		}),
		textFam("C07", "for-in over strings and keys with a special encoding", []textProg{
			{Prog: "{ c = 0; for (ch, off in $) { print off, ch, ch.length(); c++; if (c > 20) { break } } print \"count\", c }\n", Input: "[\"a\\ufffdb\", \"\\ud800x\", \"e\\u0301\", \"\\u2028|\\u2029\", \"\U0001F600z\", \"\", \"\\ufffd\", \"\\ufffd\\ufffd\", \"\\u0000a\", \"é€\"]"},
			{Prog: "{ for (ch in $) { if (ch == \"\\t\") { continue } out = out + ch + \".\" } }\nEND { print out }\n", Input: "[\"a\\tb\", \"\\ufffd\\t\\ufffd\", \"\\ud83d\\ude00\\ud83d\"]"},
			{Prog: "{ n = 0; for (k, v in $) { n++; print n, k, v; if (k == \"created_by\") { break } } print \"stopped after\", n; for (k in $) { if (k == \"customer_zip\") { continue } keys = keys + \",\" + k } print keys }\n", Input: `[{"id": 5, "customer_zip": 3, "created_by": 2, "customer_name": 4, "created_at": 1, "customer_zipcode": 6, "created_at_utc": 7, "abcdefgh_4": 8, "abcdefgh_1": 9, "abcdefgh_3": 10, "abcdefgh_2": 11, "abcdefgh_0": 12}]`},
			{Prog: "function find(o, want) { for (k, v in o) { if (v == want) { return k } } return \"none\" }\n{ print find($, 4), find($, 1), find($, 9) }\n", Input: `[{"abcdefgh_long_b": 1, "abcdefgh_long_a": 4, "abcdefgh": 2, "abcdefghi": 3, "abcdefg": 5}]`},
		}),
		textFam("C02", "pattern values that look false but are not", []textProg{
			{Prog: "$\n", Input: `["yes", "false", "null", "0", "", " ", "no", "False", "NULL", 0, "0.0", "off", "undefined", "nil", "[]", [], {}, "\u0000"]`},
			{Prog: "$.enabled { print \"on\", $index }\n! $.enabled { print \"off\", $index }\n$.enabled { seen++; next }\n{ print \"rest\", $index }\nEND { print seen }\n", Input: `[{"enabled": "false"}, {"enabled": "true"}, {"enabled": false}, {"enabled": "null"}, {"enabled": " false "}, {"enabled": "FALSE"}, {"enabled": 0}, {"enabled": "0"}, {}]`},
			{Prog: "$ { print \"first\", $; next }\n{ print \"second\", $ }\n", Input: `"false" "null" null false "no" 0 "0" ""`},
			{Prog: "$ ~ \"^(false|null)$\" { print \"word\", $ }\n$ == \"false\" { print \"eq\" }\n$ != false { print \"ne\", $ }\n", Input: `["false", "null", false, null]`},
		}),
		textFam("C19", "pattern names of special spelling and patterns of many names", []textProg{
			{Prog: "BEGIN { i = \"outer\"; j = \"outer j\" }\n{ print match ($) { [a, b, c, d, e, f, g, h, i] => a + i, [[a, b, [c, d]], [e, [f, g, h]], i, j] => a + \"/\" + j + \"/\" + i + \"/\" + h, _ => \"no\" }\nprint i, j }\n", Input: `[[1,2,3,4,5,6,7,8,9], [[1,2,[3,4]],[5,[6,7,8]],9,10], [1]]`},
			{Prog: "{ print match ($) { [a1, a2, a3, a4, a5, a6, a7, a8, a9, a10, a11, a12] => a1 + a8 + a9 + a10 + a12, [p, q] => q }\nprint a9 is unknown, a12 is unknown }\n", Input: `[[1,2,3,4,5,6,7,8,9,10,11,12], [1, 2]]`},
			{Prog: "function use(x) { return match (x) { [n1, n2, n3, n4, n5, n6, n7, n8, n9, n10] => helper() + n10, _ => 0 } }\nfunction helper() { return n9 }\nBEGIN { n9 = 1000 }\n{ print use($), helper() }\n", Input: `[[1,2,3,4,5,6,7,8,9,10]]`},
			{Prog: "{ print match ($) { [_, y] => \"two\", [_, x, z] => x + _, _ => \"other\" } }\n", Input: `[[1,2],[1,2,3],[1]]`},
		}),
		textFam("C19", "pattern names that start with $", []textProg{
			{Prog: "{ print match ($) { [$a, $b] => $a + $b, _ => \"none\" } }\n", Input: `[[1, 2], [3]]`},
			{Prog: "{ print match ($) { [$index, v] => $index + \"=\" + v, other => other }\nprint $index }\n", Input: `[["k", "v"], 7]`},
		}),
		textFam("C04", "programs that handle the document's numbers without storing into it", []textProg{
			{Prog: "{ for (x in $) { x++ } for (i, y in $) { y += 10; --y } }\nEND { print \"done\" }\n", Input: `[[1, 2], [3, 4]]`, Root: true},
			{Prog: "{ for (k, v in $) { v++; t = v; t++ } n = $.a; n++; m = $.b[0]; m -= 1 }\nEND { print n, m }\n", Input: `{"a": 1, "b": [5, 6]}`, Root: true},
			{Prog: "BEGIN { a = [1, 2]; for (x in a) { x++ } print a; o = {p: 1}; for (k, v in o) { v++ } print o }\n"},
			{Prog: "function inc(v) { v++; return v }\n{ inc($[0]); inc($[1][0]); w = $[1]; w[0]++ }\n", Input: `[1, [2]]`, Root: true},
		}),
		textFam("C15", "sort, contains and pops on values whose written forms differ", []textProg{
			{Prog: "{ print $.sort(); print $ }\n", Input: `[[0.5, 0.00002, "N/A"], ["12", 1500000], ["x", 2000000, 25], [1000000, 999999, "1e6", "1000000"], [0.0001, 0.00001, "0.00001", 1e21, 1e20, "1e+21"], [10, 9, 100, 1e3, "9"], [-0, 0, "-0", "0"], [true, "true", 1, "1", null, "null"]]`},
			{Prog: "{ a = $.sort(); b = a.sort(); print a == b || true, a[0], a[-1], a.length(); print $.contains(1000000), $.contains(\"1000000\"), $.contains(0.00002), $.contains(\"2e-05\") }\n", Input: `[[1000000, 0.00002, "b"], [2000000, "a", 1000000]]`},
			{Prog: "BEGIN { for (i = 0; i < 100; i++) { a.push(i) } for (i = 0; i < 80; i++) { s += a.pop() } print a.length(), s, a[-1], a.pop(), a.pop(), a.length(); while (a.length() > 0) { a.pop(); n++ } print n, a.length(); a.push(\"z\"); print a }\n"},
			{Prog: "{ n = 0; while ($.length() > 0) { t = $.pop(); n++ } print n, t, $.length(); $.push(7); print $ }\n", Input: "[[" + nums(70, ",") + "]]", Root: true},
			{Prog: "BEGIN { for (i = 0; i < 100; i++) { a.push(i) } for (i = 0; i < 90; i++) { s += a.popfirst() } print a.length(), s, a[0], a.popfirst(), a.length(); a.push(1); a.push(2); print a }\n"},
		}),
		textFam("C16", "num() of numerals with 15 to 19 significant digits", []textProg{
			{Prog: "{ s = \"\" + $; if (num(s) != $) { print \"differs\", s, num(s) } else { ok++ } }\nEND { print ok }\n", Input: c16Doubles()},
			{Prog: "BEGIN { print num(\"1.4000000000000001\") == 1.4000000000000001, num(\"1.4000000000000001\") == 1.4, num(\"0.09090909090909091\"), num(\"0.1\") + num(\"1.3\"), num(\"\" + (0.1 + 1.3)) == 0.1 + 1.3, num(\"123456789.12345678\"), num(\"0.30000000000000004\"), num(\"9007199254740993\"), num(\"-0.0000000000000000001\"), num(\"00.5\"), num(\"1.\"), num(\".5\") }\n"},
		}),
		textFam("C05", "+ chains that mix numbers and strings, comparisons with NaN", []textProg{
			{Prog: "{ print $.net + $.tax + \"|\" + $.name + \"|\" + 1 + 2 + \"|\" + $.net + $.tax + \"|\" + (1 + 2) + \"|\" + true + null + \"|\" + $.net; print true + null + 1 + \"a\" + 1 + 1 + \"a\" + 1 + 1 + \"a\" + 1 + 1 + \"a\" + 1 + 1 + \"a\" + 1 + 1; print 1 + 2 + 3 + 4 + 5 + 6 + 7 + 8 + 9 + 10 + 11 + 12 + 13 + 14 + 15 + 16 + \"s\" + 17 + 18 }\n", Input: `[{"net": 10, "tax": 2, "name": "x"}]`},
			{Prog: "$.score < 50 { print \"low\", $.id }\n$.score >= 50 { print \"high\", $.id }\n$.score == 40 { print \"forty\", $.id }\n{ s = num($.score + \"\"); print s < 50, s > 50, s == 50, s != 50, s <= 50, s >= 50, s == s, s < true, s < \"1\", ! s, s && 1 }\n", Input: `[{"id": 1, "score": 40}, {"id": 2, "score": "NaN"}, {"id": 3, "score": 70}, {"id": 4, "score": "nan"}, {"id": 5, "score": "Inf"}, {"id": 6, "score": "-Infinity"}]`},
		}),
		textFam("C08", "frames that hold many names, returns that pass through a match inside a return", []textProg{
			{Prog: "function report(a, b, c, d, e, f, g, h, total) { total = a + b; return total }\nfunction add(x) { total = total + x }\nfunction stats() { s1 = 1; s2 = 2; s3 = 3; s4 = 4; s5 = 5; s6 = 6; s7 = 7; s8 = 8; n = 3; return n }\nfunction count() { n++; return n }\nBEGIN { total = 0 }\n{ report(1, 2, 3, 4, 5, 6, 7, 8, 9); add($); stats(); print count(), count(), s1 is unknown, s8 is unknown }\nEND { print total, n is unknown }\n", Input: `[1, 2, 3]`},
			{Prog: "function classify(n) { return match (n) { 0 => \"zero\", x => { if (x < 0) { return \"negative\" } return \"positive\" } } }\nfunction describe(n) { c = classify(n); return \"n is \" + c }\n{ print describe($) }\nEND { print classify(-5) }\n", Input: `[0, -1, 2]`},
			{Prog: "function pick(n) { return match (n) { [a, b] => { for (v in [a, b]) { if (v > 1) { return v } } return \"small\" }, _ => \"other\" } }\n{ print pick($), \"after\" }\n", Input: `[[0, 1], [1, 5], 3]`},
		}),
		// ---- histories inside one run: a program site that is evaluated again after something specific happened
		textFam("C11", "a call site whose receiver changes kind between two evaluations", []textProg{
			{Prog: "BEGIN { seen = [] }\n$.reset { seen = 0 }\n{ seen.push($.id); print seen }\n", Input: `[{"id": 1}, {"id": 2, "reset": true}]`},
			{Prog: "{ v = $; print v.length(); print v.upper() }\n", Input: `["ab", [1, 2], "cd", {"k": 1}, 5]`},
			{Prog: "BEGIN { a = [3, 1, 2] }\n{ print a.sort(), a.contains($); if ($ == 2) { a = \"now a string\" } }\n", Input: `[1, 2, 3]`},
			{Prog: "function call(x) { return x.pop() }\n{ print call($) }\n", Input: `[[1, 2], [3], "s"]`},
		}),
		textFam("C02", "$index written in one root and read in the next", []textProg{
			{Prog: "$ == \"b\" { $index = 99 }\n{ print $index, $ }\n", Input: `["a", "b"] ["c", "d", "e"] "f" ["g", "h"]`},
			{Prog: "{ print $index, $; $index++ }\nENDFILE { print $index }\n", Input: `[1, 2] [3, 4]`},
		}),
		textFam("C04", "a value printed while it contains itself, then repaired and written", []textProg{
			{Prog: "{ $.self = $; print $; $.self = null }\n", Input: `{"b": 1}`, Root: true},
			{Prog: "{ $[1] = $; print $, [$]; $[1] = [$[0]]; print $ }\n", Input: `[[1], 2]`, Root: true},
			{Prog: "{ a = $; $.loop = a; printf(\"%v\\n\", $); $.loop = 0; b = $; b.again = $; print b; b.again = 1 }\n", Input: `{"k": [1]}`, Root: true},
		}),
		textFam("C05", "strings that arrive in a loop's second variable, used as numbers", []textProg{
			{Prog: "{ for (k, v in $) { print k, v * 2, v - 1, v / 2, v % 4, - v, + v } for (v, k in [\"5\", \"6\", \"x\"]) { print v * 2, k + v } }\n", Input: `[{"a": "10", "b": "7", "c": "9"}, {"a": "1", "b": 2, "c": "3.5"}]`},
			{Prog: "{ for (ch, off in $) { print ch * 2, off * 2, ch + off } }\n", Input: `["123", "9a7"]`},
		}),
		textFam("C06", "one + chain over records whose operand kinds change", []textProg{
			{Prog: "{ print $.a + $.b + $.c + \"!\"; print $.a - $.b + $.c + \"\"; print $.a + $.b * $.c + $.a }\n", Input: `[{"a": "x", "b": 2, "c": 3}, {"a": 1, "b": 2, "c": 3}, {"a": 1, "b": 2, "c": 3}, {"a": 1, "b": "y", "c": 3}, {"a": 1, "b": 2, "c": "z"}, {"a": 1, "b": 2, "c": 3}, {"a": true, "b": null, "c": 3}, {"a": "x", "b": "y", "c": "z"}, {"a": 1, "b": 2, "c": 3}]`},
			{Prog: "{ print $.a + $.b + $.c + \"!\"; print $.a - $.b + $.c + \"\"; print $.a + $.b * $.c + $.a }\n", Input: `[{"a": 1, "b": 2, "c": 3}, {"a": 1, "b": 2, "c": "z"}, {"a": 1, "b": "y", "c": 3}, {"a": 1, "b": 2, "c": 3}, {"a": "x", "b": 2, "c": 3}, {"a": 1, "b": 2, "c": 3}]`},
		}),
		textFam("C08", "one name read through call paths that bind it at different distances", []textProg{
			{Prog: "function h() { return v }\nfunction viaPlain() { return h() }\nfunction viaParam(v) { return h() }\nBEGIN { v = 1; print viaPlain(); print viaParam(2); print viaPlain(); print viaParam(3) }\n"},
			{Prog: "function h() { return v }\nfunction viaPlain() { return h() }\nfunction viaParam(v) { return h() }\nBEGIN { v = 1; print viaParam(2); print viaPlain(); print viaParam(3) }\n"},
			{Prog: "function show() { return v }\nBEGIN { v = \"outer\" }\n{ print match ($) { 0 => show(), v => show() } }\n", Input: `[0, 5, 0, 6]`},
			{Prog: "function show() { return v }\nBEGIN { v = \"outer\" }\n{ print match ($) { 0 => show(), v => show() } }\n", Input: `[5, 0]`},
			{Prog: "function note(last) { if (last == 2) { next } return last }\nfunction probe() { return last is unknown }\n{ print $, probe(); note($) }\n{ print \"second rule\", probe() }\n", Input: `[1, 2, 3, 2, 4]`},
			{Prog: "function note(last, other) { other = 5; if (last == 2) { next } return last }\nfunction setit() { last = last + 1; other = other + 1; return last }\n{ print $, setit(), last is unknown, other is unknown; note($) }\nEND { print last is unknown }\n", Input: `[1, 2, 3, 2, 4]`},
			{Prog: "function note(v) { for (last in [v, 2]) { if (last == 2) { next } } return v }\nfunction probe() { return last is unknown }\n{ print $, match (1) { x => probe() }\nnote($) }\n", Input: `[1, 2, 3]`},
			{Prog: "function note(last) { match (last) { 2 => { next }, other => { return other } } }\nfunction setit() { last = 7; return last }\nfunction probe() { return last is unknown }\n{ print $, probe(), setit(), probe(); note($) }\nEND { print last is unknown }\n", Input: `[1, 2, 3, 2, 1]`},
		}),
		textFam("C19", "cases whose alternatives bind different names, subjects in every order", func() []textProg {
			var out []textProg
			subj := []string{`"none"`, `[404, "boom"]`, `7`}
			for _, perm := range [][3]int{{0, 1, 2}, {0, 2, 1}, {1, 0, 2}, {1, 2, 0}, {2, 0, 1}, {2, 1, 0}} {
				in := "[" + subj[perm[0]] + ", " + subj[perm[1]] + ", " + subj[perm[2]] + ", " + subj[perm[0]] + "]"
				out = append(out, textProg{Prog: "BEGIN { msg = \"outer\" }\n{ print match ($) { [code, msg], \"none\" => msg, _ => \"other\" } }\n", Input: in})
			}
			out = append(out,
				textProg{Prog: "{ print match ($) { 0, n => n is unknown } }\n", Input: `[0, 5, 0]`},
				textProg{Prog: "{ print match ($) { 0, n => n is unknown } }\n", Input: `[5, 0, 6]`},
				textProg{Prog: "BEGIN { scale = 0 }\n{ print \"rec\", $index; print match ($) { [scale, \"mm\"], [len, \"cm\"] => len / scale } }\n", Input: `[[10, "mm"], [10, "cm"]]`},
				textProg{Prog: "BEGIN { scale = 2 }\n{ print match ($) { [scale, \"mm\"], [len, \"cm\"] => len / scale, [a, b, c], [a, b] => a + b } }\n", Input: `[[10, "cm"], [1, 2], [1, 2, 3], [10, "mm"]]`})
			return out
		}()),
		textFam("C13", "a regex literal and a string literal of the same spelling", []textProg{
			{Prog: "$.kind == \"tsv\" && $.line ~ /\\t/ { tabbed++ }\n{ print $.id + \"\\t\" + $.kind }\nEND { print tabbed }\n", Input: `[{"id": 1, "kind": "csv", "line": "a,b"}, {"id": 2, "kind": "tsv", "line": "a\tb"}]`},
			{Prog: "$.kind == \"tsv\" && $.line ~ /\\t/ { tabbed++ }\n{ print $.id + \"\\t\" + $.kind }\nEND { print tabbed }\n", Input: `[{"id": 2, "kind": "tsv", "line": "a\tb"}, {"id": 1, "kind": "csv", "line": "a,b"}]`},
			{Prog: "BEGIN { s = \"\\\\\"; print s.length(), s; print \"a\\\\b\" ~ /\\\\/, \"ab\" ~ /\\\\/; t = \"\\\\\"; print t == s; print \"x\\ny\" ~ /\\n/, \"\\n\".length() }\n"},
			{Prog: "BEGIN { print \"1d\" ~ /\\d/; x = \"\\d\"; print \"after\" }\n"},
		}),
		textFam("C16", "method names computed at one site, different from evaluation to evaluation", []textProg{
			{Prog: "{ print $.v[$.how]() }\n", Input: `[{"v": "MiXed", "how": "lower"}, {"v": "MiXed", "how": "upper"}, {"v": "MiXed", "how": "length"}, {"v": "MiXed", "how": "lower"}, {"v": [3, 1], "how": "length"}, {"v": [3, 1], "how": "sort"}, {"v": "q", "how": "upper"}]`},
			{Prog: "function apply(x, m) { return x[m]() }\nBEGIN { print apply(2.5, \"floor\"), apply(2.5, \"ceil\"), apply(2.5, \"round\"), apply(-2.5, \"floor\"), apply(\"Ab\", \"upper\"), apply(\"Ab\", \"lower\"), apply(\"Ab\", \"length\"), apply([2, 1], \"sort\"), apply([2, 1], \"pop\") }\n"},
		}),
		// ---- round 10: names bound by a match to the subject itself, assigned in the body; state keyed by the rule
		fixedFam("C07", "a literal as match subject, bound by name, assigned in the body, then the literal again", []scaleCase{
			// (what the assignment does to the bound name and to the subject is not fixed by any statement - 7.1 - and is not printed;
			// what the same literals mean afterwards is)
			{Prog: "BEGIN { match (true) { armed => { armed = false } } if (true) { print \"then\" } else { print \"else\" } n = 0; while (true) { n++; if (n > 2) { break } } print n; for (k = 0; true; k++) { if (k > 1) { break } } print k; print true, false, null, ! true }\n", Want: "then\n3\n2\ntrue false null false\n"},
			{Prog: "BEGIN { match (false) { f => { f = true } } match (null) { z => { z = 5 } } if (false) { print \"wrong\" } print null, false, null is null, false || false; x = null; print x, [null, false] }\n", Want: "null false true false\nnull [null, false]\n"},
			{Prog: "{ match (\"id\") { s => { s = s + \"-\" + $ } } match (0) { n => { n += $ } } match (1.5) { q => { q++ } } print \"id\", 0, 1.5, \"id\" + $, 0 + $ }\n", Files: []inFile{{Name: "in.json", Text: "[1, 2, 3]"}}, Want: "id 0 1.5 id1 1\nid 0 1.5 id2 2\nid 0 1.5 id3 3\n"},
			{Prog: "{ match (\"id\") { s => { print s; s = s + \"-\" + $ } } match (0) { n => { print n; n += $ } } match (null) { z => { print z; z = $ } } match (true) { b => { print b; b = false } } }\nfunction f() { match ('t') { s => { r = s; s = s + 1; return r } } }\nEND { print f(), f(), f() }\n", Files: []inFile{{Name: "in.json", Text: "[1, 2, 3]"}}, Want: "id\n0\nnull\ntrue\nid\n0\nnull\ntrue\nid\n0\nnull\ntrue\nt t t\n"},
			{Prog: "function tag(v) { match ('t') { s => { s = s + v } } return 't' + v }\nfunction cnt() { match (10) { c => { c++ } } return 10 }\nBEGIN { print tag(1), tag(2), \"t\", 't', cnt(), cnt(), 10 }\n", Want: "t1 t2 t t 10 10 10\n"},
			{Prog: "{ match (match ($) { [p, q] => 0 }) { first => { first = \"none\" } }\nprint match (7) { 8 => 1 }, match ($) { other => { } }, match ($) { [a] => { } } }\n", Files: []inFile{{Name: "in.json", Text: `[5, [3], "s", 6]`}}, Want: "null null null\nnull null null\nnull null null\nnull null null\n"},
		}),
		textFam("C02", "what one special rule stores in $ and what the next one sees", []textProg{
			{Prog: "BEGIN { $ = \"header\"; print $ }\nBEGIN { print $ }\n{ n += $ }\nEND { print $, n }\nEND { $ = 5 }\nEND { print $ }\n", Input: `[1, 2, 3]`},
			{Prog: "BEGINFILE { print $; $ = [9] }\n{ print $ }\nENDFILE { print $; $ = 0 }\nENDFILE { print $ }\nEND { print $ }\n", Input: `[1] [2, 3]`},
			{Prog: "$.contains(1) { $.pop() }\n$.contains(1) { print \"still\", $ }\n$.length() > 1 { $.pop(); print \"long\" }\n$.length() > 1 { print \"still long\", $ }\n{ print $ }\n", Input: `[[2, 1], [1, 2], [1, 1, 1]]`},
		}),
		textFam("C05", "is with a type word that is also the name of a variable", []textProg{
			{Prog: "function clean(string) { if (string is string) { return \"a string\" } return \"not a string\" }\nBEGIN { print clean(\"beth\"), clean(5); number = \"n/a\"; array = \"string\"; print 4 is number, number is string, [1] is array, \"s\" is array, array is string; object = {}; bool = true; print object is object, bool is bool, unknown is unknown }\n"},
			{Prog: "{ for (string in $) { print string is string, string is number } }\n", Input: `[["a", 1]]`},
		}),
		textFam("C11", "a failing operator in every kind of rule", []textProg{
			{Prog: "{ sum += $; n++ }\nENDFILE { print \"file\", sum / (n - 2) }\nEND { print \"end\" }\n", Input: `[1, 2]`},
			{Prog: "BEGINFILE { print \"bf\" }\nENDFILE { print 7 % 0.5 }\nEND { print \"end\" }\n", Input: `[1]`},
			{Prog: "function avg() { return sum / n }\nENDFILE { print $ < []; print \"after\" }\n", Input: `[1]`},
			{Prog: "ENDFILE { print $file ~ \"(\" }\nEND { print \"end\" }\n", Input: `[1]`},
			{Prog: "BEGINFILE { print 1 % 0 }\n{ print }\n", Input: `[1]`},
			{Prog: "END { print 1 / 0 }\nEND { print \"second\" }\n", Input: `[1]`},
		}),
		textFam("C08", "return, next and exit inside a for loop with a post expression", []textProg{
			{Prog: "function first(a, want) { for (i = 0; i < a.length(); i++) { if (a[i] == want) { return i } } return -1 }\nfunction count() { for (g = 0; g < 10; g++) { if (g == 2) { return g } } }\nBEGIN { print first([5, 6, 7], 6), first([5], 5), first([], 1); print count() }\n"},
			{Prog: "{ for (j = 0; j < 5; j++) { if (j == $) { next } } print \"not found\", $ }\nEND { print j }\n", Input: `[1, 9, 3]`},
			{Prog: "BEGIN { for (k = 0; k < 5; k++) { if (k == 3) { exit } } }\nEND { print k }\n"},
			{Prog: "function w() { q = 0; while (q < 5) { q++; if (q == 2) { return q } } }\nBEGIN { print w() }\n"},
		}),
		textFam("C09", "a match case with an expression body that is left by next", []textProg{
			{Prog: "function drop() { next }\n$.t == \"a\" { match ($) { rec => drop() } }\n{ rec = \"x\" }\nENDFILE { print $ }\n", Input: `[{"t": "a"}, {"t": "b"}, {"t": "c"}]`, Root: true},
			{Prog: "function stop(v) { if (v > 1) { next } return v }\n{ print match ($) { n => stop(n) + 1 }\nn = \"global\" }\nEND { print n }\n", Input: `[1, 2, 3, 1]`, Root: true},
			{Prog: "{ for (v in [$]) { x = match (v) { 2 => 0, w => w * 2 }\nif (x == 0) { continue } print x } w = 9 }\n", Input: `[1, 2, 3]`, Root: true},
		}),
		textFam("C16", "methods called directly on $file and on other values the runtime makes", []textProg{
			{Prog: "{ print $file.length(), $file.upper(), $file.split(\".\")[-1], $file.split(\"/\").length(), $file + \"\", $index.floor() }\nBEGINFILE { print $file.lower() }\nENDFILE { f = $file; print f.length() }\n", Input: `[1, 2]`},
		}),
		textFam("C04", "a plucked copy whose members are assigned", []textProg{
			{Prog: "{ small = $.pluck(\"name\", \"n\", \"tags\"); small.n = 0; small.name = \"anon\"; small.extra = 1; small.tags.push(\"t\"); print small }\n", Input: `{"name": "ann", "n": 5, "tags": ["a"], "other": true}`, Root: true},
			{Prog: "{ c = $.pluck(\"a\"); c.a++; c.a += 10; d = c.pluck(\"a\"); d.a = \"s\"; print c, d }\n", Input: `[{"a": 1, "b": 2}]`, Root: true},
		}),
		fixedFam("C03", "root selectors with a variable of their own, value after value", []scaleCase{
			{Prog: "{ print }\n", Sels: []string{"$[i++]"}, Files: []inFile{{Name: "in.json", Text: "[[1],[2]] [[3],[4]] [[5],[6]]"}}, Want: "1\n3\n5\n", CLI: true},
			{Prog: "{ print $ }\nEND { print i is unknown, n is unknown }\n", Sels: []string{"$.rows[n = n + 1]", "[i++, i++]"}, Files: []inFile{{Name: "in.json", Text: `{"rows": [1, 2, 3]} {"rows": [4, 5, 6]}`}, {Name: "second.json", Text: `{"rows": [7, 8, 9]}`}}, Want: "2\n0\n1\n5\n0\n1\n8\n0\n1\ntrue true\n", CLI: true},
			{Prog: "{ print $ }\n", Sels: []string{"$[2]"}, Files: []inFile{{Name: "in.json", Text: "[[10, 11], [20]] [1, 2, 3] [] [1, 2]"}}, Want: "null\n3\nnull\nnull\n", CLI: true},
			{Prog: "{ print \"r\", $ }\n", Sels: []string{"$.rows[0]", "$.rows[1]"}, Files: []inFile{{Name: "in.json", Text: `{"rows": []} {"rows": [5]} {"rows": [6, 7]}`}}, Want: "r null\nr null\nr 5\nr null\nr 6\nr 7\n", CLI: true},
			{Prog: "{ print \"r\", $ }\n", Sels: []string{"$.rows[0]", "$.rows[-1]"}, Files: []inFile{{Name: "in.json", Text: `{"rows": [5]} {"rows": []}`}}, Kind: drive.KRuntime, Want: "r 5\nr 5\n", Line: 1, SrcLine: "$.rows[-1]"},
		}),
		fixedFam("C12", "faults inside a root selector are positioned in the selector", []scaleCase{
			{Prog: "BEGIN { print \"start\" }\n{ print \"rule\", $ }\nEND { print \"end\" }\n", Sels: []string{"$.result.length"}, Files: []inFile{{Name: "in.json", Text: `{"status": "ok", "result": {"a": 1, "b": 2}}`}}, Want: "start\n", Kind: drive.KRuntime, Line: 1, SrcLine: "$.result.length", CLI: true},
			{Prog: "BEGIN { n = 0 }\n{ print }\n", Sels: []string{"match ($) { x => { next } }"}, Files: []inFile{{Name: "in.json", Text: "[1]"}}, Want: "", Kind: drive.KRuntime, Line: 1, SrcLine: "match ($) { x => { next } }", CLI: true},
			{Prog: "BEGIN { n = 0 }\n{ print }\n", Sels: []string{"$.items.pluck"}, Files: []inFile{{Name: "in.json", Text: `{"items": {"a": 1}}`}}, Want: "", Kind: drive.KRuntime, Line: 1, SrcLine: "$.items.pluck", CLI: true},
			{Prog: "# a comment line\n\nBEGIN { print \"start\" }\n{ print }\n", Sels: []string{"$.a", "$.b +\n  1 % 0"}, Files: []inFile{{Name: "in.json", Text: `{"a": 1, "b": 2}`}}, Want: "start\n", Kind: drive.KRuntime, Line: 2, SrcLine: "  1 % 0"},
			{Prog: "BEGIN { print \"begin\" }\n", Sels: []string{"[printf(\"header\\n\"), printf(\"%70000s\", \"x\")]"}, Files: []inFile{{Name: "in.json", Text: `{"rows": [1, 2]}`}}, Want: "begin\nheader\n", Kind: drive.KRuntime, CLI: true},
			{Prog: "BEGIN { print \"begin\" }\n", Sels: []string{"[printf(\"header\\n\"), $.rows[2000000] = 1]"}, Files: []inFile{{Name: "in.json", Text: `{"rows": [1, 2]}`}}, Want: "begin\nheader\n", Kind: drive.KRuntime, CLI: true},
		}),
		fixedFam("C06", "a sign in front of an index expression, a prefix operator in front of an assignment", []scaleCase{
			{Prog: "BEGIN { n = 1; a = [10, 20, 30, 40]; print a[-n + 1], a[-n * 2 + 4], a[- n - - 2], a[-1 + n], a[-n], a[-(n + 1)] }\n{ print $[-n + 1], $[- n + n], $[-1] }\n", Files: []inFile{{Name: "in.json", Text: "[[10, 20, 30, 40]]"}}, Want: "10 30 20 10 40 30\n10 10 40\n"},
			// (what a store into `-x` yields is not fixed - 7.1 - and is not printed; that `x` is not the target is)
			{Prog: "BEGIN { x = 2; y = -x = 5; print x; f = 0; z = !f = 7; print f; o = {n: 1}; w = -o.n = 3; print o.n; x = 2; -x += 5; print x; +x *= 3; print x }\n", Want: "2\n0\n1\n2\n2\n"},
		}),
		textFam("C14", "what -o writes when a BEGINFILE rule ends the run", []textProg{
			{Prog: "BEGINFILE { print \"skip\"; exit }\n{ print }\n", Input: `{"a": [1, 2]}`, Root: true},
			{Prog: "BEGINFILE { c++; if (c == 2) { exit } $.seen = c }\n{ print }\n", Input: `{"v": 1} {"v": 2}`, Root: true},
			{Prog: "BEGINFILE { $ = [9]; exit }\n", Input: `[1]`, Root: true},
			{Prog: "BEGIN { exit }\n{ print }\n", Input: `[1]`, Root: true},
			{Prog: "{ print; exit }\nENDFILE { $ = 0 }\n", Input: `[1, 2] [3]`, Root: true},
		}),
		textFam("C15", "arrays of the document changed by methods only, then written", []textProg{
			{Prog: "BEGINFILE { $.push(4) }\n", Input: `[1, 2, 3]`, Root: true},
			{Prog: "{ $.items.pop(); $.items.push(\"x\"); t = $.items.popfirst() }\nEND { print t }\n", Input: `{"items": [1, 2, 3], "n": 1}`, Root: true},
			{Prog: "BEGINFILE { $.push(4) }\n{ n = 0 }\n", Input: `[1] [2, 3]`, Root: true},
			{Prog: "function grow(a) { a.push(a.length()) }\n{ grow($); grow($) }\n", Input: `[[1], []]`, Root: true},
		}),
		textFam("C20", "names and index values met far from the start", []textProg{
			{Prog: "function bump(num) { return num + 1 }\nfunction walk(n) { if (n == 0) { return bump(num(\"41\")) } return walk(n - 1) }\nBEGIN { print walk(0), walk(60), walk(100), walk(1000) }\n"},
			{Prog: "function count(total) { down(40); return total }\nfunction down(n) { if (n == 0) { leaf(); return 0 } return down(n - 1) }\nfunction leaf() { total = total + 1 }\nBEGIN { total = 100; print count(0), total }\n"},
		}),
	}
}

func c16Doubles() string {
	var parts []string
	for k := 1; k <= 400; k++ {
		f := float64(k) / 7
		g := 0.1 + float64(k)*1.3
		h := float64(k) / 1.1e5
		parts = append(parts, refsem.FormatNum(f), refsem.FormatNum(g), refsem.FormatNum(h), refsem.FormatNum(1/float64(k*11)))
	}
	return "[" + strings.Join(parts, ",") + "]"
}
