package props

import (
	"encoding/json"
	"fmt"
	"math/big"
	"strconv"
	"strings"

	"verif/mc/drive"
	"verif/mc/fw"
	. "verif/mc/refsem"

	lang "github.com/alligator/jqawk/src"
)

// C13: a program's meaning depends only on its tokens, not layout, comments or quoting.

// ----- (i) layout neighbourhoods -----

// a gap is the position before token i (i >= 1). devs lists what may be written there instead of the canonical separator.
func c13GapDevs(toks []Tok, i int, inPrintComma bool) []string {
	prev, cur := toks[i-1], toks[i]
	if cur.Sep {
		// the canonical text has a newline here (statement separator)
		// (comments may end in a backslash or hold quotes, slashes and brackets: a comment is over at the line end, nothing in it counts)
		d := []string{"\n\n", " \n\t", " # c\n", "\r\n", "\n#x\n\n", " # see C:\\logs\\\n", " # \" ' / { ( [ \\n ;\n"}
		// a long run of line ends (blank lines, a commented-out block) is still one separator
		d = append(d, strings.Repeat("\n", 40), strings.Repeat(" # off\n", 36))
		if i == len(toks)-1 {
			// the end of the text: no newline at all, a comment that runs to the end of the input, trailing blanks
			d = append(d, "", " # c", " \t\r", "\n\n\n#")
		}
		// ';' only where the newline separates two statements: not before '}' or 'else', not after '{' or '}'
		next := ""
		if i+1 < len(toks) {
			next = toks[i+1].S
		}
		if !cur.AfterBrace && prev.S != "{" && !prev.Sep && next != "}" && next != "else" && next != "" {
			d = append(d, ";", " ; ", ";\n")
		}
		return d
	}
	if prev.Sep {
		return []string{"  ", "\t", "\r"} // indentation of a line
	}
	d := []string{"  ", "\t", " \r "}
	newlineOK := prev.S != "print" && prev.S != "return" && !inPrintComma && cur.S != ";"
	if newlineOK {
		d = append(d, "\n", " # c\n", "\r\n\t", " # ends in \\\n", strings.Repeat("\n", 33))
	}
	return d
}

type c13Dev struct {
	Gap  int    `json:"gap"`
	Text string `json:"text"`
}

// c13Gaps lists every (gap, deviation) of a token list.
func c13Gaps(toks []Tok) []c13Dev {
	var out []c13Dev
	inPrint := false
	depth := 0
	for i := 1; i < len(toks); i++ {
		p := toks[i-1]
		switch p.S {
		case "print":
			inPrint, depth = true, 0
		case "(", "[", "{":
			depth++
		case ")", "]", "}":
			depth--
		}
		if p.Sep {
			inPrint = false
		}
		comma := inPrint && depth == 0 && p.S == ","
		for _, d := range c13GapDevs(toks, i, comma) {
			out = append(out, c13Dev{i, d})
		}
	}
	return out
}

func c13Layout(toks []Tok, devs []c13Dev) string {
	at := map[int]string{}
	for _, d := range devs {
		at[d.Gap] = d.Text
	}
	var sb strings.Builder
	for i, t := range toks {
		if d, ok := at[i]; ok {
			sb.WriteString(d)
			if t.Sep {
				continue
			}
		} else if t.Sep {
			sb.WriteString("\n")
			continue
		} else if i > 0 && !toks[i-1].Sep {
			sb.WriteByte(' ')
		}
		sb.WriteString(t.S)
	}
	return sb.String()
}

type c13Spec struct {
	Form string   `json:"form"` // layout, lex, string, numeral, glue, keyword
	Seed int      `json:"seed,omitempty"`
	Devs []c13Dev `json:"devs,omitempty"`
	Text fw.Text  `json:"text,omitempty"`
	Q    string   `json:"quote,omitempty"`
}

type c13Base struct {
	toks []Tok
	spec drive.Spec
	out  drive.Outcome
}

var c13Bases = map[int]*c13Base{}

func c13BaseOf(c *fw.Ctx, seed int) *c13Base {
	if b, ok := c13Bases[seed]; ok {
		return b
	}
	pc := seedPrograms()[seed]
	b := &c13Base{toks: Tokens(pc.P, Style{})}
	b.spec = pc.spec()
	b.spec.WantRoot = true
	b.spec.Program = c13Layout(b.toks, nil)
	b.out = run(c, b.spec)
	b.out.Ev = nil
	if b.out.Kind != drive.KNone {
		panic(fmt.Sprintf("c13: seed %d does not run cleanly in its canonical layout: %s %s", seed, b.out.Kind, b.out.Msg))
	}
	c13Bases[seed] = b
	return b
}

func c13LayoutCheck(c *fw.Ctx, seed int, devs []c13Dev) *fw.Violation {
	b := c13BaseOf(c, seed)
	s := b.spec
	s.Program = c13Layout(b.toks, devs)
	o := run(c, s)
	c.Traces++
	c.Transitions++
	if o.Kind == b.out.Kind && o.Stdout == b.out.Stdout && o.RootJSON == b.out.RootJSON && o.RootKind == b.out.RootKind {
		return nil
	}
	o.Ev = nil
	return &fw.Violation{What: "a layout variant of the same token sequence behaves differently from the canonical layout",
		Detail: map[string]any{"canonical": b.spec.Program, "variant": s.Program, "deviations": devs, "canonical_outcome": b.out, "variant_outcome": o}}
}

// ----- (ii) lexer conformance on glued token spellings -----

func c13LexCheck(c *fw.Ctx, text string) *fw.Violation {
	ref := Lex(text)
	if ref.Unspecified {
		c.Note("glued texts outside 3.18 (not compared)", 1)
		return nil
	}
	got, err := lang.VerifLex(text)
	c.Evals++
	c.Traces++
	c.Transitions++
	want := make([]string, len(ref.Toks))
	for i, t := range ref.Toks {
		want[i] = fmt.Sprintf("%s@%d", t.Class, t.Pos)
	}
	fail := func(what string) *fw.Violation {
		e := ""
		if err != nil {
			e = err.Error()
		}
		return &fw.Violation{What: what, Detail: map[string]any{"text": text, "reference_tokens": want, "implementation_tokens": got, "implementation_error": e, "reference_error_at": ref.ErrAt}}
	}
	if (ref.ErrAt >= 0) != (err != nil) {
		return fail("the lexer and the reference lexer disagree on whether the text is lexically valid")
	}
	if strings.Join(got, " ") != strings.Join(want, " ") {
		return fail("the lexer splits the text into different tokens than the reference lexer")
	}
	c.State(fmt.Sprintf("%d tokens", len(want)))
	return nil
}

// ----- (iii) string literal contents -----

var c13StrSyms = []string{"a", " ", "#", "'", "\"", "\\", "n", "t", "q", "é"}

func c13StringCheck(c *fw.Ctx, content string, q byte) *fw.Violation {
	if strings.IndexByte(content, q) >= 0 {
		return nil // the delimiter ends the literal: not this literal
	}
	lit := &RawStrLit{Raw: content, Quote: q}
	pc := &progCase{P: &Program{Rules: []*Rule{{Kind: "BEGIN", Body: Blk(Pr(S("before")), Pr(Bin("+", Bin("+", S("["), lit), S("]"))), Ex(Asg("=", V("x"), lit)), Pr(CallE(Mem(V("x"), "length"))))}}}}
	v, res, skipped := pc.check(c)
	if !skipped && v == nil {
		c.State("string literal -> " + res.Kind)
		if res.Kind == "none" && strings.Contains(content, "\\") {
			c.NonTrivial("escape:" + content)
		}
	}
	return v
}

// c13StrPositions: the literal in every syntactic position where a string may stand, each time as the ONLY occurrence in
// the program; the value it is compared with comes from the input document (the model's denotation of the literal, or "a"
// when the literal has a bad escape and evaluating it must fail).
var c13StrPositions = []struct {
	name string
	mk   func(x Expr, lit func() Expr) []Stmt
}{
	{"== right", func(x Expr, lit func() Expr) []Stmt { return []Stmt{Pr(Bin("==", x, lit()))} }},
	{"== left", func(x Expr, lit func() Expr) []Stmt { return []Stmt{Pr(Bin("==", lit(), x))} }},
	{"!= right", func(x Expr, lit func() Expr) []Stmt { return []Stmt{Pr(Bin("!=", x, lit()))} }},
	{"< and >=", func(x Expr, lit func() Expr) []Stmt { return []Stmt{Pr(Bin("<", x, lit())), Pr(Bin(">=", lit(), x))} }},
	{"if condition", func(x Expr, lit func() Expr) []Stmt {
		return []Stmt{&If{Cond: Bin("==", x, lit()), Then: Pr(S("then")), Else: Pr(S("else"))}}
	}},
	{"match pattern", func(x Expr, lit func() Expr) []Stmt {
		return []Stmt{Pr(&MatchExpr{Subj: x, Cases: []MatchCase{{Pats: []Expr{lit()}, Body: S("hit")}, {Pats: []Expr{V("_")}, Body: S("miss")}}})}
	}},
	{"match subject", func(x Expr, lit func() Expr) []Stmt {
		return []Stmt{Pr(&MatchExpr{Subj: lit(), Cases: []MatchCase{{Pats: []Expr{V("m")}, Body: Bin("==", V("m"), x)}}})}
	}},
	{"index key", func(x Expr, lit func() Expr) []Stmt {
		return []Stmt{Ex(Asg("=", V("o"), &ObjLit{})), Ex(Asg("=", Idx(V("o"), lit()), N("1"))), Pr(Idx(V("o"), x), CallE(Mem(V("o"), "length")))}
	}},
	{"call argument", func(x Expr, lit func() Expr) []Stmt { return []Stmt{Pr(Bin("==", CallE(V("id"), lit()), x))} }},
	{"array element and object value", func(x Expr, lit func() Expr) []Stmt {
		return []Stmt{Pr(Bin("==", Idx(Arr_(lit()), N("0")), x)), Ex(Asg("=", V("o"), &ObjLit{Keys: []string{"k"}, Vals: []Expr{lit()}})), Pr(Bin("==", Mem(V("o"), "k"), x))}
	}},
	{"method receiver", func(x Expr, lit func() Expr) []Stmt {
		return []Stmt{Pr(Bin("==", CallE(Mem(lit(), "length")), CallE(Mem(x, "length"))))}
	}},
	{"printf argument", func(x Expr, lit func() Expr) []Stmt {
		return []Stmt{Ex(CallE(V("printf"), S("%s|%v|"), lit(), x)), Pr(S(""))}
	}},
	{"contains argument", func(x Expr, lit func() Expr) []Stmt { return []Stmt{Pr(CallE(Mem(Arr_(x), "contains"), lit()))} }},
	{"&& operand and return value", func(x Expr, lit func() Expr) []Stmt {
		return []Stmt{Pr(Bin("&&", lit(), Bin("==", x, x))), Pr(Bin("==", CallE(V("lit")), x))}
	}},
}

func c13StringPosCheck(c *fw.Ctx, content string, q byte, pos int) *fw.Violation {
	if strings.IndexByte(content, q) >= 0 {
		return nil
	}
	den, ok := Unescape(content)
	if !ok {
		den = "a"
	}
	lit := func() Expr { return &RawStrLit{Raw: content, Quote: q} }
	id := &Func{Name: "id", Params: []string{"v"}, Body: Blk(&Return{X: V("v")})}
	funcs := []*Func{id}
	if c13StrPositions[pos].name == "&& operand and return value" {
		funcs = append(funcs, &Func{Name: "lit", Body: Blk(&Return{X: lit()})})
	}
	body := append([]Stmt{Pr(S("before"))}, c13StrPositions[pos].mk(V("$"), lit)...)
	pc := &progCase{P: &Program{Funcs: funcs, Rules: []*Rule{{Body: Blk(body...)}}}, Files: []inFile{{"in.json", "[" + ToJSONText(Str(den)) + "," + ToJSONText(Str(den+"x")) + "]"}}}
	v, res, skipped := pc.check(c)
	if !skipped && v == nil {
		c.State("string literal as " + c13StrPositions[pos].name + " -> " + res.Kind)
	}
	return v
}

// ----- (iv) numerals -----

func c13NumeralCheck(c *fw.Ctx, text string) *fw.Violation {
	bf, _, err := big.ParseFloat(text, 10, 2000, big.ToNearestEven)
	if err != nil {
		panic("c13: bad numeral " + text)
	}
	want, _ := bf.Float64()
	s := drive.Spec{Program: "BEGIN { x = " + text + "; print x; print x is number }"}
	o := run(c, s)
	c.Traces++
	c.Transitions++
	lines := strings.Split(o.Stdout, "\n")
	got, perr := strconv.ParseFloat(lines[0], 64)
	if o.Kind != drive.KNone || perr != nil || got != want || len(lines) < 2 || lines[1] != "true" {
		o.Ev = nil
		return &fw.Violation{What: "a numeric literal does not denote the nearest double of its digits", Detail: detail{Program: s.Program, WantStdout: FormatNum(want), Got: o}}
	}
	return nil
}

// c13PrintComma: the two places where a newline is not layout -- directly after print / return and after a comma of a print
// list it ends the statement: the text on the left behaves as the text on the right.
var c13PrintCommaPairs = [][2]string{
	{"BEGIN {\n print 1,\n 2\n print \"x\"\n}", "BEGIN {\n print 1\n 2\n print \"x\"\n}"},
	{"BEGIN {\n a = 5\n print \"v\", a,\n a = 6\n print a\n}", "BEGIN {\n a = 5\n print \"v\", a\n a = 6\n print a\n}"},
	{"{ print $,\r\n\t$ + 1\n print \"next\" }", "{ print $\n $ + 1\n print \"next\" }"},
	{"BEGIN { print 1, # list goes on?\n 2\n}", "BEGIN { print 1\n 2\n}"},
	{"BEGIN { print\n 7\n print \"y\" }", "BEGIN { print ; 7\n print \"y\" }"},
	{"function f(a) { if (a) return\n a = 9\n return a }\nBEGIN { print f(1), f(0) }", "function f(a) { if (a) return ; a = 9\n return a }\nBEGIN { print f(1), f(0) }"},
	{"function g(a) { if (a) { return\n [a]\n } return 2 }\nBEGIN { print g(1) is null, g(0) }", "function g(a) { if (a) { return ; [a]\n } return 2 }\nBEGIN { print g(1) is null, g(0) }"},
}

func c13PrintComma(c *fw.Ctx, i int) *fw.Violation {
	pair := c13PrintCommaPairs[i]
	var outs [2]drive.Outcome
	for k, text := range pair {
		outs[k] = run(c, drive.Spec{Program: text, Files: []drive.File{{Name: "in.json", Data: "[1,2]"}}})
		outs[k].Ev = nil
	}
	c.Traces++
	c.Transitions += 2
	if outs[1].Kind != drive.KNone {
		return &fw.Violation{What: "layout: the reference spelling of a print / return followed by a line break does not run", Detail: map[string]any{"program": pair[1], "got": outs[1]}}
	}
	if outs[0].Kind != outs[1].Kind || outs[0].Stdout != outs[1].Stdout {
		return &fw.Violation{What: "layout: a newline directly after print / return or after a comma of a print list does not end the statement", Detail: map[string]any{"program": pair[0], "behaves_like": pair[1], "got": outs[0], "want": outs[1]}}
	}
	return nil
}

// c13LongCheck: a string literal, a name and a regex literal of n bytes denote all their bytes.
func c13LongCheck(c *fw.Ctx, n int, q string) *fw.Violation {
	body := strings.Repeat("ab", n/2) + strings.Repeat("c", n%2)
	name := "v" + strings.Repeat("x", n-1)
	prog := "BEGIN { s = " + q + body + q + "; print s.length(), s == (" + q + body[:n-1] + q + " + " + q + body[n-1:] + q + "); " + name + " = 5; print " + name + " + 1; print (s ~ /^" + body + "$/) }"
	s := drive.Spec{Program: prog, Budget: 1_000_000}
	o := run(c, s)
	c.Traces++
	c.Transitions++
	want := fmt.Sprintf("%d true\n6\ntrue\n", n)
	if o.Kind != drive.KNone || o.Stdout != want {
		o.Ev = nil
		return &fw.Violation{What: fmt.Sprintf("a string literal, name or regex literal of %d bytes does not denote all its bytes", n), Detail: detail{Program: clip(prog), WantStdout: want, Got: o}}
	}
	return nil
}

var c13GlueOps = []string{"+", "-", "*", "/", "%", "<", ">", "<=", ">=", "==", "!=", "&&", "||"}

// c13GlueCheck: numerals never absorb an adjacent operator: "3-1" means "3 - 1" in every spacing.
func c13GlueCheck(c *fw.Ctx, a, op, b string) *fw.Violation {
	e := Bin(op, N(a), N(b))
	pcm := &progCase{P: &Program{Rules: []*Rule{{Kind: "BEGIN", Body: Blk(Ex(Asg("=", V("x"), e)), Pr(V("x")), Ex(Asg("=", V("y"), Bin(op, V("p"), N(b)))), Pr(V("y")))}}}}
	res := pcm.model()
	for _, form := range []string{a + op + b, a + " " + op + b, a + op + " " + b, a + "\t" + op + "\t" + b} {
		for _, lhs := range []string{"x = ", "x="} {
			src := "BEGIN { " + lhs + form + "\nprint x\ny = p" + op + b + "\nprint y }"
			s := drive.Spec{Program: src}
			o := run(c, s)
			c.Traces++
			c.Transitions++
			if v := expect(s, o, res.Stdout, modelKind(res.Kind), "numeral next to an operator without blanks; "+res.Err); v != nil {
				return v
			}
		}
	}
	return nil
}

// c13GlueOperands: an operator glued to what follows and to what precedes it -- an index, a call, a member, a group, $, a
// string, a postfix -- means what it means with blanks around it.
func c13GlueOperands(c *fw.Ctx, op, b string) *fw.Violation {
	pre := "function g(v) { return v + 1 }\nBEGIN { q = [4, 5]; o = {k: 6}; n = 7; "
	for _, left := range []string{"q[1]", "g(2)", "o.k", "(3)", "\"s\"", "n", "q[0][0]", "o.k.floor()", "q.length()", "true", "null"} {
		spaced := pre + "z = " + left + " " + op + " " + b + "; print z }"
		sp := drive.Spec{Program: spaced}
		want := run(c, sp)
		for _, form := range []string{left + op + b, left + " " + op + b, left + op + " " + b} {
			s := drive.Spec{Program: pre + "z = " + form + "; print z }"}
			o := run(c, s)
			c.Traces++
			c.Transitions++
			if o.Kind != want.Kind || o.Stdout != want.Stdout {
				o.Ev, want.Ev = nil, nil
				return &fw.Violation{What: "layout: an operator glued to its operands does not mean what it means with blanks around it", Detail: map[string]any{"glued": s.Program, "spaced": spaced, "got": o, "want": want}}
			}
		}
	}
	return nil
}

// ----- (v) keywords are recognised only as whole words -----

func c13KeywordCheck(c *fw.Ctx, name string) *fw.Violation {
	s := drive.Spec{Program: "BEGIN { " + name + " = 5; print " + name + " + 1 }\n{ " + name + "++ }\nEND { print " + name + " }", Files: []drive.File{{Name: "in.json", Data: "[1,2]"}}}
	o := run(c, s)
	c.Traces++
	c.Transitions++
	return expect(s, o, "6\n7\n", drive.KNone, "an identifier that merely contains a keyword")
}

func init() {
	seeds := seedPrograms()
	ns := len(seeds)
	nt := len(c01Tokens)
	const layoutParts = 8
	register(&fw.Prop{
		ID: "C13",
		Rule: fmt.Sprintf("(i) %d seed programs (every statement and expression form) as token lists: every gap x its permitted deviations (two blanks, tab, CR, newline and comment+newline where DESIGN.md 3.18 allows a line break, ';' / blank lines / CRLF / a comment for statement separators) and every pair of such deviations (thorough: triples on the gaps of a line-break-only deviation set); ", ns) +
			"oracle: same stdout, outcome and JSON output as the canonical layout (which the model confirms); (ii) every ordered pair and triple of the 66 token spellings written without blanks, and with one blank, through the lexer hook against a reference lexer written from 3.18 (segmentation, token class, lexical validity); " +
			"(iii) all string literal contents of length <= 3 (thorough 4) over {a, blank, #, ', \", \\, n, t, q, é} in both quote styles against the model's escape rules, concatenated / assigned and as the only literal of the program in 14 syntactic positions (operand of == != < >= on either side, if condition, match pattern and subject, index key, call / printf / contains argument, array element, object value, method receiver, && operand, return value) compared with the denoted string supplied by the input; (iv) numerals incl. leading zeros, every prefix of four 25-digit strings with the point at every place (1 300 numerals) against a math/big nearest-double oracle, string literals / names / regex literals of 255 ... 131 077 bytes, every numeral-operator-numeral spelling without blanks, and every operator glued between 11 kinds of left operand (index, call, member, group, string, postfix call ...) and a numeral; " +
			"7 pairs of texts for the two places where a newline is NOT layout (directly after print / return, after a comma of a print list: it ends the statement); (v) every keyword with a letter, digit or underscore glued before or after it used as a variable; states = lexical classes and literal outcomes; non-trivial = escapes that yield a value",
		Plan: func(t fw.Tier) int { return ns*layoutParts + nt + 4 },
		Bound: func(t fw.Tier) string {
			return "k=2 layout deviations (thorough: +k=3 over line-break deviations); token pairs and triples; strings <= 3 (4)"
		},
		Assumptions: []string{"reference lexer mc/refsem/lex.go; numerals directly followed by '.' and non-ASCII bytes outside strings are not compared (3.18 / 7.1)", "hook VerifLex exposes the lexer's token stream", "math/big as nearest-double oracle"},
		Run: func(c *fw.Ctx, u int) {
			switch {
			case u < ns*layoutParts:
				seed, part := u/layoutParts, u%layoutParts
				b := c13BaseOf(c, seed)
				all := c13Gaps(b.toks)
				if part == 0 {
					s := c13Spec{Form: "layout", Seed: seed}
					c.Do(func() any { return s }, func() *fw.Violation { return c13LayoutCheck(c, seed, nil) })
				}
				for i, d1 := range all {
					if i%layoutParts != part {
						continue
					}
					s1 := c13Spec{Form: "layout", Seed: seed, Devs: []c13Dev{d1}}
					c.Do(func() any { return s1 }, func() *fw.Violation { return c13LayoutCheck(c, seed, s1.Devs) })
					for j := i + 1; j < len(all); j++ {
						d2 := all[j]
						if d2.Gap == d1.Gap {
							continue
						}
						s2 := c13Spec{Form: "layout", Seed: seed, Devs: []c13Dev{d1, d2}}
						c.Do(func() any { return s2 }, func() *fw.Violation { return c13LayoutCheck(c, seed, s2.Devs) })
						if c.Thorough() && len(b.toks) < 90 && (d1.Text == "\n" || d1.Text == ";") && (d2.Text == "\n" || d2.Text == ";") {
							for k := j + 1; k < len(all); k++ {
								d3 := all[k]
								if d3.Gap == d2.Gap || !(d3.Text == "\n" || d3.Text == ";" || d3.Text == "\t") {
									continue
								}
								s3 := c13Spec{Form: "layout", Seed: seed, Devs: []c13Dev{d1, d2, d3}}
								c.Do(func() any { return s3 }, func() *fw.Violation { return c13LayoutCheck(c, seed, s3.Devs) })
							}
						}
					}
					if c.Expired() {
						return
					}
				}
			case u < ns*layoutParts+nt:
				a := c01Tokens[u-ns*layoutParts]
				lex := func(text string) {
					s := c13Spec{Form: "lex", Text: fw.Text(text)}
					c.Do(func() any { return s }, func() *fw.Violation { return c13LexCheck(c, text) })
				}
				lex(a)
				for _, b := range c01Tokens {
					lex(a + b)
					lex(a + " " + b)
					lex("x " + a + b + " y")
					for _, d := range c01Tokens {
						lex(a + b + d)
					}
				}
			case u == ns*layoutParts+nt:
				L := c.Pick(3, 4)
				var rec func(cur string, n int)
				rec = func(cur string, n int) {
					for _, q := range []byte{'"', '\''} {
						s := c13Spec{Form: "string", Text: fw.Text(cur), Q: string(q)}
						c.Do(func() any { return s }, func() *fw.Violation { return c13StringCheck(c, cur, q) })
						for pos := range c13StrPositions {
							sp := c13Spec{Form: "stringpos", Text: fw.Text(cur), Q: string(q), Seed: pos}
							c.Do(func() any { return sp }, func() *fw.Violation { return c13StringPosCheck(c, cur, q, sp.Seed) })
						}
					}
					if n == L {
						return
					}
					for _, sym := range c13StrSyms {
						rec(cur+sym, n+1)
					}
				}
				rec("", 0)
			case u == ns*layoutParts+nt+1:
				nums := []string{"0", "7", "007", "10", "1.5", "1.50", "0.1", "00.5", "0.0", "100", "123456789", "9007199254740993", "1234567890123456789012345", "0.1234567890123456789012345", "12345.678901234567890123456789", "179769313486231570000000000000000000000000000000000000000000000000000000000000000000000000000000000000000000000000000000000000000000000000000000000000000000000000000000000000000000000000000000000000000000000000000000000000000000000000000000000000000000000000000000000000000000000000000000000000000000000000000", "0.000000000000000000000000000000000000000000000000000000000000000001", "4.35", "2.675", "0.30000000000000004", "9999999999999999", "99999999999999999999"}
				// every digit string of length <= 4 over {0,1,7,8,9}, alone and with a fraction: decimal, never octal
				var rec func(cur string)
				rec = func(cur string) {
					if cur != "" {
						nums = append(nums, cur, cur+".5", cur+".08")
					}
					if len(cur) == 4 {
						return
					}
					for _, d := range []string{"0", "1", "7", "8", "9"} {
						rec(cur + d)
					}
				}
				rec("")
				// every prefix of four digit strings with the point at every place: all lengths 1-25, every split between
				// integer and fraction digits (the nearest double of a 16-19 digit numeral needs exact conversion)
				for _, digits := range []string{"1004999999999999912345678", "9007199254740993000000001", "1234567890123456789012345", "4503599627370496500000000"} {
					for L := 1; L <= len(digits); L++ {
						for p := 1; p <= L; p++ {
							n := digits[:p]
							if p < L {
								n += "." + digits[p:L]
							}
							nums = append(nums, n)
						}
					}
				}
				for _, n := range nums {
					s := c13Spec{Form: "numeral", Text: fw.Text(n)}
					c.Do(func() any { return s }, func() *fw.Violation { return c13NumeralCheck(c, n) })
				}
			case u == ns*layoutParts+nt+2:
				for i := range c13PrintCommaPairs {
					i := i
					c.Do(func() any { return c13Spec{Form: "printcomma", Seed: i} }, func() *fw.Violation { return c13PrintComma(c, i) })
				}
				// literals and names longer than any 16-bit length
				for _, n := range []int{255, 256, 65535, 65536, 65537, 70000, 131077} {
					for _, q := range []string{"\"", "'"} {
						n, q := n, q
						c.Do(func() any { return c13Spec{Form: "long", Seed: n, Q: q} }, func() *fw.Violation { return c13LongCheck(c, n, q) })
					}
				}
				for _, op := range c13GlueOps {
					for _, b := range []string{"1", "0.5"} {
						op, b := op, b
						c.Do(func() any { return c13Spec{Form: "glueops", Text: fw.Text(op + " " + b)} }, func() *fw.Violation { return c13GlueOperands(c, op, b) })
					}
				}
				for _, a := range []string{"3", "1.5", "10", "0", "7"} {
					for _, b := range []string{"1", "0.5", "2", "3"} {
						for _, op := range c13GlueOps {
							s := c13Spec{Form: "glue", Text: fw.Text(a + " " + op + " " + b)}
							c.Do(func() any { return s }, func() *fw.Violation { return c13GlueCheck(c, a, op, b) })
						}
					}
				}
			default:
				for kw := range map[string]bool{"BEGIN": true, "END": true, "BEGINFILE": true, "ENDFILE": true, "print": true, "function": true, "return": true, "if": true, "else": true, "for": true, "while": true, "in": true, "match": true, "true": true, "false": true, "break": true, "continue": true, "next": true, "exit": true, "null": true, "is": true} {
					for _, name := range []string{kw + "x", "x" + kw, kw + "1", "_" + kw, kw + "_", kw + kw, strings.ToUpper(kw[:1]) + kw[1:] + "Q"} {
						if IsKeyword(name) {
							continue
						}
						s := c13Spec{Form: "keyword", Text: fw.Text(name)}
						c.Do(func() any { return s }, func() *fw.Violation { return c13KeywordCheck(c, name) })
					}
				}
			}
		},
		Replay: func(c *fw.Ctx, raw json.RawMessage) *fw.Violation {
			var s c13Spec
			if !unmarshal(raw, &s) {
				return nil
			}
			switch s.Form {
			case "layout":
				return c13LayoutCheck(c, s.Seed, s.Devs)
			case "lex":
				return c13LexCheck(c, string(s.Text))
			case "string":
				return c13StringCheck(c, string(s.Text), s.Q[0])
			case "stringpos":
				return c13StringPosCheck(c, string(s.Text), s.Q[0], s.Seed)
			case "printcomma":
				return c13PrintComma(c, s.Seed)
			case "glueops":
				f := strings.Fields(string(s.Text))
				return c13GlueOperands(c, f[0], f[1])
			case "long":
				return c13LongCheck(c, s.Seed, s.Q)
			case "numeral":
				return c13NumeralCheck(c, string(s.Text))
			case "glue":
				f := strings.Fields(string(s.Text))
				return c13GlueCheck(c, f[0], f[1], f[2])
			}
			return c13KeywordCheck(c, string(s.Text))
		},
	})
}
