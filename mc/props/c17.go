package props

import (
	"encoding/json"
	"fmt"
	"math"
	"strconv"
	"strings"

	"verif/mc/drive"
	"verif/mc/fw"
	. "verif/mc/refsem"
)

// C17: print renders every value in one well-defined, terminating, re-readable format.

type c17Spec struct {
	Form string `json:"form"` // doc, nums, graph
	Doc  string `json:"doc,omitempty"`
	Seq  []int  `json:"seq,omitempty"`
	Lo   int    `json:"lo,omitempty"`
	Hi   int    `json:"hi,omitempty"`
}

var c17DocProg = &Program{Rules: []*Rule{
	{Kind: "BEGINFILE", Body: Blk(Pr(V("$")), Pr(V("$"), V("$")), Pr(S("x"), V("$")))},
	{Body: Blk(Pr())},
	{Pattern: &BoolLit{B: true}}, // a rule without a body prints $
}}

func c17Doc(c *fw.Ctx, doc string) *fw.Violation {
	pc := &progCase{P: c17DocProg, Files: []inFile{{"in.json", doc}}}
	v, res, skipped := pc.check(c)
	if v != nil || skipped {
		return v
	}
	// model-free law: when no string needs escaping, the rendering of a container is JSON equal to the value
	n, ok := ParseJSON(doc)
	if ok && (n.K == JArr || n.K == JObj) && plainStrings(n) {
		first := strings.SplitN(res.Stdout, "\n", 2)[0]
		back, ok2 := ParseJSON(first)
		if !ok2 || !EqualNodes(back, n) {
			return &fw.Violation{What: "rendering of a container with plain strings does not read back as JSON equal to the value",
				Detail: detail{Program: pc.source(), Files: pc.spec().Files, WantStdout: doc, Got: drive.Outcome{Stdout: first}}}
		}
		c.Note("containers re-read as JSON", 1)
	}
	c.State("doc:" + docClass(n))
	return nil
}

func docClass(n *JNode) string {
	if n == nil {
		return "?"
	}
	switch n.K {
	case JArr:
		s := "["
		for _, it := range n.Items {
			s += docClass(it)
		}
		return s + "]"
	case JObj:
		s := "{"
		for _, k := range n.Keys {
			s += docClass(n.Vals[k])
		}
		return s + "}"
	case JNum:
		return "n"
	case JStr:
		return "s"
	}
	return "k"
}

// c17Nums prints a slice of the numeric sweep as elements of one array and
// checks each line: positional, no exponent, reads back bit-identical.
func c17Nums(c *fw.Ctx, nums []float64) *fw.Violation {
	var sb strings.Builder
	sb.WriteByte('[')
	for i, f := range nums {
		if i > 0 {
			sb.WriteByte(',')
		}
		sb.WriteString(numJSON(f))
	}
	sb.WriteByte(']')
	prog := "{ print $ }\n{ print [$] }"
	s := drive.Spec{Program: prog, Files: []drive.File{{Name: "in.json", Data: sb.String()}}}
	o := run(c, s)
	c.Traces++
	bad := func(what string, f float64, line string) *fw.Violation {
		return &fw.Violation{What: what, Detail: map[string]any{"number": numJSON(f), "printed": line, "program": prog, "kind": o.Kind, "msg": o.Msg}}
	}
	if o.Kind != drive.KNone {
		return bad("printing numbers failed", 0, "")
	}
	lines := strings.Split(strings.TrimSuffix(o.Stdout, "\n"), "\n")
	if len(lines) != 2*len(nums) {
		return bad("wrong number of lines", 0, fmt.Sprint(len(lines)))
	}
	for i, f := range nums {
		for k, line := range []string{lines[2*i], strings.TrimSuffix(strings.TrimPrefix(lines[2*i+1], "["), "]")} {
			c.Transitions++
			if strings.ContainsAny(line, "eE") {
				return bad("number printed with an exponent", f, line)
			}
			for _, ch := range line {
				if !(ch >= '0' && ch <= '9') && ch != '.' && ch != '-' {
					return bad("number printed with a character that is not part of a positional decimal", f, line)
				}
			}
			g, err := strconv.ParseFloat(line, 64)
			if err != nil || math.Float64bits(g) != math.Float64bits(f) {
				return bad("printed number does not read back as the identical double", f, line)
			}
			if k == 0 && line != FormatNum(f) {
				c.Note("renderings that differ from the model's spelling but read back identically", 1)
			}
		}
	}
	return nil
}

func c17Graph(c *fw.Ctx, seq []int) *fw.Violation {
	body := graphBody(seq)
	body = append(body, Pr(V("a")), Pr(V("b")), Pr(V("c")), Pr(V("a"), V("c")))
	pc := &progCase{P: &Program{Rules: []*Rule{{Kind: "BEGIN", Body: Blk(body...)}}}}
	v, res, skipped := pc.check(c)
	if !skipped && v == nil {
		cls := "tree"
		if strings.Contains(res.Stdout, "<circular reference>") {
			cls = "cyclic"
			c.NonTrivial("cycle:" + strings.Join(seqNames(seq), ";"))
		}
		c.State("graph:" + cls + ":" + res.Kind)
	}
	return v
}

// c17NestedPrograms: print statements whose later arguments run other print statements (in a callee, in a match block,
// two levels deep), as ONE site over several records: every print writes its own arguments, in evaluation order.
func c17NestedPrograms() []*progCase {
	note := &Func{Name: "note", Params: []string{"v"}, Body: Blk(Pr(S("seen"), V("v")), &Return{X: Bin("*", V("v"), N("10"))})}
	note3 := &Func{Name: "note3", Params: []string{"v"}, Body: Blk(Pr(S("seen"), V("v"), S("x"), S("y")), Pr(), &Return{X: V("v")})}
	outer := &Func{Name: "outer", Params: []string{"v"}, Body: Blk(Pr(S("outer"), V("v"), CallE(V("note"), V("v")), S("o")), &Return{X: Bin("+", V("v"), N("1"))})}
	funcs := []*Func{note, note3, outer}
	d := func() Expr { return V("$") }
	n := func(x Expr) Expr { return CallE(V("note"), x) }
	blockMatch := func() Expr {
		return &MatchExpr{Subj: d(), Cases: []MatchCase{{Pats: []Expr{N("2")}, Block: Blk(Pr(S("in match"), d(), S("m")))}, {Pats: []Expr{V("w")}, Body: n(V("w"))}}}
	}
	bodies := [][]Stmt{
		{Pr(d(), n(d()))},
		{Pr(n(d()), d())},
		{Pr(d(), n(d()), d(), n(Bin("+", d(), N("1"))))},
		{Pr(S("a"), d(), blockMatch(), S("z"))},
		{Pr(d(), Arr_(n(d())), &ObjLit{Keys: []string{"k"}, Vals: []Expr{n(d())}})},
		{Pr(d(), CallE(V("outer"), d()), S("end"))},
		{Pr(S("first"), d()), Pr(d(), S("p"), CallE(V("note3"), d()), S("q"), CallE(V("outer"), d()))},
		{Pr(d(), Bin("+", n(d()), n(Bin("+", d(), N("1")))), d())},
		{Pr(d(), Bin("&&", d(), n(d())), Bin("||", d(), n(d())))},
		{Pr(), Pr(d()), Pr(d(), d()), Pr(d(), d(), d()), Pr(d()), Pr()},
		{&ForIn{V: "v", Iter: Arr_(N("1"), N("2")), Body: Pr(V("v"), d(), n(V("v")))}},
		{Pr(d(), CallE(V("printf"), S("<%v>"), d()), S("after printf"))},
	}
	var out []*progCase
	// a bare print (or a rule without a body), $ changed in place, a bare print again: each shows $ as it is then
	change := func() Stmt {
		return &If{Cond: &IsExpr{V("$"), "object"}, Then: Blk(Ex(Asg("=", Mem(V("$"), "seen"), &BoolLit{B: true})), Ex(Asg("=", Mem(Mem(V("$"), "sub"), "k"), Arr_(N("1"))))),
			Else: &If{Cond: &IsExpr{V("$"), "array"}, Then: Blk(Ex(CallE(Mem(V("$"), "push"), S("more"))))}}
	}
	bump := &Func{Name: "bump", Params: []string{"v"}, Body: Blk(&If{Cond: &IsExpr{V("v"), "object"}, Then: Blk(Ex(Asg("=", Mem(V("v"), "bumped"), N("1")))), Else: &If{Cond: &IsExpr{V("v"), "array"}, Then: Blk(Ex(CallE(Mem(V("v"), "pop"))))}})}
	inplace := [][]*Rule{
		{{Body: Blk(Pr(), change(), Pr(), Pr(V("$")), Ex(CallE(V("bump"), V("$"))), Pr(), Pr(V("$")))}},
		// (a rule without a body must not be followed by a rule that starts with '{': the two would read as one rule)
		{{Pattern: &BoolLit{B: true}}, {Pattern: N("1"), Body: Blk(change())}, {Pattern: &BoolLit{B: true}}, {Pattern: N("1"), Body: Blk(Ex(CallE(V("bump"), V("$"))))}, {Pattern: &BoolLit{B: true}}, {Pattern: N("1"), Body: Blk(Pr(S("with argument"), V("$")))}},
		{{Kind: "BEGINFILE", Body: Blk(Pr(), change(), Pr())}, {Kind: "ENDFILE", Body: Blk(Pr(), Ex(CallE(V("bump"), V("$"))), Pr())}},
		{{Body: Blk(Ex(Asg("=", V("alias"), V("$"))), Pr(), &If{Cond: &IsExpr{V("alias"), "object"}, Then: Blk(Ex(Asg("=", Mem(V("alias"), "via"), S("alias"))))}, Pr(), Ex(Asg("=", V("$"), Arr_(V("$")))), Pr(), Pr())}},
	}
	// nulls that were read from places that do not exist are printed as the word null, also as direct arguments
	missing := Blk(Ex(Asg("=", V("a"), Arr_(N("10"), N("20")))), Ex(Asg("=", V("o"), &ObjLit{Keys: []string{"k"}, Vals: []Expr{N("1")}})),
		Pr(Idx(V("a"), N("2")), Idx(V("a"), N("7")), Idx(V("o"), N("3")), Mem(V("o"), "zz"), Idx(Idx(V("a"), N("5")), N("1")), Idx(S("ab"), N("9"))),
		Pr(Idx(V("$"), N("4")), Mem(V("$"), "none"), Arr_(Idx(V("a"), N("3"))), Idx(V("a"), N("1"))))
	out = append(out, &progCase{P: &Program{Rules: []*Rule{{Body: missing}}}, Files: []inFile{{"in.json", `[[1],{"x":1},"s"]`}}})
	// doubles no numeral denotes (table 3.2: NaN, +Inf, -Inf), reached through num() and by overflow, bare and inside containers; and
	// the empty key, keys that look like numbers, keys with a dot, a quote or a space
	special := Blk(Ex(Asg("=", V("n"), CallE(V("num"), S("NaN")))), Ex(Asg("=", V("i"), CallE(V("num"), S("Inf")))),
		Pr(V("n"), V("i"), Bin("-", N("0"), V("i")), Bin("*", CallE(V("num"), S("1e308")), N("10")), Bin("-", V("i"), V("i"))),
		Pr(Arr_(V("n"), V("i"), Bin("-", N("0"), V("i"))), &ObjLit{Keys: []string{"k"}, Vals: []Expr{V("n")}}, Bin("+", V("n"), S("")), Bin("+", S("x"), V("i"))),
		Pr(V("$")), Pr(Arr_(V("$"))),
		Ex(Asg("=", Idx(V("c"), Mem(V("$"), "lang")), N("1"))), Ex(Asg("=", Idx(V("c"), S("")), N("2"))), Ex(Asg("=", Idx(V("c"), S("a.b")), N("3"))), Ex(Asg("=", Idx(V("c"), S("1")), N("4"))), Pr(V("c")))
	out = append(out, &progCase{P: &Program{Rules: []*Rule{{Body: special}}}, Files: []inFile{{"in.json", `[{"": 1, "lang": ""}, {"": {"": []}, "a b": 2, "lang": "q\"t"}, {"lang": "-0", "0": 0, "-0": 1, "1e3": 2}]`}}})
	for _, rules := range inplace {
		for _, doc := range []string{`[{"n":1},{"n":2,"sub":{}},[1],[],"s",5]`, `{"n":1} [2]`} {
			out = append(out, &progCase{P: &Program{Funcs: []*Func{bump}, Rules: rules}, Files: []inFile{{"in.json", doc}}})
		}
	}
	for _, b := range bodies {
		for _, doc := range []string{`[1,2,3]`, `[2]`, "1 2\n[2,1]"} {
			out = append(out, &progCase{P: &Program{Funcs: funcs, Rules: []*Rule{{Body: Blk(b...)}}}, Files: []inFile{{"in.json", doc}}})
		}
	}
	return out
}

func c17GraphLen(c *fw.Ctx) int { return c.Pick(4, 5) }

func init() {
	var gen, extra *docGen
	var sweep []float64
	const numChunk = 64
	setup := func(t fw.Tier) {
		if gen == nil {
			gen = newDocGen(2, 2, docScalarsFull)
			extra = newDocGen(1, 2, docScalarsExtra)
			sweep = numSweep(t == fw.Thorough)
		}
	}
	const docUnits = 64
	register(addTok(tokFramesC17, &fw.Prop{
		ID: "C17",
		Rule: "all JSON trees of depth <= 2 with <= 2 children per container over 12 scalars (incl. -0, 1e21, 5e-324, escapes, NUL) printed via print $, print $,$, a body-less rule and a bare print; trees of depth 1 over 19 further scalars (text-processing traps, strings that end in or consist of line ends and blanks); a structured sweep of doubles; 4 rule lists that print $ bare, change it in place (member store, push, callee, alias) and print it bare again; 12 statement lists whose print arguments run other print statements (callee, match block, two levels, printf) as one site over several records; " +
			"all programs of <= L heap-building statements (cycles and sharing through arrays, objects, mixtures, popfirst-shared storage) printing every variable; oracle: reference renderer (DESIGN.md 3.14) byte for byte with probed key order, plus model-free laws " +
			"(numbers positional and bit-identical on re-read; plain containers re-read as equal JSON); states = document shape classes and graph classes; non-trivial = distinct statement sequences whose rendering contains a recurrence marker",
		Plan: func(t fw.Tier) int { return docUnits + 1 + len(graphOps) + 1 },
		Bound: func(t fw.Tier) string {
			setup(t)
			L := 4
			if t == fw.Thorough {
				L = 5
			}
			return fmt.Sprintf("%d documents (depth<=2,width<=2,12 scalars); %d doubles; all graph programs of <= %d statements over %d operations", gen.Count(), len(sweep), L, len(graphOps))
		},
		Assumptions: []string{"reference renderer of DESIGN.md 3.14", "object key order is probed once per key sequence from the implementation and then required everywhere (3.11)", "strconv.ParseFloat as the reader of printed numbers"},
		Run: func(c *fw.Ctx, u int) {
			setup(c.Tier)
			switch {
			case u < docUnits:
				for i := u; i < gen.Count(); i += docUnits {
					doc := gen.At(i)
					c.Do(func() any { return c17Spec{Form: "doc", Doc: doc} }, func() *fw.Violation { return c17Doc(c, doc) })
				}
				for i := u; i < extra.Count(); i += docUnits {
					doc := extra.At(i)
					c.Do(func() any { return c17Spec{Form: "doc", Doc: doc} }, func() *fw.Violation { return c17Doc(c, doc) })
				}
			case u == docUnits:
				for i, pc := range c17NestedPrograms() {
					pc, i := pc, i
					c.Do(func() any { return c17Spec{Form: "nested", Lo: i, Doc: pc.source()} }, func() *fw.Violation {
						v := pc.mustCheck(c, "nested and repeated print statements")
						if v == nil {
							c.State("nested print statements")
						}
						return v
					})
				}
				for lo := 0; lo < len(sweep); lo += numChunk {
					hi := lo + numChunk
					if hi > len(sweep) {
						hi = len(sweep)
					}
					lo, hi := lo, hi
					c.StatesN += int64(hi - lo)
					c.Do(func() any { return c17Spec{Form: "nums", Lo: lo, Hi: hi} }, func() *fw.Violation { return c17Nums(c, sweep[lo:hi]) })
				}
			default:
				first := u - docUnits - 2 // -1: the empty sequence
				eachSeq(len(graphOps), c17GraphLen(c), first, func(seq []int) {
					if first < 0 && len(seq) > 0 {
						return
					}
					c.Do(func() any { return c17Spec{Form: "graph", Seq: append([]int{}, seq...)} }, func() *fw.Violation { return c17Graph(c, seq) })
				})
			}
		},
		Replay: func(c *fw.Ctx, raw json.RawMessage) *fw.Violation {
			var s c17Spec
			if !unmarshal(raw, &s) {
				return nil
			}
			setup(c.Tier)
			switch s.Form {
			case "doc":
				return c17Doc(c, s.Doc)
			case "nums":
				return c17Nums(c, sweep[s.Lo:s.Hi])
			case "nested":
				v, _, _ := c17NestedPrograms()[s.Lo].check(c)
				return v
			}
			return c17Graph(c, s.Seq)
		},
	}))
}
