package props

// Scale sweeps: one-dimensional exhaustive sweeps of a COUNT. The enumerations of the other engines cover every small case;
// what a small case cannot show is a count, size or length above some modest threshold (the 9th argument, the 17th key, the
// 65th element, line 100, the 257th variable, a buffer of 4096 bytes). Each family below is a program schema with one size
// parameter n and a closed-form expected output; the sweep runs EVERY n of a dense range and the neighbourhood of every
// power of two and of ten above it. The oracle is the closed form (independent of the implementation's parser and of the
// reference interpreter); where the reference interpreter accepts the program it must agree as well.

import (
	"bytes"
	"encoding/json"
	"fmt"
	"os"
	"os/exec"
	"path/filepath"
	"reflect"
	"sort"
	"strconv"
	"strings"
	"time"

	lang "github.com/alligator/jqawk/src"

	"verif/mc/drive"
	"verif/mc/fw"
	"verif/mc/refsem"
)

type scaleCase struct {
	Prog      string
	Files     []inFile
	Sels      []string
	Want      string
	Kind      drive.ErrKind // "" = none
	Line      int           // when > 0: the error must be positioned on this line ...
	SrcLine   string        // ... and quote this text
	RootEq    string        // when set: the JSON output must denote the same value as this JSON text
	CLI       bool          // also run the real binary
	CLIOnly   bool          // only through the binary (a failure would take the worker process with it)
	ModelWant bool          // no closed form: the expected result is the reference interpreter's (on the implementation's parse, strict mode)
	Root      bool          // with ModelWant: also compare the JSON output
	NoModel   bool          // the reference interpreter is not consulted (e.g. its budget would not cover the size)
	ErrFile   string
}

type scaleFam struct {
	Prop   string
	Name   string
	Max    int  // largest n at the thorough tier
	QMax   int  // largest n at the quick tier
	Dense  int  // thorough: every n up to here (default 1100)
	All    bool // every n up to Max at both tiers (a family that is a list of fixed programs)
	Build  func(n int) scaleCase
	Custom func(c *fw.Ctx, n int) *fw.Violation // instead of Build: a check of its own for size n
}

type scaleSpec struct {
	Form   string `json:"form"` // "scale"
	Family string `json:"family"`
	N      int    `json:"n"`
}

func seqs2(n int, sep string, f func(k int) string) string {
	var b strings.Builder
	for k := 1; k <= n; k++ {
		if k > 1 {
			b.WriteString(sep)
		}
		b.WriteString(f(k))
	}
	return b.String()
}

func itoa(k int) string { return strconv.Itoa(k) }

// scaleSizes: the values of n a sweep runs.
func scaleSizes(f *scaleFam, thorough bool) []int {
	max, dense := f.QMax, 72
	if thorough {
		max, dense = f.Max, f.Dense
		if dense == 0 {
			dense = 1100
		}
	}
	if f.All {
		max, dense = f.Max, f.Max
	}
	set := map[int]bool{}
	for n := 1; n <= dense && n <= max; n++ {
		set[n] = true
	}
	for p := 64; p <= max+2; p *= 2 {
		for d := -2; d <= 2; d++ {
			set[p+d] = true
		}
	}
	for p := 100; p <= max+1; p *= 10 {
		for d := -1; d <= 1; d++ {
			set[p+d] = true
		}
	}
	for _, n := range []int{80, 96, 150, 200, 300, 384, 500, 640, 768, 1500, 3000, 5000, 6000, 12000, 20000, 50000, 70000, 150000, 150002, 160000, 200000, 320000, 400000} {
		set[n] = true
	}
	set[max] = true
	var out []int
	for n := range set {
		if n >= 1 && n <= max {
			out = append(out, n)
		}
	}
	sort.Ints(out)
	return out
}

func jsonSame(a, b string) bool {
	var x, y any
	da, db := json.NewDecoder(strings.NewReader(a)), json.NewDecoder(strings.NewReader(b))
	da.UseNumber()
	db.UseNumber()
	if da.Decode(&x) != nil || db.Decode(&y) != nil {
		return false
	}
	return reflect.DeepEqual(normNumbers(x), normNumbers(y))
}

func normNumbers(v any) any {
	switch t := v.(type) {
	case json.Number:
		f, _ := strconv.ParseFloat(string(t), 64)
		return f
	case []any:
		for i := range t {
			t[i] = normNumbers(t[i])
		}
		return t
	case map[string]any:
		for k := range t {
			t[k] = normNumbers(t[k])
		}
		return t
	}
	return v
}

func scaleCheck(c *fw.Ctx, f *scaleFam, n int) *fw.Violation {
	if f.Custom != nil {
		if c.Prop.ID != f.Prop {
			return nil
		}
		v := f.Custom(c, n)
		if v != nil {
			v.What = fmt.Sprintf("%s, n = %d: %s", f.Name, n, v.What)
		}
		return v
	}
	sc := f.Build(n)
	if c.Prop.ID == "C01" {
		return scaleCrash(c, f, n, sc)
	}
	if sc.ModelWant {
		js, err := lang.VerifAST(sc.Prog)
		if err != nil {
			c.Incompl(fmt.Sprintf("scale family %q, n = %d: the program does not parse (%v)", f.Name, n, err))
			return nil
		}
		p, err := refsem.FromImplAST(js)
		if err != nil {
			c.Incompl(fmt.Sprintf("scale family %q, n = %d: %v", f.Name, n, err))
			return nil
		}
		pc := &progCase{P: p, Src: sc.Prog, Files: sc.Files, Root: sc.Root, Strict: true, MaxSteps: 30000000}
		v := pc.mustCheck(c, f.Name)
		if v != nil {
			v.What = fmt.Sprintf("%s, n = %d: %s", f.Name, n, v.What)
			return v
		}
		// the model takes the order of object keys from the implementation (7.2), so it cannot see an order that changes from run
		// to run: the same run is repeated and must print the same bytes every time
		s := pc.spec()
		s.Budget = 5000000 + 400*int64(n)
		first := run(c, s)
		for i := 0; i < 7; i++ {
			if o := run(c, s); o.Stdout != first.Stdout || o.Kind != first.Kind {
				o.Ev = nil
				return &fw.Violation{What: fmt.Sprintf("%s, n = %d: two runs of the same program on the same input print different things", f.Name, n), Detail: detail{Program: clip(sc.Prog), Files: s.Files, WantStdout: clip(first.Stdout), WantKind: first.Kind, Got: o}}
			}
		}
		return nil
	}
	kind := sc.Kind
	if kind == "" {
		kind = drive.KNone
	}
	if sc.CLIOnly {
		return scaleCLI(c, f, n, sc, kind)
	}
	s := drive.Spec{Program: sc.Prog, Selectors: sc.Sels, WantRoot: sc.RootEq != "", Budget: 5000000 + 400*int64(n)}
	for _, fl := range sc.Files {
		s.Files = append(s.Files, drive.File{Name: fl.Name, Data: fl.Text})
	}
	o := run(c, s)
	c.Traces++
	c.Transitions += o.Steps
	where := fmt.Sprintf("%s, n = %d: ", f.Name, n)
	clipSpec := func() detail {
		d := detail{Program: clip(sc.Prog), Selectors: sc.Sels, WantStdout: clip(sc.Want), WantKind: kind}
		for i, fl := range s.Files {
			if i < 3 {
				d.Files = append(d.Files, drive.File{Name: fl.Name, Data: clip(fl.Data)})
			}
		}
		return d
	}
	if o.Truncated {
		c.Incompl(fmt.Sprintf("scale family %q, n = %d: the output exceeds what the driver captures", f.Name, n))
		return nil
	}
	if v := expect(s, o, sc.Want, kind, ""); v != nil {
		d := clipSpec()
		o.Ev, o.Stdout = nil, clip(o.Stdout)
		d.Got = o
		return &fw.Violation{What: where + strings.Replace(v.What, "the model", "the closed form", 1), Detail: d}
	}
	bad := func(what string) *fw.Violation {
		d := clipSpec()
		o.Ev, o.Stdout, o.RootJSON = nil, clip(o.Stdout), clip(o.RootJSON)
		d.Got = o
		return &fw.Violation{What: where + what, Detail: d}
	}
	if sc.Line > 0 && (o.Line != sc.Line || strings.TrimRight(o.SrcLine, "\r\n") != sc.SrcLine) {
		return bad(fmt.Sprintf("the error is not positioned on line %d with that line quoted", sc.Line))
	}
	if sc.ErrFile != "" && o.FileName != sc.ErrFile {
		return bad("the JSON error names the wrong input")
	}
	if sc.RootEq != "" {
		if o.RootKind != drive.KNone {
			return bad("the JSON output could not be produced")
		}
		if !jsonSame(o.RootJSON, sc.RootEq) {
			return bad("the JSON output does not denote the document")
		}
	}
	c.Outcome(string(kind))
	// a second and third dimension for free: the same body run K times (every site is evaluated again and again) D frames deep
	if kind == drive.KNone && len(sc.Files) == 0 && len(sc.Sels) == 0 && sc.RootEq == "" && n <= 130 && !f.All {
		if v := scaleRepeatDeep(c, f, n, sc); v != nil {
			return v
		}
	}
	// second opinion: the reference interpreter on the implementation's parse
	if !sc.NoModel {
		if js, err := lang.VerifAST(sc.Prog); err == nil {
			if p, err := refsem.FromImplAST(js); err == nil {
				pc := &progCase{P: p, Src: sc.Prog, Files: sc.Files, Strict: true, MaxSteps: 30000000}
				if len(sc.Sels) == 0 {
					res := pc.model()
					switch {
					case res.Aborted:
						c.Note("scale: model budget", 1)
					case res.Unfixed != "":
						c.Note("scale: model declined: "+res.Unfixed, 1)
					case res.Stdout != sc.Want || modelKind(res.Kind) != kind:
						// the closed form and the implementation agree, the reference interpreter does not: a harness inconsistency
						c.Incompl(fmt.Sprintf("scale family %q, n = %d: the reference interpreter disagrees with the closed form and the implementation (model stdout %q, kind %s)", f.Name, n, clip(res.Stdout), res.Kind))
					default:
						c.Note("scale: model agrees", 1)
					}
				}
			}
		}
	}
	if sc.CLI {
		if v := scaleCLI(c, f, n, sc, kind); v != nil {
			return v
		}
	}
	return nil
}

// scaleCLI runs the real binary on the same case: program through -f, inputs as files.
func scaleCLI(c *fw.Ctx, f *scaleFam, n int, sc scaleCase, kind drive.ErrKind) *fw.Violation {
	dir := filepath.Join(fw.WorkDir(), fmt.Sprintf("scale-%d", os.Getpid()))
	os.MkdirAll(dir, 0o755)
	defer os.RemoveAll(dir)
	pf := filepath.Join(dir, "p.jqawk")
	os.WriteFile(pf, []byte(sc.Prog), 0o644)
	argv := []string{"-f", pf}
	for _, sel := range sc.Sels {
		argv = append(argv, "-r", sel)
	}
	for _, fl := range sc.Files {
		p := filepath.Join(dir, fl.Name)
		os.WriteFile(p, []byte(fl.Text), 0o644)
		argv = append(argv, p)
	}
	cmd := exec.Command(fw.JqawkBin(), argv...)
	cmd.Dir = dir
	var so, se bytes.Buffer
	cmd.Stdout, cmd.Stderr = &so, &se
	if len(sc.Files) == 0 {
		cmd.Stdin = strings.NewReader("")
	}
	so2, se2, exit, timedOut := runChild(c, cmd, "", 120*time.Second)
	c.Evals++
	if timedOut {
		c.Incompl(fmt.Sprintf("scale family %q, n = %d: the binary did not finish within 120 s", f.Name, n))
		return nil
	}
	want := strings.ReplaceAll(sc.Want, "\x00DIR\x00", dir)
	what := ""
	switch {
	case strings.Contains(se2, "goroutine ") || strings.Contains(se2, "fatal error") || strings.Contains(se2, "panic:"):
		what = "the binary died with a Go runtime crash"
	case so2 != want:
		what = "the binary's standard output differs from the closed form"
	case kind == drive.KNone && exit != 0:
		what = "the binary ends with a non-zero status"
	case kind != drive.KNone && (exit == 0 || exit > 2 || exit < 0):
		what = "the binary does not end with a small non-zero status on an error"
	case kind == drive.KNone && se2 != "":
		what = "the binary writes to standard error on a successful run"
	case sc.Line > 0 && !strings.Contains(se2, sc.SrcLine+"\n"):
		what = "the binary's diagnostic does not quote the faulting line as it stands in the program"
	case sc.Line > 0 && !strings.Contains(se2, fmt.Sprintf("on line %d:", sc.Line)):
		what = fmt.Sprintf("the binary's diagnostic does not name line %d", sc.Line)
	}
	if what == "" {
		return nil
	}
	return &fw.Violation{What: fmt.Sprintf("%s, n = %d: %s", f.Name, n, what), Detail: map[string]any{"program": clip(sc.Prog), "argv": len(argv), "want": clip(want), "stdout": clip(so2), "stderr": clip(se2), "exit": exit}}
}

// scaleCrash is C01's reading of a family: whatever the size, the run ends in success or in one of the three error kinds.
func scaleCrash(c *fw.Ctx, f *scaleFam, n int, sc scaleCase) *fw.Violation {
	if sc.CLIOnly {
		return nil // C04 runs it through the binary, where a crash is one of the things looked for
	}
	s := drive.Spec{Program: sc.Prog, Selectors: sc.Sels, WantRoot: sc.RootEq != "", Budget: 5000000 + 400*int64(n)}
	for _, fl := range sc.Files {
		s.Files = append(s.Files, drive.File{Name: fl.Name, Data: fl.Text})
	}
	o := run(c, s)
	c.Traces++
	c.Transitions += o.Steps
	c.Outcome(string(o.Kind))
	what := ""
	switch {
	case o.Kind == drive.KPanic:
		what = "implementation panicked"
	case o.Kind == drive.KOther:
		what = "implementation returned an error that is none of the three kinds"
	case o.RootKind == drive.KPanic:
		what = "producing the JSON output panicked"
	}
	if what == "" {
		return nil
	}
	o.Ev, o.Stdout, o.RootJSON = nil, clip(o.Stdout), clip(o.RootJSON)
	return &fw.Violation{What: fmt.Sprintf("%s, n = %d: %s", f.Name, n, what), Detail: detail{Program: clip(sc.Prog), Selectors: sc.Sels, Got: o}}
}

func scaleFamsOf(prop string) []*scaleFam {
	var out []*scaleFam
	for _, f := range scaleFamilies() {
		if f.Prop == prop || prop == "C01" {
			out = append(out, f)
		}
	}
	return out
}

func scaleRun(c *fw.Ctx, fams []*scaleFam, u int) {
	f := fams[u]
	for _, n := range scaleSizes(f, c.Thorough()) {
		n := n
		c.StatesN++
		c.Do(func() any { return scaleSpec{Form: "scale", Family: f.Name, N: n} }, func() *fw.Violation { return scaleCheck(c, f, n) })
		if c.Expired() {
			return
		}
	}
	c.State("scale " + f.Name)
}

// addScale appends the scale sweeps of a property to its check.
func addScale(p *fw.Prop) *fw.Prop {
	fams := scaleFamsOf(p.ID)
	if len(fams) == 0 {
		return p
	}
	plan, run, replay := p.Plan, p.Run, p.Replay
	p.Plan = func(t fw.Tier) int { return plan(t) + len(fams) }
	p.Run = func(c *fw.Ctx, u int) {
		if n := plan(c.Tier); u >= n {
			scaleRun(c, fams, u-n)
			return
		}
		run(c, u)
	}
	p.Replay = func(c *fw.Ctx, raw json.RawMessage) *fw.Violation {
		var s scaleSpec
		if unmarshal(raw, &s) && s.Form == "scale" {
			for _, f := range fams {
				if f.Name == s.Family {
					return scaleCheck(c, f, s.N)
				}
			}
			panic("scale: no family " + s.Family)
		}
		return replay(c, raw)
	}
	var names []string
	for _, f := range fams {
		names = append(names, fmt.Sprintf("%s (n <= %d, thorough %d)", f.Name, f.QMax, f.Max))
	}
	if p.ID == "C01" {
		p.Rule += fmt.Sprintf("; SCALE SWEEPS: all %d program schemas with a size parameter n that the other checks compare with closed-form results (section 2.2, E6) are run here for the same n with this property's oracle only: no panic, no error outside the three kinds", len(fams))
		return p
	}
	p.Rule += "; SCALE SWEEPS: program schemas with one size parameter n and a closed-form expected output, run for EVERY n <= 72 (thorough: every n <= 1100; <= 200 for the two stream families of C03 whose reference costs n^2 per size) and for the neighbourhood of every power of two and of ten up to the family's maximum: " + strings.Join(names, "; ") + " -- stdout and outcome must equal the closed form (and the reference interpreter's result where it accepts the program)"
	return p
}

// register adds the scale sweeps that belong to a property and registers its check.
func register(p *fw.Prop) { fw.Register(addScale(p)) }

// scaleRepeatDeep: a schema of the form  <function definitions> BEGIN { BODY }  is rewritten so that BODY is the body of a
// function that is called once per record of a K-record input, D frames below the rule. Every name BODY creates is local to
// that call, so each call starts from the same state and prints the same text: the expected output is the closed form K times.
// What this adds to the one-dimensional sweep of n: every site of BODY is evaluated K times in one run (whatever is remembered
// per site, per cell or per frame between evaluations), and at a depth of D frames (whatever is sized by depth times n).
func scaleRepeatDeep(c *fw.Ctx, f *scaleFam, n int, sc scaleCase) *fw.Violation {
	prog := sc.Prog
	i := strings.LastIndex(prog, "BEGIN {")
	if i < 0 || (i > 0 && prog[i-1] != '\n') || strings.Count(prog, "BEGIN {") != 1 || !strings.HasSuffix(prog, "}\n") {
		return nil
	}
	head, body := prog[:i], prog[i+len("BEGIN {"):len(prog)-2]
	for _, kw := range []string{"\nEND", "\nBEGINFILE", "\nENDFILE", "next", "exit", "return ", "$"} {
		if strings.Contains(body, kw) {
			return nil
		}
	}
	if head != "" && !strings.HasPrefix(head, "function ") {
		return nil
	}
	for _, kd := range [][2]int{{3, 0}, {20, 1}, {2, 40}} {
		k, d := kd[0], kd[1]
		p2 := head + "function once__() {" + body + "}\nfunction deep__(n__) { if (n__ > 0) { return deep__(n__ - 1) } once__(); return 0 }\n{ deep__(" + itoa(d) + ") }\n"
		s := drive.Spec{Program: p2, Files: []drive.File{{Name: "in.json", Data: "[" + nums(k, ", ") + "]"}}, Budget: int64(k)*(5000000+400*int64(n)) + 100000}
		o := run(c, s)
		c.Traces++
		c.Transitions += o.Steps
		if o.Truncated {
			c.Incompl(fmt.Sprintf("scale family %q, n = %d, the body run %d times: the output exceeds what the driver captures", f.Name, n, k))
			return nil
		}
		if v := expect(s, o, strings.Repeat(sc.Want, k), drive.KNone, ""); v != nil {
			o.Ev, o.Stdout = nil, clip(o.Stdout)
			return &fw.Violation{What: fmt.Sprintf("%s, n = %d, the body run %d times, %d frames deep: %s", f.Name, n, k, d, strings.Replace(v.What, "the model", "the closed form", 1)),
				Detail: detail{Program: clip(p2), WantStdout: clip(strings.Repeat(sc.Want, k)), WantKind: drive.KNone, Got: o}}
		}
	}
	c.Note("scale: body repeated and nested", 1)
	return nil
}
