package props

import (
	"os"
	"testing"

	"verif/mc/fw"
)

func TestScaleFamilies(t *testing.T) {
	only := os.Getenv("SCALE_ONLY")
	for _, f := range scaleFamilies() {
		if only != "" && f.Prop != only {
			continue
		}
		if os.Getenv("SCALE_SPECIAL") != "" && !f.All {
			continue
		}
		c := fw.NewCtx(&fw.Prop{ID: f.Prop}, fw.Quick, 1)
		bad := 0
		for _, n := range scaleSizes(f, os.Getenv("SCALE_THOROUGH") != "") {
			if v := scaleCheck(c, f, n); v != nil {
				bad++
				if bad <= 3 {
					t.Errorf("%s: %s\n%+v", f.Prop, v.What, v.Detail)
				}
			}
		}
		t.Logf("%s %q: notes %v incomplete %v", f.Prop, f.Name, c.Notes, c.Incomplete)
	}
}
