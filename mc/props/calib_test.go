package props

import (
	"fmt"
	"go/ast"
	"go/parser"
	"go/token"
	"os"
	"strconv"
	"testing"

	"verif/mc/refsem"

	lang "github.com/alligator/jqawk/src"
)

type calibCase struct {
	name, prog, json, json2, expected, expectedError string
	hasArgs                                          bool
}

func calibCases(t *testing.T) []calibCase {
	repo := os.Getenv("VERIF_REPO")
	if repo == "" {
		repo = "/repo"
	}
	fset := token.NewFileSet()
	f, err := parser.ParseFile(fset, repo+"/jqawk_test.go", nil, 0)
	if err != nil {
		t.Fatal(err)
	}
	var out []calibCase
	ast.Inspect(f, func(n ast.Node) bool {
		vs, ok := n.(*ast.ValueSpec)
		if !ok || len(vs.Names) != 1 || vs.Names[0].Name != "tests" || len(vs.Values) != 1 {
			return true
		}
		for _, el := range vs.Values[0].(*ast.CompositeLit).Elts {
			var c calibCase
			for _, kv := range el.(*ast.CompositeLit).Elts {
				k := kv.(*ast.KeyValueExpr)
				key := k.Key.(*ast.Ident).Name
				if key == "args" {
					c.hasArgs = true
					continue
				}
				lit, ok := k.Value.(*ast.BasicLit)
				if !ok {
					c.hasArgs = true // not a plain literal: leave the case out
					continue
				}
				s, _ := strconv.Unquote(lit.Value)
				switch key {
				case "name":
					c.name = s
				case "prog":
					c.prog = s
				case "json":
					c.json = s
				case "json2":
					c.json2 = s
				case "expected":
					c.expected = s
				case "expectedError":
					c.expectedError = s
				}
			}
			out = append(out, c)
		}
		return false
	})
	return out
}

// TestCalibration: every program of the repository's test table that parses is run by the reference interpreter on the
// implementation's own parse; the model must produce the output the maintainers expect.
func TestCalibration(t *testing.T) {
	agree, skipped, declined := 0, 0, 0
	for _, c := range calibCases(t) {
		if c.hasArgs {
			skipped++
			continue
		}
		js, err := lang.VerifAST(c.prog)
		if err != nil {
			if c.expectedError == "" {
				t.Errorf("%s: does not parse: %v", c.name, err)
			}
			skipped++
			continue
		}
		p, err := refsem.FromImplAST(js)
		if err != nil {
			t.Errorf("%s: %v", c.name, err)
			continue
		}
		var files []refsem.ModelFile
		for i, j := range []string{c.json, c.json2} {
			if j == "" {
				continue
			}
			st := refsem.ParseStream([]byte(j))
			mf := refsem.ModelFile{Name: fmt.Sprintf("<test%d>", i+1), Bad: st.Status != refsem.StreamClean}
			for _, v := range st.Values {
				mf.Values = append(mf.Values, v.Node)
			}
			files = append(files, mf)
		}
		res := refsem.RunProgram(p, files, nil, probeKeyOrder, 0)
		if res.Aborted || res.Unfixed != "" {
			declined++
			t.Logf("%s: model declined (%s)", c.name, res.Unfixed)
			continue
		}
		if c.expectedError != "" {
			if res.Kind == "none" {
				t.Errorf("%s: the test expects an error (%s), the model none; stdout %q", c.name, c.expectedError, res.Stdout)
			} else {
				agree++
			}
			continue
		}
		if res.Kind != "none" || res.Stdout != c.expected {
			t.Errorf("%s: model says %s %q (%s), the test expects %q", c.name, res.Kind, res.Stdout, res.Err, c.expected)
			continue
		}
		agree++
	}
	t.Logf("calibration: %d agree, %d skipped, %d declined", agree, skipped, declined)
}
