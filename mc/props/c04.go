package props

import (
	"encoding/json"
	"fmt"
	"os"
	"path/filepath"
	"strings"

	"verif/mc/drive"
	"verif/mc/fw"
	. "verif/mc/refsem"
)

// C04: JSON written by -o and json() is valid and equal to the value it represents.

type c04Spec struct {
	Form string `json:"form"` // doc, nums, sel, graph
	Doc  string `json:"doc,omitempty"`
	Sel  int    `json:"sel,omitempty"`
	Seq  []int  `json:"seq,omitempty"`
	Lo   int    `json:"lo,omitempty"`
	Hi   int    `json:"hi,omitempty"`
}

func c04Fail(what string, s drive.Spec, o drive.Outcome, want string) *fw.Violation {
	o.Ev = nil
	o.Stdout = clip(o.Stdout)
	o.RootJSON = clip(o.RootJSON)
	return &fw.Violation{What: what, Detail: detail{Program: s.Program, Files: s.Files, Selectors: s.Selectors, WantStdout: clip(want), Got: o}}
}

// c04Doc: the document through json($) and through -o, unmodified.
func c04Doc(c *fw.Ctx, doc string) *fw.Violation {
	want, ok := ParseJSON(doc)
	if !ok {
		panic("c04: generated document does not parse: " + doc)
	}
	s := drive.Spec{Program: "BEGINFILE { print json($) }\n{ x = $ }", Files: []drive.File{{Name: "in.json", Data: doc}}, WantRoot: true}
	o := run(c, s)
	c.Traces++
	c.Transitions += 2
	c.State("doc:" + docClass(want))
	if o.Kind != drive.KNone {
		return c04Fail("json($) of a plain document failed", s, o, doc)
	}
	got, ok := ParseJSON(o.Stdout)
	if !ok {
		return c04Fail("json($) is not valid JSON", s, o, doc)
	}
	if !EqualNodes(got, want) {
		return c04Fail("json($) does not parse back to the document", s, o, doc)
	}
	if o.RootKind != drive.KNone {
		return c04Fail("-o output of a plain document failed", s, o, doc)
	}
	root, ok := ParseJSON(o.RootJSON)
	if !ok {
		return c04Fail("-o output is not valid JSON", s, o, doc)
	}
	if !EqualNodes(root, want) {
		return c04Fail("-o output does not parse back to the document", s, o, doc)
	}
	return nil
}

// c04Deep: an acyclic document nested depth containers deep (the text json() returns is indented and grows with the square of
// the depth, so only its existence is printed; -o is parsed back in full).
func c04Deep(c *fw.Ctx, depth int) *fw.Violation {
	doc := strings.Repeat(`[{"a":`, depth/2) + "1" + strings.Repeat(`}]`, depth/2)
	want, _ := ParseJSON(doc)
	s := drive.Spec{Program: "BEGINFILE { s = json($); print s.length() > 2 }\n{ x = $ }", Files: []drive.File{{Name: "in.json", Data: doc}}, WantRoot: true}
	o := run(c, s)
	c.Traces++
	c.Transitions += 2
	s.Files = nil
	if o.Kind != drive.KNone || o.Stdout != "true\n" {
		return c04Fail(fmt.Sprintf("json($) of an acyclic document nested %d deep failed", depth), s, o, "true")
	}
	root, ok := ParseJSON(o.RootJSON)
	if o.RootKind != drive.KNone || !ok || !EqualNodes(root, want) {
		o.RootJSON = clip(o.RootJSON)
		return c04Fail(fmt.Sprintf("-o of an acyclic document nested %d deep is not the document", depth), s, o, "")
	}
	c.State("deep acyclic document")
	return nil
}

// c04Batch: json($) as ONE call site over a whole array of documents.
func c04Batch(c *fw.Ctx, docs []string) *fw.Violation {
	s := drive.Spec{Program: "{ print json($) }", Files: []drive.File{{Name: "in.json", Data: "[" + strings.Join(docs, ",") + "]"}}, WantRoot: true, Budget: 5_000_000}
	o := run(c, s)
	c.Traces++
	c.Transitions += int64(len(docs))
	if o.Kind != drive.KNone || o.RootKind != drive.KNone {
		return c04Fail("json($) over an array of plain documents failed", s, o, "")
	}
	st := ParseStream([]byte(o.Stdout))
	root, ok := ParseJSON(o.RootJSON)
	if st.Status != StreamClean || len(st.Values) != len(docs) || !ok || root.K != JArr || len(root.Items) != len(docs) {
		return c04Fail("json($) over an array of documents is not one valid JSON text per element", s, o, "")
	}
	for i, d := range docs {
		want, _ := ParseJSON(d)
		if !EqualNodes(st.Values[i].Node, want) {
			return c04Fail("json($) of element "+fmt.Sprint(i)+" does not parse back to the document "+d, s, o, d)
		}
		if !EqualNodes(root.Items[i], want) {
			return c04Fail("-o element "+fmt.Sprint(i)+" does not parse back to the document "+d, s, o, d)
		}
	}
	return nil
}

var c04SelSteps = []func(Expr) Expr{
	func(x Expr) Expr { return Mem(x, "a") },
	func(x Expr) Expr { return Idx(x, N("0")) },
	func(x Expr) Expr { return Idx(x, N("1")) },
	func(x Expr) Expr { return Idx(x, &StrLit{S: `é "`, Quote: '\''}) },
}

func c04Selector(i int) Expr {
	x := V("$")
	if i == 0 {
		return x
	}
	i--
	n := len(c04SelSteps)
	if i < n {
		return c04SelSteps[i](x)
	}
	i -= n
	return c04SelSteps[i%n](c04SelSteps[i/n](x))
}

const c04NSel = 1 + 4 + 16

// c04Sel: -r selects a sub-document; -o writes exactly that sub-document.
func c04Sel(c *fw.Ctx, doc string, sel int) *fw.Violation {
	pc := &progCase{P: &Program{Rules: []*Rule{{Body: Blk(Ex(Asg("=", V("x"), N("1"))))}}}, Files: []inFile{{"in.json", doc}}, Sels: []Expr{c04Selector(sel)}, Root: true}
	v, res, skipped := pc.check(c)
	if !skipped && v == nil {
		c.State(fmt.Sprintf("sel%d:%s:%v", sel, res.Kind, res.Root.K))
	}
	return v
}

func c04Nums(c *fw.Ctx, nums []float64) *fw.Violation {
	var sb strings.Builder
	sb.WriteByte('[')
	for i, f := range nums {
		if i > 0 {
			sb.WriteByte(',')
		}
		sb.WriteString(numJSON(f))
	}
	sb.WriteByte(']')
	s := drive.Spec{Program: "{ print json($) }", Files: []drive.File{{Name: "in.json", Data: sb.String()}}, WantRoot: true}
	o := run(c, s)
	c.Traces++
	if o.Kind != drive.KNone || o.RootKind != drive.KNone {
		return c04Fail("serialising numbers failed", s, o, "")
	}
	st := ParseStream([]byte(o.Stdout))
	if st.Status != StreamClean || len(st.Values) != len(nums) {
		return c04Fail("json(n) output is not a clean stream of one value per number", s, o, "")
	}
	root, ok := ParseJSON(o.RootJSON)
	if !ok || root.K != JArr || len(root.Items) != len(nums) {
		return c04Fail("-o output of an array of numbers is not valid JSON of the same length", s, o, "")
	}
	for i, f := range nums {
		c.Transitions += 2
		if !EqualJSON(st.Values[i].Node, Num(f)) {
			return c04Fail("json(n) does not parse back to the identical double: "+numJSON(f), s, o, numJSON(f))
		}
		if !EqualJSON(root.Items[i], Num(f)) {
			return c04Fail("-o does not parse back to the identical double: "+numJSON(f), s, o, numJSON(f))
		}
	}
	return nil
}

var c04Ops = append(append([]graphOp{}, graphOps...),
	graphOp{"b.r=/r/", func() Stmt { return Ex(Asg("=", Mem(V("b"), "r"), &RegexLit{"r"})) }},
	graphOp{"a[0]=x", func() Stmt { return Ex(Asg("=", Idx(V("a"), N("0")), V("x"))) }},
	graphOp{"b.n=num('inf')", func() Stmt { return Ex(Asg("=", Mem(V("b"), "n"), CallE(V("num"), S("inf")))) }},
	graphOp{"c=[-num('inf')]", func() Stmt { return Ex(Asg("=", V("c"), Arr_(Un("-", CallE(V("num"), S("inf")))))) }},
	graphOp{"a[3]=5", func() Stmt { return Ex(Asg("=", Idx(V("a"), N("3")), N("5"))) }},
	graphOp{"b.q.z=[]", func() Stmt { return Ex(Asg("=", Mem(Mem(V("b"), "q"), "z"), Arr_())) }},
)

func c04Graph(c *fw.Ctx, seq []int) *fw.Violation {
	body := graphPrologue()
	for _, i := range seq {
		body = append(body, c04Ops[i].st())
	}
	build := &Program{Rules: []*Rule{{Kind: "BEGIN", Body: Blk(body...)}}}
	res := RunProgram(build, nil, nil, probeKeyOrder, 0)
	if res.Aborted {
		return nil
	}
	full := append(append([]Stmt{}, body...),
		Pr(CallE(V("json"), V("a"))), Pr(CallE(V("json"), V("b"))), Pr(CallE(V("json"), V("c"))))
	src := Source(&Program{Rules: []*Rule{{Kind: "BEGIN", Body: Blk(full...)}}}, Style{})
	s := drive.Spec{Program: src}
	o := run(c, s)
	c.Traces++
	c.Transitions += int64(len(seq)) + 3
	var want []Value
	wantKind := drive.KNone
	if res.Kind != "none" {
		wantKind = drive.KRuntime
	} else {
		for _, name := range []string{"a", "b", "c"} {
			v := res.M.Frames[0].Vars[name].V
			if !JSONExpressible(v) {
				wantKind = drive.KRuntime
				c.NonTrivial("refused:" + name)
				break
			}
			want = append(want, v)
		}
	}
	c.State(fmt.Sprintf("graph:%d values then %s", len(want), wantKind))
	if o.Kind == drive.KPanic || o.Kind == drive.KOther {
		return c04Fail("implementation panicked or returned a foreign error", s, o, "")
	}
	if o.Kind != wantKind {
		if wantKind == drive.KRuntime {
			return c04Fail("a value JSON cannot express (cycle, regex, non-finite number) was not refused", s, o, "")
		}
		return c04Fail("an expressible value was refused", s, o, "")
	}
	st := ParseStream([]byte(o.Stdout))
	if st.Status != StreamClean {
		return c04Fail("json(v) output is not valid JSON", s, o, "")
	}
	if len(st.Values) != len(want) {
		return c04Fail("wrong number of JSON texts written before the refusal", s, o, fmt.Sprint(len(want)))
	}
	for i, w := range want {
		if !EqualJSON(st.Values[i].Node, w) {
			return c04Fail("json(v) does not parse back to v", s, o, ToJSONText(w))
		}
	}
	return nil
}

// ----- documents changed by the program: -o writes the value the root now represents -----

// c04Mutators: every way a program can change the document, each guarded so that it applies to whatever shape the
// document has; most contain no assignment at all (the change goes through a method, a callee, an alias).
func c04Mutators() []*Program {
	isA := func(e Expr) Expr { return &IsExpr{e, "array"} }
	isO := func(e Expr) Expr { return &IsExpr{e, "object"} }
	when := func(c Expr, st ...Stmt) Stmt { return &If{Cond: c, Then: Blk(st...)} }
	call := func(recv Expr, m string, args ...Expr) Stmt { return Ex(CallE(Mem(recv, m), args...)) }
	bf := func(st ...Stmt) *Program { return &Program{Rules: []*Rule{{Kind: "BEGINFILE", Body: Blk(st...)}}} }
	d := V("$")
	f := &Func{Name: "f", Params: []string{"v"}, Body: Blk(when(isA(V("v")), call(V("v"), "push", S("callee"))), when(isO(V("v")), Ex(Asg("=", Mem(V("v"), "callee"), N("1")))))}
	return []*Program{
		bf(when(isA(d), call(d, "push", N("7")))),
		bf(when(isA(d), call(d, "pop"))),
		bf(when(isA(d), call(d, "popfirst"))),
		bf(when(isA(d), call(d, "push", Arr_()), call(d, "push", &ObjLit{}))),
		bf(when(isA(Mem(d, "a")), call(Mem(d, "a"), "push", S("s"))), when(isA(Idx(d, N("0"))), call(Idx(d, N("0")), "pop"))),
		{Funcs: []*Func{f}, Rules: []*Rule{{Kind: "BEGINFILE", Body: Blk(Ex(CallE(V("f"), d)))}}},
		{Funcs: []*Func{f}, Rules: []*Rule{{Body: Blk(Ex(CallE(V("f"), d)))}}},
		{Rules: []*Rule{{Body: Blk(when(isA(d), call(d, "push", V("$index"))))}}},
		{Rules: []*Rule{{Kind: "ENDFILE", Body: Blk(when(isA(d), call(d, "popfirst"), call(d, "push", S("last"))))}}},
		bf(when(isO(d), Ex(Asg("=", Mem(d, "a"), Arr_()))), when(isA(d), Ex(Asg("=", Idx(d, N("1")), &ObjLit{})))),
		bf(when(isO(d), Ex(Asg("=", Mem(Mem(d, "n"), "m"), N("2")))), when(isA(d), Ex(Asg("=", Idx(d, N("3")), S("far"))))),
		bf(Ex(Asg("=", V("x"), d)), when(isA(V("x")), call(V("x"), "push", N("2"))), when(isO(V("x")), Ex(Asg("=", Mem(V("x"), "z"), Arr_(V("x")))), Ex(Asg("=", Mem(V("x"), "z"), N("0"))))),
		{Rules: []*Rule{{Body: Blk(when(&IsExpr{d, "number"}, Ex(&Postfix{Op: "++", X: d})), when(&IsExpr{d, "string"}, Ex(Asg("+=", d, S("!")))))}}},
		// programs that never look at the document: -o still writes it
		{Funcs: []*Func{f}, Rules: []*Rule{{Kind: "BEGIN", Body: Blk(Ex(Asg("=", V("n"), N("0"))))}}},
		{Rules: []*Rule{{Kind: "END", Body: Blk(Ex(Asg("=", V("n"), N("0"))))}}},
		{Rules: []*Rule{{Kind: "BEGIN", Body: Blk(Ex(Asg("=", V("n"), N("0"))))}, {Kind: "BEGIN", Body: Blk(Pr(S("b")))}}},
	}
}

func c04Mutated(c *fw.Ctx, doc string, k int) *fw.Violation {
	pc := &progCase{P: c04Mutators()[k], Files: []inFile{{"in.json", doc}}, Root: true}
	v, res, skipped := pc.check(c)
	if !skipped && v == nil {
		c.State(fmt.Sprintf("mutated%d:%s", k, res.Kind))
	}
	return v
}

// ----- the command line with -o and a root JSON cannot express: an error and no fragment anywhere -----

type c04CLISpec struct {
	Form string `json:"form"`
	Doc  int    `json:"doc"`
	K    int    `json:"k"`   // the element that receives the inexpressible member (-1: none)
	Bad  int    `json:"bad"` // which inexpressible value
	Out  int    `json:"out"` // 0: -o -, 1: -o FILE over an older file, 2: -o FILE that does not exist yet
}

var c04CLIDocs = []string{`[{"id":1},{"id":2},{"id":3}]`, `[{"id":1}]`, `{"id":1}`, `[[1],[2]]`,
						// what the binary writes is the JSON text, byte for byte: nothing in it is a directive
						`[{"50%":"100% %s %d %v %%"},{"id":"a%20b"}]`, `{"k":"\\u003cb\\u003e <&> \u2028 \\n %!(EXTRA"}`}
var c04CLIElems = []int{3, 1, 1, 2, 2, 1} // elements (array) or 1 (object) of each document

var c04CLIBad = []string{`$`, `/x/`, `num("inf")`, `-num("inf")`, `[$]`, `{k: [1, $]}`}

const c04Stale = "stale content of an earlier run\n"

func c04CLI(c *fw.Ctx, s c04CLISpec) *fw.Violation {
	doc := c04CLIDocs[s.Doc]
	prog := fmt.Sprintf("$index == %d { if ($ is array) { $.push(%s) } else { $.bad = %s } }", s.K, c04CLIBad[s.Bad], c04CLIBad[s.Bad])
	if doc[0] == '{' {
		if s.K > 0 {
			return nil
		}
		prog = fmt.Sprintf("{ $.bad = %s }", c04CLIBad[s.Bad])
		if s.K < 0 {
			prog = "{ x = 1 }"
		}
	}
	dir := c14Dirs(c)
	outPath := filepath.Join(dir, "c04-out.json")
	os.Remove(outPath)
	argv := []string{"-o", "-"}
	if s.Out > 0 {
		argv = []string{"-o", outPath}
		if s.Out == 1 {
			os.WriteFile(outPath, []byte(strings.Repeat(c04Stale, 40)), 0o644)
		}
	}
	argv = append(argv, prog)
	got := c14Exec(argv, doc)
	c.Evals++
	c.Traces++
	c.Transitions++
	file, ferr := os.ReadFile(outPath)
	os.Remove(outPath)
	fail := func(what string) *fw.Violation {
		return &fw.Violation{What: what, Detail: map[string]any{"argv": argv, "stdin": doc, "got": got, "file_exists": ferr == nil, "file": clip(string(file))}}
	}
	for _, bad := range []string{"panic:", "goroutine ", "fatal error", "SIGSEGV"} {
		if strings.Contains(got.Stderr, bad) {
			return fail("the binary ended in a Go stack trace")
		}
	}
	want, _ := ParseJSON(doc)
	if s.K < 0 {
		// control: nothing inexpressible, the document comes back
		text := got.Stdout
		if s.Out > 0 {
			text = string(file)
		}
		n, ok := ParseJSON(text)
		if got.Exit != 0 || !ok || !EqualNodes(n, want) {
			return fail("-o of an unmodified document is not the document")
		}
		c.State("cli: document written")
		return nil
	}
	c.State(fmt.Sprintf("cli: refusal doc=%d out=%d", s.Doc, s.Out))
	c.NonTrivial("cli refused:" + c04CLIBad[s.Bad])
	if got.Exit == 0 {
		return fail("a root JSON cannot express was written with exit status 0")
	}
	if strings.TrimSpace(got.Stderr) == "" {
		return fail("a root JSON cannot express was refused without a diagnostic")
	}
	if got.Stdout != "" {
		return fail("a root JSON cannot express was refused after part of it was written to standard output")
	}
	if ferr == nil && len(file) > 0 && !(s.Out == 1 && string(file) == strings.Repeat(c04Stale, 40)) {
		return fail("a root JSON cannot express was refused but the -o file holds a fragment")
	}
	return nil
}

// ----- json() of a container, the container changed without any assignment, json() again -----

var c04Again = []struct {
	prog, input string
	want        []string // the JSON values of the printed lines
}{
	{`BEGIN { a = [1, 2]; print json(a); a.push(3); print json(a); a.pop(); a.pop(); print json(a); a.popfirst(); print json(a) }`, "", []string{`[1,2]`, `[1,2,3]`, `[1]`, `[]`}},
	{`BEGIN { a = [1]; o = {k: a, j: [a]}; print json(o); a.push(2); print json(o); print json(a); a.popfirst(); print json(o) }`, "", []string{`{"k":[1],"j":[[1]]}`, `{"k":[1,2],"j":[[1,2]]}`, `[1,2]`, `{"k":[2],"j":[[2]]}`}},
	{`BEGIN { seen = {ids: []} } { seen.ids.push($); print json(seen) }`, `[7,8,9]`, []string{`{"ids":[7]}`, `{"ids":[7,8]}`, `{"ids":[7,8,9]}`}},
	{`{ print json($); $.push(0); print json($); print json([$]) }`, `[[1],[]]`, []string{`[1]`, `[1,0]`, `[[1,0]]`, `[]`, `[0]`, `[[0]]`}},
	{`function grow(v) { v.push("g") } BEGIN { a = []; print json(a); grow(a); print json(a); grow(a); print json(a) }`, "", []string{`[]`, `["g"]`, `["g","g"]`}},
	{`BEGIN { a = [[1]]; print json(a); a[0].push(2); print json(a); print json(a[0]); a[0].pop(); print json(a[0]); print json(a) }`, "", []string{`[[1]]`, `[[1,2]]`, `[1,2]`, `[1]`, `[[1]]`}},
	{`BEGIN { a = [3, 1]; print json(a.sort()); a.push(2); print json(a.sort()); print json(a) }`, "", []string{`[1,3]`, `[1,2,3]`, `[3,1,2]`}},
}

func c04AgainCheck(c *fw.Ctx, i int) *fw.Violation {
	cs := c04Again[i]
	s := drive.Spec{Program: cs.prog}
	if cs.input != "" {
		s.Files = []drive.File{{Name: "in.json", Data: cs.input}}
	}
	o := run(c, s)
	c.Traces++
	c.Transitions += int64(len(cs.want))
	if o.Kind != drive.KNone {
		return c04Fail("json() of expressible values failed", s, o, strings.Join(cs.want, "\n"))
	}
	st := ParseStream([]byte(o.Stdout))
	if st.Status != StreamClean || len(st.Values) != len(cs.want) {
		return c04Fail("json() did not print one valid JSON text per call", s, o, strings.Join(cs.want, "\n"))
	}
	for k, w := range cs.want {
		wn, _ := ParseJSON(w)
		if !EqualNodes(st.Values[k].Node, wn) {
			return c04Fail(fmt.Sprintf("json() call %d does not give the value the container has at that moment", k+1), s, o, strings.Join(cs.want, "\n"))
		}
	}
	c.State("json() again after a change without assignment")
	return nil
}

func init() {
	var full, deep, narrow, extra *docGen
	var sweep []float64
	setup := func(t fw.Tier) {
		if full == nil {
			full = newDocGen(2, 2, docScalarsFull)
			deep = newDocGen(4, 1, docScalarsFull)
			extra = newDocGen(1, 2, docScalarsExtra)
			if t == fw.Thorough {
				narrow = newDocGen(2, 2, docScalarsFull[:8])
			} else {
				narrow = newDocGen(2, 2, docScalarsNarrow)
			}
			sweep = numSweep(t == fw.Thorough)
		}
	}
	const docUnits = 48
	const numChunk = 64
	glen := func(c *fw.Ctx) int { return c.Pick(3, 4) }
	register(&fw.Prop{
		ID: "C04",
		Rule: "all JSON trees of depth <= 2 / width <= 2 over 12 scalars, all depth <= 4 / width 1 trees, a structured sweep of doubles, each through json($) and through -o unmodified; narrow documents through 21 sub-document selectors with -o, and changed by 13 mutating programs and left alone by 3 programs that have only BEGIN / END rules (push / pop / popfirst, through a callee, an alias, per element, in ENDFILE, stores that create and pad; most without any assignment) with -o compared to the model's root; " +
			"acyclic documents nested 200 ... 4098 deep through json($) and -o; 7 programs that call json() on a container, change it through push / pop / popfirst / a callee without any assignment and call json() again; the real binary with -o - / -o FILE (over an older file, new) on 6 documents (two full of % directives, escapes and separators) whose element k receives one of 6 inexpressible values: non-zero exit, a diagnostic, nothing on stdout and no fragment in the file; " +
			"all programs of <= L heap-building statements (cycles, sharing, regex / unset / non-finite members) followed by json() of every variable; oracle: the output parses with an independent RFC 8259 reader to a value equal to the document / the model's value, " +
			"and a value is refused iff the model's heap has a cycle, regex or non-finite number in it; non-trivial = refusal classes; states = document shape classes, selector outcomes, graph outcome classes",
		Plan: func(t fw.Tier) int { return docUnits + 1 + 1 + len(c04Ops) },
		Bound: func(t fw.Tier) string {
			setup(t)
			L := 3
			if t == fw.Thorough {
				L = 4
			}
			return fmt.Sprintf("%d+%d documents, %d doubles, %d narrow documents x %d selectors, graph programs of <= %d statements over %d operations", full.Count(), deep.Count(), len(sweep), narrow.Count(), c04NSel, L, len(c04Ops))
		},
		Assumptions: []string{"independent RFC 8259 reader mc/refsem/json.go decides validity and denotation", "strconv.ParseFloat as nearest-double conversion"},
		Run: func(c *fw.Ctx, u int) {
			setup(c.Tier)
			switch {
			case u < docUnits:
				for i := u; i < full.Count(); i += docUnits {
					doc := full.At(i)
					c.Do(func() any { return c04Spec{Form: "doc", Doc: doc} }, func() *fw.Violation { return c04Doc(c, doc) })
				}
				for i := u; i < deep.Count(); i += docUnits {
					doc := deep.At(i)
					c.Do(func() any { return c04Spec{Form: "doc", Doc: doc} }, func() *fw.Violation { return c04Doc(c, doc) })
				}
				for i := u; i < extra.Count(); i += docUnits {
					doc := extra.At(i)
					c.Do(func() any { return c04Spec{Form: "doc", Doc: doc} }, func() *fw.Violation { return c04Doc(c, doc) })
				}
				for i := u; i < narrow.Count(); i += docUnits {
					doc := narrow.At(i)
					for sel := 0; sel < c04NSel; sel++ {
						sel := sel
						c.Do(func() any { return c04Spec{Form: "sel", Doc: doc, Sel: sel} }, func() *fw.Violation { return c04Sel(c, doc, sel) })
					}
					for k := range c04Mutators() {
						k := k
						c.Do(func() any { return c04Spec{Form: "mutated", Doc: doc, Sel: k} }, func() *fw.Violation { return c04Mutated(c, doc, k) })
					}
				}
			case u == docUnits+1:
				c.Do(func() any { return c04Spec{Form: "graph"} }, func() *fw.Violation { return c04Graph(c, nil) })
				// deep but acyclic: every depth the reader accepts is written back (depth is not a cycle)
				for _, depth := range []int{200, 1001, 1500, 2500, 4098} {
					depth := depth
					c.Do(func() any { return c04Spec{Form: "deep", Lo: depth} }, func() *fw.Violation { return c04Deep(c, depth) })
				}
				for i := range c04Again {
					i := i
					c.Do(func() any { return c04Spec{Form: "again", Sel: i} }, func() *fw.Violation { return c04AgainCheck(c, i) })
				}
				for d := range c04CLIDocs {
					for k := -1; k < 3; k++ {
						for b := range c04CLIBad {
							for out := 0; out < 3; out++ {
								if (k < 0 && b > 0) || (k >= 0 && k >= c04CLIElems[d]) {
									continue
								}
								s := c04CLISpec{Form: "cli", Doc: d, K: k, Bad: b, Out: out}
								c.Do(func() any { return s }, func() *fw.Violation { return c04CLI(c, s) })
							}
						}
					}
				}
			case u == docUnits:
				// one call site over batches of documents, in enumeration order and reversed
				for lo := 0; lo < full.Count() && lo < 40000; lo += 500 {
					var docs []string
					for i := lo; i < lo+500 && i < full.Count(); i++ {
						docs = append(docs, full.At(i))
					}
					lo := lo
					c.Do(func() any { return c04Spec{Form: "batch", Lo: lo} }, func() *fw.Violation { return c04Batch(c, docs) })
					rev := make([]string, len(docs))
					for i, d := range docs {
						rev[len(docs)-1-i] = d
					}
					c.Do(func() any { return c04Spec{Form: "batchrev", Lo: lo} }, func() *fw.Violation { return c04Batch(c, rev) })
				}
				for lo := 0; lo < len(sweep); lo += numChunk {
					hi := lo + numChunk
					if hi > len(sweep) {
						hi = len(sweep)
					}
					lo, hi := lo, hi
					c.StatesN += int64(hi - lo)
					c.Do(func() any { return c04Spec{Form: "nums", Lo: lo, Hi: hi} }, func() *fw.Violation { return c04Nums(c, sweep[lo:hi]) })
				}
			default:
				first := u - docUnits - 2
				eachSeq(len(c04Ops), glen(c), first, func(seq []int) {
					c.Do(func() any { return c04Spec{Form: "graph", Seq: append([]int{}, seq...)} }, func() *fw.Violation { return c04Graph(c, seq) })
				})
			}
		},
		Replay: func(c *fw.Ctx, raw json.RawMessage) *fw.Violation {
			var probe struct {
				Form string `json:"form"`
			}
			if unmarshal(raw, &probe) && probe.Form == "cli" {
				var cs c04CLISpec
				unmarshal(raw, &cs)
				return c04CLI(c, cs)
			}
			var s c04Spec
			if !unmarshal(raw, &s) {
				return nil
			}
			setup(c.Tier)
			switch s.Form {
			case "mutated":
				return c04Mutated(c, s.Doc, s.Sel)
			case "again":
				return c04AgainCheck(c, s.Sel)
			case "deep":
				return c04Deep(c, s.Lo)
			case "doc":
				return c04Doc(c, s.Doc)
			case "sel":
				return c04Sel(c, s.Doc, s.Sel)
			case "nums":
				return c04Nums(c, sweep[s.Lo:s.Hi])
			case "batch", "batchrev":
				var docs []string
				for i := s.Lo; i < s.Lo+500 && i < full.Count(); i++ {
					docs = append(docs, full.At(i))
				}
				if s.Form == "batchrev" {
					for i, j := 0, len(docs)-1; i < j; i, j = i+1, j-1 {
						docs[i], docs[j] = docs[j], docs[i]
					}
				}
				return c04Batch(c, docs)
			}
			return c04Graph(c, s.Seq)
		},
	})
}
