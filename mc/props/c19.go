package props

import (
	"encoding/json"
	"fmt"

	"verif/mc/fw"
	. "verif/mc/refsem"
)

// C19: match selects the first matching case, binds pattern names, and yields its value.

type c19Pat struct {
	name string
	mk   func() Expr
}

func c19Patterns(thorough bool) []c19Pat {
	lit := []c19Pat{
		{"1", func() Expr { return N("1") }},
		{"2", func() Expr { return N("2") }},
		{`"a"`, func() Expr { return S("a") }},
		{"null", func() Expr { return &NullLit{} }},
		{"true", func() Expr { return &BoolLit{B: true} }},
		{"0", func() Expr { return N("0") }},
		{`"1"`, func() Expr { return S("1") }}, // the same text as the number 1, another kind
		{`'2'`, func() Expr { return &StrLit{S: "2", Quote: '\''} }},
	}
	ids := []c19Pat{
		{"x", func() Expr { return V("x") }},
		{"_", func() Expr { return V("_") }},
	}
	arr := func(name string, items ...func() Expr) c19Pat {
		return c19Pat{name, func() Expr {
			es := make([]Expr, len(items))
			for i, f := range items {
				es[i] = f()
			}
			return Arr_(es...)
		}}
	}
	n1 := func() Expr { return N("1") }
	n2 := func() Expr { return N("2") }
	x := func() Expr { return V("x") }
	y := func() Expr { return V("y") }
	base := append(append([]c19Pat{}, lit...), ids...)
	base = append(base,
		arr("[]"), arr("[x]", x), arr("[1,x]", n1, x), arr("[2,x]", n2, x), arr("[x,y]", x, y),
		arr("[[1],x]", func() Expr { return Arr_(N("1")) }, x),
		arr("[x,[2,y]]", x, func() Expr { return Arr_(N("2"), V("y")) }),
		// a literal behind a position that may already have failed: positions are tried in order and the first failure ends the attempt
		arr("[2,1]", n2, n1), arr("[x,1]", x, n1),
	)
	if !thorough {
		return base
	}
	// all array patterns of width <= 2 over {1, 2, "a", null, x, y, [], [x], [1]}
	elems := []c19Pat{lit[0], lit[1], lit[2], lit[3], {"x", x}, {"y", y}, arr("[]"), arr("[y]", y), arr("[1]", n1)}
	for _, a := range elems {
		base = append(base, arr("["+a.name+"]", a.mk))
		for _, b := range elems {
			if a.name == b.name && (a.name == "x" || a.name == "y") {
				continue // duplicate names in one pattern are not fixed by any statement
			}
			base = append(base, arr("["+a.name+","+b.name+"]", a.mk, b.mk))
		}
	}
	return base
}

// c19BadPatterns: literals that cannot be evaluated (a bad escape, a numeral with two points). A case that is never reached
// never evaluates its patterns, so they are harmless behind a case that matches.
var c19BadPatterns = []c19Pat{
	{`'\q'`, func() Expr { return &RawStrLit{Raw: `\q`, Quote: '\''} }},
	{"1.2.3", func() Expr { return N("1.2.3") }},
	{`[1,'\q']`, func() Expr { return Arr_(N("1"), &RawStrLit{Raw: `\q`, Quote: '\''}) }},
}

func c19AllPatterns(thorough bool) []c19Pat {
	return append(c19Patterns(thorough), c19BadPatterns...)
}

type c19Subj struct {
	name string
	mk   func() Expr
}

var c19Subjects = []c19Subj{
	{"1", func() Expr { return N("1") }},
	{"2", func() Expr { return N("2") }},
	{`"a"`, func() Expr { return S("a") }},
	{"null", func() Expr { return &NullLit{} }},
	{"true", func() Expr { return &BoolLit{B: true} }},
	{"[]", func() Expr { return Arr_() }},
	{"[1]", func() Expr { return Arr_(N("1")) }},
	{"[2,5]", func() Expr { return Arr_(N("2"), N("5")) }},
	{"[1,[2,3]]", func() Expr { return Arr_(N("1"), Arr_(N("2"), N("3"))) }},
	{"{a:1}", func() Expr { return &ObjLit{Keys: []string{"a"}, Vals: []Expr{N("1")}} }},
	{"unset", func() Expr { return V("u") }},
	{"[[1],7]", func() Expr { return Arr_(Arr_(N("1")), N("7")) }},
	{`"1"`, func() Expr { return S("1") }},
	{`"1.0"`, func() Expr { return S("1.0") }},
	{`[1,2,3]`, func() Expr { return Arr_(N("1"), N("2"), N("3")) }},
	// both zeros: match agrees with ==
	{"-0", func() Expr { return Un("-", N("0")) }},
	{"0", func() Expr { return N("0") }},
	// nulls that were read from places that do not exist, at the very index a literal pattern spells
	{"[9][1]", func() Expr { return Idx(Arr_(N("9")), N("1")) }},
	{"{}[2]", func() Expr { return Idx(&Paren{X: &ObjLit{}}, N("2")) }},
}

type c19Spec struct {
	Subj  int     `json:"subj"` // -1: the match is ONE site evaluated over the sequence of all subjects (elements of the input)
	Rev   bool    `json:"rev,omitempty"`
	Cases [][]int `json:"cases"` // pattern indices per case
	Body  int     `json:"body"`  // 0 expression, 1 block, 2 tracing call
	Text  string  `json:"text,omitempty"`
}

var c19T = &Func{Name: "t", Params: []string{"i", "a", "b"}, Body: Blk(Pr(S("t"), V("i"), V("a"), V("b")), &Return{Bin("+", V("i"), N("100"))})}

const c19StreamDoc = `[1,2,"a",null,true,[],[1],[2,5],[1,[2,3]],{"a":1},[[1],7],"2",false,0]`
const c19StreamDocRev = `[0,false,"2",[[1],7],{"a":1},[1,[2,3]],[2,5],[1],[],true,null,"a",2,1]`

var c19Sum = &Func{Name: "sum", Params: []string{"n"}, Body: Blk(&Return{X: &MatchExpr{Subj: V("n"), Cases: []MatchCase{{Pats: []Expr{N("0")}, Body: N("0")}, {Pats: []Expr{V("m")}, Body: Bin("+", CallE(V("sum"), Bin("-", V("m"), N("1"))), V("m"))}}}})}
var c19T2 = &Func{Name: "t2", Params: []string{"i"}, Body: Blk(&Return{X: &MatchExpr{Subj: Arr_(V("i"), S("in t2")), Cases: []MatchCase{{Pats: []Expr{Arr_(V("x"), V("y"))}, Body: Arr_(V("y"), V("x"))}}}})}

const c19Bodies = 9

func c19Build(s c19Spec, pats []c19Pat) *progCase {
	var subj Expr
	if s.Subj < 0 {
		subj = V("$")
	} else {
		subj = c19Subjects[s.Subj].mk()
	}
	m := &MatchExpr{Subj: subj}
	for i, cs := range s.Cases {
		mc := MatchCase{}
		for _, p := range cs {
			mc.Pats = append(mc.Pats, pats[p].mk())
		}
		id := N(fmt.Sprint(i))
		switch s.Body {
		case 0:
			mc.Body = Arr_(id, V("x"), V("y"))
		case 1:
			mc.Block = Blk(Pr(S("block"), id, V("x"), V("y")))
		case 2:
			mc.Body = CallE(V("t"), id, V("x"), V("y"))
		case 3:
			// other matches run while this body is being evaluated: one binds a new name, one shadows x; afterwards x and y are this case's again
			mc.Body = Arr_(id, V("x"),
				&MatchExpr{Subj: N("7"), Cases: []MatchCase{{Pats: []Expr{V("z")}, Body: Arr_(V("x"), V("z"))}}},
				&MatchExpr{Subj: Arr_(N("8"), N("9")), Cases: []MatchCase{{Pats: []Expr{Arr_(V("x"), V("z"))}, Body: Arr_(V("x"), V("y"), V("z"))}}},
				&MatchExpr{Subj: N("6"), Cases: []MatchCase{{Pats: []Expr{V("x")}, Body: V("x")}}},
				V("x"), V("y"))
		case 4:
			// a callee that matches (and recurses through a match) runs in the middle of the body
			mc.Body = Arr_(CallE(V("sum"), N("3")), V("x"), CallE(V("t2"), id), V("x"), V("y"))
		case 5:
			// a block body that is left by continue (by next when the match runs once per element): the case is over all the same
			var leave Stmt = &Continue{}
			if s.Subj < 0 {
				leave = &Next{}
			}
			mc.Block = Blk(Pr(S("block"), id, V("x"), V("y")), leave, Pr(S("never")))
		case 8:
			// the name _ is bound like any other name
			mc.Body = Arr_(id, &IsExpr{V("_"), "unknown"}, Bin("+", Bin("+", S("<"), V("_")), S(">")))
		case 7:
			// a block holding one expression statement is still a block: the match yields null
			mc.Block = Blk(Ex(Arr_(id, V("x"), V("y"))))
		case 6:
			// a name first created inside the body belongs to the case: afterwards it is unset again, whatever kind of pattern selected the case
			mc.Block = Blk(Ex(Asg("=", V("fresh"), Arr_(id, V("x")))), Ex(Asg("=", Mem(V("made"), "k"), id)), Pr(S("block"), V("fresh"), V("made")))
		}
		m.Cases = append(m.Cases, mc)
	}
	body := Blk(
		Ex(Asg("=", V("x"), S("ox"))), Ex(Asg("=", V("y"), S("oy"))),
		Ex(Asg("=", V("r"), m)),
		Pr(S("r"), V("r"), &IsExpr{V("r"), "null"}),
		Pr(S("after"), V("x"), V("y")),
	)
	if s.Body == 6 {
		body.Body = append(body.Body, Pr(S("left behind:"), &IsExpr{V("fresh"), "unknown"}, &IsExpr{V("made"), "unknown"}))
	}
	if s.Body == 5 && s.Subj >= 0 {
		// the match sits in a loop of two rounds; what follows the loop sees the outer x and y
		body = Blk(
			Ex(Asg("=", V("x"), S("ox"))), Ex(Asg("=", V("y"), S("oy"))),
			&ForIn{V: "round", Iter: Arr_(N("1"), N("2")), Body: Blk(Ex(Asg("=", V("r"), m)), Pr(S("r"), V("r"), &IsExpr{V("r"), "null"}), Pr(S("in loop"), V("x"), V("y")))},
			Pr(S("after"), V("x"), V("y")),
		)
	}
	if s.Subj < 0 {
		doc := c19StreamDoc
		if s.Rev {
			doc = c19StreamDocRev
		}
		rules := []*Rule{{Body: body}}
		if s.Body == 5 {
			rules = append(rules, &Rule{Body: Blk(Pr(S("second rule"), V("x"), V("y")))}, &Rule{Kind: "END", Body: Blk(Pr(S("end"), V("x"), V("y")))})
		}
		return &progCase{P: &Program{Funcs: []*Func{c19T, c19Sum, c19T2}, Rules: rules}, Files: []inFile{{"in.json", doc}}}
	}
	return &progCase{P: &Program{Funcs: []*Func{c19T, c19Sum, c19T2}, Rules: []*Rule{{Kind: "BEGIN", Body: body}}}}
}

func c19Check(c *fw.Ctx, s c19Spec, pats []c19Pat) *fw.Violation {
	pc := c19Build(s, pats)
	v, res, skipped := pc.check(c)
	if !skipped {
		c.Outcome(res.Kind)
	}
	return v
}

func init() {
	register(addTok(tokFramesC19, &fw.Prop{
		ID: "C19",
		Rule: "19 subjects (scalars of every kind, unset, arrays of several lengths and nestings, an object) x all case lists of <= 2 cases with <= 2 alternatives each and all lists of 3 single-alternative cases over the pattern alphabet x 9 body kinds (a body that reads the name _, a block of one expression statement (null), a block left by continue / next, a block that creates new names -- gone afterwards, expression using the bound names, block with a trace, tracing call, a body that runs three further matches -- new name, array pattern, shadowing -- before using the names again, a body that calls matching / recursing functions); " +
			"3 literals that cannot be evaluated (bad escape, 1.2.3) as a later case / alternative behind every pattern; every case list of <= 3 single-alternative cases is also run as ONE match site over the sequence of all subjects (forward and reversed); outer variables named like the pattern names exist, so leaking or clobbering a binding is visible; oracle: DESIGN.md 3.17 through the reference interpreter (selected case, bindings, value, and the trace shows that no later pattern or body ran); " +
			"a state is (subject, first-case pattern, selected?); non-trivial = (subject, pattern) pairs that match",
		Plan: func(t fw.Tier) int { return len(c19Patterns(t == fw.Thorough)) * len(c19Subjects) },
		Bound: func(t fw.Tier) string {
			return fmt.Sprintf("%d patterns, %d subjects, case lists as stated", len(c19Patterns(t == fw.Thorough)), len(c19Subjects))
		},
		Assumptions: []string{"reference interpreter mc/refsem; patterns with duplicate names, regex patterns and assignments to bound names are not generated (DESIGN.md 7.1); names first created in a case body are local to the case (C08: a finished match leaves nothing behind)"},
		Run: func(c *fw.Ctx, u int) {
			np := len(c19Patterns(c.Thorough()))
			pats := c19AllPatterns(c.Thorough()) // the last ones are the unevaluable literals: not part of the general product
			first, subj := u/len(c19Subjects), u%len(c19Subjects)
			// does the first pattern alone match this subject in the model?
			alone := c19Build(c19Spec{Subj: subj, Cases: [][]int{{first}}, Body: 0}, pats).model()
			sel := alone.Kind == "none" && len(alone.Stdout) > 0 && alone.Stdout[:4] == "r [0"
			c.State(fmt.Sprintf("%s ~ %s : %v/%s", c19Subjects[subj].name, pats[first].name, sel, alone.Kind))
			if sel {
				c.NonTrivial(c19Subjects[subj].name + " matches " + pats[first].name)
			}
			do := func(cases [][]int) {
				for body := 0; body < c19Bodies; body++ {
					if body >= 3 && !(len(cases) == 1 || (len(cases) == 2 && len(cases[0]) == 1 && len(cases[1]) == 1)) {
						continue // the two nesting bodies go with the short case lists
					}
					s := c19Spec{Subj: subj, Cases: cases, Body: body}
					c.Do(func() any { s.Text = c19Build(s, pats).source(); return s }, func() *fw.Violation { return c19Check(c, s, pats) })
				}
			}
			// thorough tier: the large pattern alphabet is only combined pairwise
			wide := np
			if c.Thorough() {
				wide = 16
			}
			// first case: {first} or {first, b}
			firsts := [][]int{{first}}
			for b := 0; b < wide; b++ {
				firsts = append(firsts, []int{first, b})
			}
			for _, fc := range firsts {
				do([][]int{fc})
				for a := 0; a < wide; a++ {
					do([][]int{fc, {a}})
					if len(fc) == 1 || a < 16 {
						for b := 0; b < wide && b < 16; b++ {
							do([][]int{fc, {a, b}})
						}
					}
				}
			}
			for bi := np; bi < len(pats); bi++ {
				do([][]int{{first}, {bi}})
				do([][]int{{first, bi}})
				do([][]int{{first}, {1, bi}})
				do([][]int{{bi}, {first}})
			}
			if c.Thorough() {
				// every pattern of the large alphabet as second alternative and as second case
				for b := 16; b < np; b++ {
					do([][]int{{first, b}})
					do([][]int{{first}, {b}})
					do([][]int{{b}, {first}})
				}
			}
			for a := 0; a < wide && a < 16; a++ {
				for b := 0; b < wide && b < 16; b++ {
					do([][]int{{first}, {a}, {b}})
				}
			}
			// the same match as ONE site over the sequence of all subjects (anything remembered per match expression would show)
			if subj == 0 {
				stream := func(cases [][]int) {
					for body := 0; body < c19Bodies; body++ {
						if body >= 3 && len(cases) > 2 {
							continue
						}
						for _, rev := range []bool{false, true} {
							s := c19Spec{Subj: -1, Rev: rev, Cases: cases, Body: body}
							c.Do(func() any { return s }, func() *fw.Violation { return c19Check(c, s, pats) })
						}
					}
				}
				stream([][]int{{first}})
				for a := 0; a < 16; a++ {
					stream([][]int{{first, a}})
					stream([][]int{{first}, {a}})
					for b := 0; b < 16; b++ {
						stream([][]int{{first}, {a}, {b}})
					}
				}
			}
		},
		Replay: func(c *fw.Ctx, raw json.RawMessage) *fw.Violation {
			var s c19Spec
			if !unmarshal(raw, &s) {
				return nil
			}
			return c19Check(c, s, c19AllPatterns(c.Thorough()))
		},
	}))
}
