package props

import (
	"encoding/base64"
	"encoding/json"
	"fmt"
	"go/ast"
	"go/parser"
	"go/token"
	"os"
	"os/exec"
	"path/filepath"
	"strconv"
	"strings"
	"time"

	"verif/mc/drive"
	"verif/mc/fw"
	. "verif/mc/refsem"

	lang "github.com/alligator/jqawk/src"
)

// C01: every run ends in success or one of three reported error kinds, never a crash.

var c01Tokens = []string{
	"BEGIN", "END", "BEGINFILE", "ENDFILE", "print", "function", "return", "if", "else", "for", "while", "in", "match", "break", "continue", "next", "exit", "null", "is", "true", "false",
	"{", "}", "[", "]", "(", ")", "<", ">", ",", ".", "=", "==", "!=", "<=", ">=", ":", ";", "+", "-", "*", "/", "+=", "-=", "*=", "/=", "~", "!~", "&&", "||", "=>", "!", "++", "--", "%",
	"x", "f", "$", "$index", "1", "1.5", "'a'", "\"a\"", "/a/", "\n", "#c\n",
}

// the sub-alphabet for the deeper search: still spells every rule kind, a function, loops, match, calls and all five signals
var c01Narrow = []string{"BEGIN", "END", "BEGINFILE", "{", "}", "(", ")", "function", "f", "x", "$", "=", "1", ",", ";", "match", "=>", "next", "exit", "return", "break", "continue", "for", "while", "in", "print", "\n"}

var c01Inputs = []struct {
	has  bool
	data string
}{{true, `[1,{"a":null}]`}, {true, `5`}, {true, `{}`}, {false, ""}, {true, `[`}}

type c01Spec struct {
	Form    string   `json:"form"` // tokens, text, cli
	Program string   `json:"program"`
	Input   int      `json:"input"`
	Data    string   `json:"data,omitempty"`
	Data64  string   `json:"data_base64,omitempty"` // input bytes that are not valid UTF-8 (a JSON string could not carry them to the replay)
	HasData bool     `json:"has_data,omitempty"`
	Fuzzing bool     `json:"fuzzing,omitempty"`
	Sels    []string `json:"selectors,omitempty"`
	Argv    []string `json:"argv,omitempty"`
}

// program text and input bytes need not be valid UTF-8 (the byte-string family, stray bytes): they travel as fw.Text
func (s c01Spec) MarshalJSON() ([]byte, error) {
	type plain c01Spec
	return json.Marshal(struct {
		plain
		Program fw.Text `json:"program"`
		Data    fw.Text `json:"data,omitempty"`
	}{plain(s), fw.Text(s.Program), fw.Text(s.Data)})
}

func (s *c01Spec) UnmarshalJSON(b []byte) error {
	type plain c01Spec
	aux := struct {
		*plain
		Program fw.Text `json:"program"`
		Data    fw.Text `json:"data,omitempty"`
	}{plain: (*plain)(s)}
	if err := json.Unmarshal(b, &aux); err != nil {
		return err
	}
	s.Program, s.Data = string(aux.Program), string(aux.Data)
	return nil
}

func c01Allowed(k drive.ErrKind) bool {
	switch k {
	case drive.KNone, drive.KSyntax, drive.KRuntime, drive.KJson, drive.KBudget:
		return true
	}
	return false
}

const c01Budget = 4000

// c01RunOne executes one run and checks the outcome class (and that serialising the root does not crash).
func c01RunOne(c *fw.Ctx, s c01Spec) *fw.Violation {
	sp := drive.Spec{Program: s.Program, Selectors: s.Sels, Fuzzing: s.Fuzzing, WantRoot: true, Budget: c01Budget}
	if s.Form == "text" {
		if s.Data64 != "" {
			b, _ := base64.StdEncoding.DecodeString(s.Data64)
			sp.Files = []drive.File{{Name: "in.json", Data: string(b)}}
		} else if s.HasData {
			sp.Files = []drive.File{{Name: "in.json", Data: s.Data}}
		}
	} else if in := c01Inputs[s.Input]; in.has {
		sp.Files = []drive.File{{Name: "in.json", Data: in.data}}
	}
	o := run(c, sp)
	c.Traces++
	c.Outcome(string(o.Kind))
	o.Ev = nil
	if !c01Allowed(o.Kind) {
		what := "the run ended in an internal panic"
		if o.Kind == drive.KOther {
			what = "an internal control-flow signal or foreign error surfaced to the caller: " + o.Msg
		}
		o.Stdout = clip(o.Stdout)
		return &fw.Violation{What: what, Detail: detail{Program: sp.Program, Files: sp.Files, Selectors: sp.Selectors, Got: o}}
	}
	if o.RootKind == drive.KPanic {
		return &fw.Violation{What: "serialising the root for -o panicked", Detail: detail{Program: sp.Program, Files: sp.Files, Selectors: sp.Selectors, Got: o}}
	}
	return nil
}

func c01Join(toks []string) string {
	var sb strings.Builder
	for _, t := range toks {
		sb.WriteString(t)
		sb.WriteByte(' ')
	}
	return sb.String()
}

// c01Node handles one live prefix: run it in every role. Returns whether it is live.
func c01Node(c *fw.Ctx, text string, inputs []int) bool {
	perr, end := lang.VerifParse(text)
	c.Transitions++
	if perr != nil && end < len(text) {
		return false // dead: the parser failed without asking for anything beyond this text
	}
	c.StatesN++
	if perr == nil {
		c.Note("prefixes that parse", 1)
		for _, in := range inputs {
			for _, fz := range []bool{true, false} {
				s := c01Spec{Form: "tokens", Program: text, Input: in, Fuzzing: fz}
				c.Do(func() any { return s }, func() *fw.Violation { return c01RunOne(c, s) })
			}
		}
	} else {
		// the syntax error itself must be one of the kinds
		s := c01Spec{Form: "tokens", Program: text, Input: 0}
		c.Do(func() any { return s }, func() *fw.Violation { return c01RunOne(c, s) })
	}
	s := c01Spec{Form: "tokens", Program: "{ print }", Input: 0, Sels: []string{text}}
	c.Do(func() any { return s }, func() *fw.Violation { return c01RunOne(c, s) })
	return true
}

func c01DFS(c *fw.Ctx, alpha []string, prefix []string, depth int, inputs []int) {
	text := c01Join(prefix)
	if !c01Node(c, text, inputs) {
		return
	}
	if len(prefix) >= depth || c.Expired() {
		return
	}
	for _, t := range alpha {
		c01DFS(c, alpha, append(prefix, t), depth, inputs)
	}
}

// ----- (b) signal placement matrix -----

var c01Lvl int

var c01Signals = []string{"next", "exit", "return", "return 1", "break", "continue"}

// loop wrappers take the nesting level so that nested loops use distinct counters (a shared counter loops forever)
var c01StmtWraps = []func(string) string{
	func(s string) string { return s },
	func(s string) string { return "{ " + s + " }" },
	func(s string) string { return "if (1) { " + s + " }" },
	func(s string) string {
		c01Lvl++
		return fmt.Sprintf("for (i%d = 0; i%d < 2; i%d++) { %s }", c01Lvl, c01Lvl, c01Lvl, s)
	},
	func(s string) string { c01Lvl++; return fmt.Sprintf("for (v%d in [1, 2]) { %s }", c01Lvl, s) },
	func(s string) string {
		c01Lvl++
		return fmt.Sprintf("for (w%d = 0; w%d++ < 2; w%d = w%d) { %s }", c01Lvl, c01Lvl, c01Lvl, c01Lvl, s)
	},
	func(s string) string { return "match (1) { _ => { " + s + " } }" },
	func(s string) string { return "y = match (1) { 2 => 0, _ => { " + s + " } }" },
}

// rule-level placements: body text -> program, selectors
var c01Places = []func(body string) (string, []string){
	func(b string) (string, []string) { return "BEGIN { " + b + " }\n{ print }", nil },
	func(b string) (string, []string) { return "{ print }\nEND { " + b + " }", nil },
	func(b string) (string, []string) { return "BEGINFILE { " + b + " }\n{ print }", nil },
	func(b string) (string, []string) { return "{ print }\nENDFILE { " + b + " }", nil },
	func(b string) (string, []string) { return "{ print \"a\"; " + b + "; print \"b\" }\n{ print }", nil },
	func(b string) (string, []string) {
		return "match ($) { _ => { " + b + " } } { print \"body\" }\n{ print }", nil
	},
	func(b string) (string, []string) { return "{ print }", []string{"match ($) { _ => { " + b + " } }"} },
	func(b string) (string, []string) {
		return "{ print }", []string{"$", "match (1) { _ => { " + b + " } }"}
	},
}

func c01Matrix(c *fw.Ctx, part, parts int, viaCLI bool) {
	n := 0
	for _, sig := range c01Signals {
		for pi, place := range c01Places {
			for _, inFunc := range []bool{false, true} {
				for w1 := range c01StmtWraps {
					for w2 := range c01StmtWraps {
						if w1 != 0 && w2 == 0 {
							continue // one wrapper only is (w1=0, w2)
						}
						n++
						if n%parts != part {
							continue
						}
						c01Lvl = 0
						body := c01StmtWraps[w1](c01StmtWraps[w2](sig))
						pre := ""
						if inFunc {
							pre = "function f() { " + body + " }\n"
							body = "f()"
						}
						prog, sels := place(body)
						prog = pre + prog
						c.State(fmt.Sprintf("%s in place %d func=%v", sig, pi, inFunc))
						for _, in := range []int{0, 1, 3} {
							if viaCLI {
								if in != 0 {
									continue
								}
								s := c01Spec{Form: "cli", Program: prog, Sels: sels, Input: in}
								c.Do(func() any { return s }, func() *fw.Violation { return c01CLI(c, s) })
								continue
							}
							s := c01Spec{Form: "tokens", Program: prog, Sels: sels, Input: in}
							c.Do(func() any { return s }, func() *fw.Violation { return c01RunOne(c, s) })
						}
					}
				}
			}
		}
	}
}

// c01SlotSignals: a statement can sit in any expression position through a match block, so every signal is also
// placed in every expression slot of the C11 slot list (loop headers, call arguments, indices, conditions, patterns,
// selectors ...), directly and with the rule bodies wrapped in an enclosing loop.
func c01SlotSignals(c *fw.Ctx) {
	sigs := []struct {
		name string
		st   func() Stmt
	}{
		{"next", func() Stmt { return &Next{} }}, {"exit", func() Stmt { return &Exit{} }}, {"break", func() Stmt { return &Break{} }},
		{"continue", func() Stmt { return &Continue{} }}, {"return", func() Stmt { return &Return{X: N("1")} }},
	}
	for _, sg := range sigs {
		for si, sl := range c11Slots() {
			for _, wrap := range []bool{false, true} {
				e := func() Expr {
					return &MatchExpr{Subj: N("1"), Cases: []MatchCase{{Pats: []Expr{V("_")}, Block: Blk(sg.st())}}}
				}
				rules, funcs, sels := sl.mk(e)
				if wrap {
					for _, r := range rules {
						if r.Body != nil {
							r.Body = Blk(&ForIn{V: "outer", Iter: Arr_(N("1"), N("2")), Body: r.Body})
						}
					}
				}
				prog := Source(&Program{Funcs: append(c11Funcs(), funcs...), Rules: rules}, Style{})
				var ss []string
				for _, x := range sels {
					ss = append(ss, ExprSource(x, Style{}))
				}
				c.State(fmt.Sprintf("%s in slot %d (%s) loop=%v", sg.name, si, sl.name, wrap))
				for _, in := range []int{0, 1} {
					s := c01Spec{Form: "tokens", Program: prog, Sels: ss, Input: in}
					c.Do(func() any { return s }, func() *fw.Violation { return c01RunOne(c, s) })
				}
			}
		}
	}
}

// c01Hazards: programs outside what the model defines but inside C01's "no crash" claim: loops whose body changes the
// very container being iterated, and prototype method cells obtained without a receiver (through pluck) and called.
func c01Hazards(c *fw.Ctx) {
	muts := []string{"x.pop()", "x.popfirst()", "x.push(9)", "x[0] = 7", "x[9] = 1", "x = []", "x = 5", "x.k = 1", "$.q.pop()", "$.q = null", "x.sort().pop()"}
	heads := []string{"for (v in x)", "for (v, i in x)", "for (v in $.q)", "for (i = 0; i < x.length(); i++)", "while (x.length() > 0 && n++ < 9)"}
	inits := []string{"x = $.q", "x = [1, 2, 3, 4]", "x = {a: 1, b: 2, c: 3}", "x = \"abcd\""}
	for _, in := range inits {
		for _, h := range heads {
			for _, m1 := range muts {
				for _, m2 := range append([]string{""}, muts[:4]...) {
					prog := "{ " + in + "; " + h + " { print v; " + m1 + "; " + m2 + " } print x, $ }"
					s := c01Spec{Form: "text", Program: prog, Data: `{"q":[1,2,3,4]}`, HasData: true, Fuzzing: true}
					c.Do(func() any { return s }, func() *fw.Violation { return c01RunOne(c, s) })
				}
			}
		}
	}
	c.State("loops that mutate their iterable")
	args := []string{"", "1", "\"a\"", "\"a\", \"b\"", "[1]", "null", "$", "\"pluck\""}
	for _, recv := range []string{"$", "{a: 1}", "[1, 2]", "\"str\"", "(5)"} {
		for _, m := range []string{"length", "pluck", "push", "pop", "popfirst", "contains", "sort", "split", "lower", "upper", "floor", "ceil", "round", "nosuch"} {
			for _, a := range args {
				progs := []string{
					"{ for (k, v in " + recv + ".pluck(\"" + m + "\")) { r = v(" + a + "); print r } }",
					"{ o = " + recv + ".pluck(\"" + m + "\", \"x\"); for (k, v in o) { print k; r = v(" + a + ") } print o }",
					"{ match (" + recv + "." + m + ") { f => f(" + a + ") } }",
					"function g() { return " + recv + "." + m + " } { r = g()(" + a + "); print r }",
				}
				for _, prog := range progs {
					s := c01Spec{Form: "text", Program: prog, Data: `{"a":1,"length":2}`, HasData: true, Fuzzing: true}
					c.Do(func() any { return s }, func() *fw.Violation { return c01RunOne(c, s) })
				}
			}
		}
	}
	c.State("method cells called without a fresh lookup")
	// the variable a method was looked up on is assigned something else before the call happens: inside the argument list,
	// in a match body that holds the method, in a callee
	recvs := []struct{ name, init string }{{"a", "a = [3, 1, 2]"}, {"o", "o = {k: 1, j: 2}"}, {"s", "s = \"a,b\""}, {"n", "n = 2.5"}, {"d", "d = $"}, {"e", "e = $.q"}}
	news := []string{"5", "\"str\"", "null", "[7]", "{z: 1}", "$.nope", "/re/"}
	for _, r := range recvs {
		for _, m := range []string{"length", "pluck", "push", "pop", "popfirst", "contains", "sort", "split", "lower", "upper", "floor", "ceil", "round"} {
			for _, nv := range news {
				x := r.name
				progs := []string{
					"{ " + r.init + "; b = " + x + "; r = " + x + "." + m + "(" + x + " = " + nv + "); print r, " + x + ", b }",
					"{ " + r.init + "; b = " + x + "; r = " + x + "." + m + "(1, " + x + " = " + nv + "); print r, " + x + ", b }",
					"{ " + r.init + "; r = match (" + x + "." + m + ") { f => { " + x + " = " + nv + "; f(1) } }; print r, " + x + " }",
					"{ " + r.init + "; r = match (" + x + "." + m + ") { f => match (" + x + " = " + nv + ") { _ => f() } }; print r, " + x + " }",
					"function set() { " + x + " = " + nv + "; return 1 } { " + r.init + "; r = " + x + "." + m + "(set()); print r, " + x + " }",
					"{ " + r.init + "; for (k, f in " + x + ".pluck(\"" + m + "\")) { " + x + " = " + nv + "; r = f(1); print r } }",
				}
				for _, prog := range progs {
					s := c01Spec{Form: "text", Program: prog, Data: `{"q":[1,2],"k":"v"}`, HasData: true, Fuzzing: true}
					c.Do(func() any { return s }, func() *fw.Violation { return c01RunOne(c, s) })
				}
			}
		}
	}
	c.State("receiver variables assigned between method lookup and call")
	// built-ins and methods on text that is not ASCII, empty, or very long: every printf format of <= 4 symbols, split / case
	// mapping / indexing / for-in with such strings
	syms := []string{"%", "s", "f", "v", "-", "0", "3", "9", "x"}
	texts := []string{"\"äö\"", "\"é\"", "\"\"", "\"日本語\"", "\"a\\tb\"", "\"\xff\xfe\""}
	var fmts []string
	var rec func(cur string, n int)
	rec = func(cur string, n int) {
		fmts = append(fmts, cur)
		if n == 4 {
			return
		}
		for _, sy := range syms {
			rec(cur+sy, n+1)
		}
	}
	rec("", 0)
	for _, f := range fmts {
		for _, t := range texts {
			prog := "BEGIN { printf(\"" + f + "\", " + t + ", " + t + ", 1.5) }"
			s := c01Spec{Form: "text", Program: prog, Fuzzing: true}
			c.Do(func() any { return s }, func() *fw.Violation { return c01RunOne(c, s) })
		}
	}
	for _, t := range texts {
		for _, u := range texts {
			for _, body := range []string{"print T.split(U), T.upper(), T.lower(), T.length()", "print T[0], T[1], T[-1], T[9]", "for (ch, off in T) { print ch, off, T[off] }", "print T ~ U, T + U, T < U, num(T), json(T)", "o = {}; o[T] = U; print o, o[T], o.pluck(T, U)", "print match (T) { U => 1, v => v }"} {
				prog := "BEGIN { " + strings.ReplaceAll(strings.ReplaceAll(body, "T", t), "U", u) + " }"
				s := c01Spec{Form: "text", Program: prog, Fuzzing: true}
				c.Do(func() any { return s }, func() *fw.Violation { return c01RunOne(c, s) })
			}
		}
	}
	c.State("built-ins on text that is not ASCII")
	// indices at and beyond the edges of every integer type, read and written, on arrays, strings and objects, literal and from the input
	idx := []string{"10000000000000000000", "-10000000000000000000", "9223372036854775807", "-9223372036854775808", "9223372036854775808", "4294967296", "-4294967296", "2147483648", "-2147483649", "1e308", "-1e308", "0.5", "-0.5", "$.big", "-$.big", "num(\"inf\")", "(-num(\"inf\"))", "num(\"nan\")"}
	for _, i := range idx {
		i = strings.ReplaceAll(strings.ReplaceAll(i, "1e308", "$.huge"), "-$.huge", "(-$.huge)")
		for _, base := range []string{"a", "s", "o", "$.a", "e"} {
			for _, body := range []string{"print B[I]", "B[I] = 1; print B", "B[I]++; print B", "print B[I][I]", "B[I].k = 2; print B", "B.push(B[I]); print B", "x = B[I]; x = 5; print B, x"} {
				prog := "{ a = [1, 2, 3]; s = \"abc\"; o = {k: 1}; " + strings.ReplaceAll(strings.ReplaceAll(body, "B", base), "I", i) + " }"
				s := c01Spec{Form: "text", Program: prog, Data: `{"a":[1,2,3],"big":1e19,"huge":1e308}`, HasData: true, Fuzzing: true}
				c.Do(func() any { return s }, func() *fw.Violation { return c01RunOne(c, s) })
			}
		}
	}
	c.State("indices beyond every integer type")
	// input bytes: every string of <= 3 bytes over marks, brackets, quotes, digits, blanks and NUL, alone and before a document, as first and as second input
	bytesAlpha := []string{"\xef", "\xbb", "\xbf", "\xfe", "\xff", "[", "]", "1", "\"", " ", "\x00", "{", "-"}
	var inputs []string
	var recIn func(cur string, n int)
	recIn = func(cur string, n int) {
		inputs = append(inputs, cur, cur+"[1,2]")
		if n == 3 {
			return
		}
		for _, b := range bytesAlpha {
			recIn(cur+b, n+1)
		}
	}
	recIn("", 0)
	for _, in := range inputs {
		for _, prog := range []string{"{ print }", "BEGINFILE { print $file, $ } END { print \"end\" }"} {
			s := c01Spec{Form: "text", Program: prog, Data64: base64.StdEncoding.EncodeToString([]byte(in)), HasData: true, Fuzzing: true}
			c.Do(func() any { return s }, func() *fw.Violation { return c01RunOne(c, s) })
		}
	}
	c.State("inputs of a few odd bytes")
	// function values where a value is expected: stored, compared, sorted, serialised, iterated, called after being moved
	fns := []string{"num", "json", "printf", "f", "a.push", "s.split", "o.pluck", "n.floor"}
	uses := []string{"a.push(FN); print a.sort(), a", "a.push(FN); print a.contains(1), a.contains(FN), a.pop()", "o.k = FN; print o, json(o), o.pluck(\"k\")", "x = FN; print x(\"1\")", "print [FN, FN].sort(), [FN].length()",
		"print FN + 1, FN < 2, FN == FN, FN ~ \"a\", !FN, -FN", "print match (FN) { 1 => 1, g => g(\"2\") }", "for (v in FN) { print v } for (k, v in [FN]) { print k }", "print FN.length(), FN[0], FN.k", "printf(\"%v %s\\n\", FN, FN)",
		"function g(p) { return p } print g(FN), g(FN)(\"3\")", "a[5] = FN; a[FN] = 1; o[FN] = 2; print a, o", "$ = FN; print $", "print s.split(FN), num(FN), json([FN])", "x = [FN]; y = x.sort(); y.push(FN); print y.sort()"}
	for _, fn := range fns {
		for _, use := range uses {
			prog := "function f(v) { return v } { a = [3, 1]; o = {j: 1}; s = \"a,b\"; n = 2.5; " + strings.ReplaceAll(use, "FN", fn) + " }"
			s := c01Spec{Form: "text", Program: prog, Data: `[1]`, HasData: true, Fuzzing: true}
			c.Do(func() any { return s }, func() *fw.Violation { return c01RunOne(c, s) })
		}
	}
	c.State("function values where a value is expected")
}

func c01CLI(c *fw.Ctx, s c01Spec) *fw.Violation {
	var argv []string
	for _, e := range s.Sels {
		argv = append(argv, "-r", e)
	}
	argv = append(argv, "-o", "-", s.Program)
	cmd := exec.Command(fw.JqawkBin(), argv...)
	data := s.Data
	if s.Form == "cli" && !s.HasData && c01Inputs[s.Input].has {
		data = c01Inputs[s.Input].data
	}
	sos, ses, exit, timedOut := runChild(c, cmd, data, 20*time.Second)
	c.Evals++
	c.Traces++
	if timedOut {
		return nil // no step budget exists in the binary: a program that loops forever is not a crash
	}
	so, se := strings.NewReader(sos), strings.NewReader(ses)
	_, _ = so, se
	bad := ""
	for _, m := range []string{"panic:", "goroutine ", "fatal error", "SIGSEGV"} {
		if strings.Contains(ses, m) {
			bad = "the binary ended in a Go stack trace"
		}
	}
	if bad == "" && (exit < 0 || exit > 2) {
		bad = "the binary did not exit by itself with status 0 or a small non-zero status"
	}
	if bad == "" && exit != 0 && strings.TrimSpace(ses) == "" {
		bad = "non-zero exit status without a diagnostic"
	}
	if bad == "" {
		return nil
	}
	return &fw.Violation{What: bad, Detail: map[string]any{"argv": argv, "stdin": data, "exit": exit, "stderr": clip(ses), "stdout": clip(sos)}}
}

// ----- (c) bytes and edit neighbourhoods -----

var c01Bytes = []byte{'\'', '"', '\\', '$', '/', '#', '\n', '\r', 0, 0x80, 0xC3, 0xA9, 0xFF, '0', '1', '9', '.', 'a', 'e', 'x', '_', 'E', ' ', '\t',
	'{', '}', '[', ']', '(', ')', '<', '>', ',', '=', '!', ':', ';', '+', '-', '*', '%', '~', '&', '|', '@', '?', 'n', 't'}

func c01ByteStrings(c *fw.Ctx, first int, maxLen int) {
	buf := []byte{c01Bytes[first]}
	var rec func()
	rec = func() {
		text := string(buf)
		for role := 0; role < 3; role++ {
			var s c01Spec
			switch role {
			case 0:
				s = c01Spec{Form: "text", Program: text, Data: `[1,{"a":2}]`, HasData: true, Fuzzing: true}
			case 1:
				s = c01Spec{Form: "text", Program: "{ print }", Sels: []string{text}, Data: `[1,{"a":2}]`, HasData: true, Fuzzing: true}
			case 2:
				s = c01Spec{Form: "text", Program: "{ print } END { print \"e\" }", Data: text, HasData: true}
			}
			c.Do(func() any { return s }, func() *fw.Violation { return c01RunOne(c, s) })
		}
		c.StatesN++
		if len(buf) == maxLen {
			return
		}
		for _, b := range c01Bytes {
			buf = append(buf, b)
			rec()
			buf = buf[:len(buf)-1]
		}
	}
	rec()
}

type c01Corpus struct{ prog, json string }

// the programs and inputs of the repository's own test table, read with go/parser
func c01LoadCorpus() []c01Corpus {
	repo := os.Getenv("VERIF_REPO")
	if repo == "" {
		repo = "/repo"
	}
	fset := token.NewFileSet()
	af, err := parser.ParseFile(fset, filepath.Join(repo, "jqawk_test.go"), nil, 0)
	if err != nil {
		return nil
	}
	var out []c01Corpus
	ast.Inspect(af, func(n ast.Node) bool {
		cl, ok := n.(*ast.CompositeLit)
		if !ok {
			return true
		}
		var e c01Corpus
		found := false
		for _, el := range cl.Elts {
			kv, ok := el.(*ast.KeyValueExpr)
			if !ok {
				continue
			}
			k, ok := kv.Key.(*ast.Ident)
			bl, ok2 := kv.Value.(*ast.BasicLit)
			if !ok || !ok2 || bl.Kind != token.STRING {
				continue
			}
			v, err := strconv.Unquote(bl.Value)
			if err != nil {
				continue
			}
			switch k.Name {
			case "prog":
				e.prog, found = v, true
			case "json":
				e.json = v
			}
		}
		if found {
			out = append(out, e)
		}
		return true
	})
	return out
}

func c01Edits(c *fw.Ctx, e c01Corpus, bytesUsed []byte) {
	doProg := func(text string) {
		s := c01Spec{Form: "text", Program: text, Data: e.json, HasData: e.json != "", Fuzzing: true}
		c.Do(func() any { return s }, func() *fw.Violation { return c01RunOne(c, s) })
	}
	doJSON := func(data string) {
		s := c01Spec{Form: "text", Program: e.prog, Data: data, HasData: true, Fuzzing: true}
		c.Do(func() any { return s }, func() *fw.Violation { return c01RunOne(c, s) })
	}
	edit := func(text string, f func(string)) {
		for i := 0; i <= len(text); i++ {
			if i < len(text) {
				f(text[:i] + text[i+1:]) // delete
			}
			for _, b := range bytesUsed {
				f(text[:i] + string([]byte{b}) + text[i:]) // insert
				if i < len(text) && text[i] != b {
					f(text[:i] + string([]byte{b}) + text[i+1:]) // replace
				}
			}
		}
	}
	doProg(e.prog)
	edit(e.prog, doProg)
	if e.json != "" && len(e.json) <= 200 {
		edit(e.json, doJSON)
	}
}

// ----- (d) deep nesting in a child process -----

type c01Deep struct {
	name  string
	open  string
	mid   string
	close string
	wrap  func(expr string) string // expression -> program ("" = the text is a program already)
}

var c01Deeps = []c01Deep{
	{"(", "(", "1", ")", nil}, {"[", "[", "1", "]", nil}, {"-", "- ", "1", "", nil}, {"!", "!", "1", "", nil},
	{"a.", "a.", "a", "", nil}, {"f(", "f(", "1", ")", nil}, {"x=", "x=", "1", "", nil}, {"1+", "1+", "1", "", nil}, {"{k:", "{k:", "1", "}", nil},
	{"match", "match(1){1=>", "1", "}", nil}, {"x[", "x[", "1", "]", nil},
}

func c01DeepCase(c *fw.Ctx, d c01Deep, n int, closed bool, asSelector bool, stmt string) *fw.Violation {
	var expr string
	if stmt != "" {
		// statement nesting: { { { ... } } }  /  if(1) if(1) ... x
		expr = strings.Repeat(d.open, n) + d.mid
		if closed {
			expr += strings.Repeat(d.close, n)
		}
	} else {
		expr = strings.Repeat(d.open, n) + d.mid
		if closed {
			expr += strings.Repeat(d.close, n)
		}
	}
	prog := "function f(v) { return v }\nBEGIN { r = " + expr + " }"
	var sels []string
	if stmt != "" {
		prog = "BEGIN " + expr
	}
	if asSelector {
		prog = "{ print 1 }"
		sels = []string{expr}
	}
	dir := filepath.Join(fw.WorkDir(), fmt.Sprintf("c01-%d", os.Getpid()))
	os.MkdirAll(dir, 0o755)
	defer os.RemoveAll(dir)
	pf := filepath.Join(dir, "p.jqawk")
	os.WriteFile(pf, []byte(prog), 0o644)
	argv := []string{"-c", `ulimit -v 8000000; exec "$@"`, "sh", fw.JqawkBin()}
	for _, s := range sels {
		argv = append(argv, "-r", s)
	}
	argv = append(argv, "-f", pf)
	cmd := exec.Command("/bin/sh", argv...)
	_, ses, exit, timedOut := runChild(c, cmd, "[1]", 120*time.Second)
	c.Evals++
	c.Traces++
	c.Transitions++
	if timedOut {
		return nil
	}
	bad := ""
	for _, m := range []string{"panic:", "goroutine ", "fatal error", "SIGSEGV"} {
		if strings.Contains(ses, m) {
			bad = "deep nesting ended in a Go stack trace"
		}
	}
	if bad == "" && (exit < 0 || exit > 2) {
		bad = "deep nesting: the binary did not exit by itself"
	}
	if bad == "" && exit != 0 && strings.TrimSpace(ses) == "" {
		bad = "deep nesting: non-zero exit without a diagnostic"
	}
	if bad == "" {
		c.Outcome(fmt.Sprintf("deep exit=%d", exit))
		return nil
	}
	return &fw.Violation{What: bad, Detail: map[string]any{"shape": d.name, "n": n, "closed": closed, "as selector": asSelector, "bytes": len(expr), "exit": exit, "stderr": clip(ses)}}
}

type c01DeepSpec struct {
	Form     string `json:"form"`
	Shape    int    `json:"shape"`
	N        int    `json:"n"`
	Closed   bool   `json:"closed"`
	Selector bool   `json:"selector"`
	Stmt     bool   `json:"stmt"`
}

var c01StmtDeeps = []c01Deep{{"{", "{ ", "x = 1 ", "} ", nil}, {"if(1)", "{ if(1) ", "x = 1 }", "", nil}, {"while", "{ while(0) ", "x = 1 }", "", nil}}

func c01DeepAll(c *fw.Ctx) {
	for si, d := range c01Deeps {
		max := 65000 / len(d.open)
		for _, n := range []int{1, 10, 100, 1000, 10000, max} {
			if n > max {
				continue
			}
			for _, closed := range []bool{true, false} {
				for _, sel := range []bool{false, true} {
					s := c01DeepSpec{"deep", si, n, closed, sel, false}
					c.Do(func() any { return s }, func() *fw.Violation { return c01DeepCase(c, d, s.N, s.Closed, s.Selector, "") })
					c.State("deep " + d.name)
				}
			}
		}
	}
	for si, d := range c01StmtDeeps {
		max := 65000 / len(d.open)
		for _, n := range []int{1, 100, 10000, max} {
			for _, closed := range []bool{true, false} {
				if d.close == "" && !closed {
					continue
				}
				s := c01DeepSpec{"deep", si, n, closed, false, true}
				nn := n
				if d.name != "{" {
					// "{ if(1) if(1) ... x = 1 }": one opening brace, n headers
					dd := c01Deep{d.name, strings.TrimPrefix(d.open, "{ "), d.mid, "", nil}
					c.Do(func() any { return s }, func() *fw.Violation {
						return c01DeepCase(c, c01Deep{dd.name, "", "{ " + strings.Repeat(dd.open, nn) + dd.mid, "", nil}, 0, true, false, "stmt")
					})
					continue
				}
				c.Do(func() any { return s }, func() *fw.Violation { return c01DeepCase(c, d, s.N, s.Closed, false, "stmt") })
			}
		}
	}
}

func init() {
	nt := len(c01Tokens)
	nn := len(c01Narrow)
	nb := len(c01Bytes)
	var corpus []c01Corpus
	load := func() {
		if corpus == nil {
			corpus = c01LoadCorpus()
		}
	}
	const matrixParts = 16
	depth := func(t fw.Tier) (full, narrow, bytesLen int) {
		if t == fw.Thorough {
			return 5, 7, 4
		}
		return 4, 6, 3
	}
	register(&fw.Prop{
		ID: "C01",
		Rule: "(a) depth-first search over token sequences (66 spellings: every keyword, operator and punctuation mark, identifiers, $-names, literals, newline, a comment) with exact dead-prefix pruning through the parse hook: a prefix is dead when the parser fails without having asked for a token beyond it, so no extension can differ; " +
			"every live prefix that parses is run on 5 inputs (array, scalar, object, none, truncated) with the loop limit on and off and its root serialised, every live prefix is also used as a -r selector; a deeper search over a 27-spelling sub-alphabet that still spells every rule kind, functions, loops, match and all five signals; " +
			"(b) the signal placement matrix {next, exit, return, return 1, break, continue} x 8 rule-level places (BEGIN, END, BEGINFILE, ENDFILE, pattern rule, pattern expression, selector, second selector) x directly / in a called function x two nested statement contexts out of 8 x 3 inputs, in-process and through the real binary; " +
			"(c) all byte strings up to a length over 48 bytes (quotes, backslash, NUL, CR, stray UTF-8 bytes, every operator byte) as program, selector and JSON input, and the complete 1-edit neighbourhood (insert / replace / delete x those bytes x every offset) of every program and input of the repository's test table; " +
			"(c') loops whose body mutates the container they iterate (pop / popfirst / push / stores / rebinding, through the name or an alias) and prototype method cells obtained through pluck, match bindings or return values and then called; (d) 11 expression and 3 statement nesting shapes repeated up to 64 KiB, closed and unclosed, as program and selector, on the real binary under ulimit; oracle: success, SyntaxError, RuntimeError or JsonError, no panic, no other error value, no stack trace; states = live prefixes / byte strings; non-trivial = signal placements",
		Plan: func(t fw.Tier) int { return nt*nt + nn*nn + 2*matrixParts + nb + 64 + 1 },
		Bound: func(t fw.Tier) string {
			f, n, b := depth(t)
			return fmt.Sprintf("token depth %d over 66 spellings, depth %d over 27; bytes <= %d; all 1-edits of the test corpus; nesting to 64 KiB", f, n, b)
		},
		Assumptions: []string{"hook VerifParse reports the parse error and the lexer's final offset (pruning argument in DESIGN.md C01)", "a run cut by the harness's own step budget is inconclusive, not a violation", "go/parser reads jqawk_test.go for the corpus"},
		Run: func(c *fw.Ctx, u int) {
			full, narrow, bl := depth(c.Tier)
			switch {
			case u < nt*nt:
				a, b := u/nt, u%nt
				if b == 0 {
					c01Node(c, c01Join([]string{c01Tokens[a]}), []int{0, 1, 2, 3, 4})
					if a == 0 {
						c01Node(c, "", []int{0, 1, 2, 3, 4})
					}
				}
				// the two-token prefix is only expanded when its one-token prefix is live
				if perr, end := lang.VerifParse(c01Join([]string{c01Tokens[a]})); perr != nil && end < len(c01Tokens[a])+1 {
					return
				}
				c01DFS(c, c01Tokens, []string{c01Tokens[a], c01Tokens[b]}, full, []int{0, 1, 2, 3, 4})
			case u < nt*nt+nn*nn:
				u -= nt * nt
				a, b := u/nn, u%nn
				if perr, end := lang.VerifParse(c01Join([]string{c01Narrow[a]})); perr != nil && end < len(c01Narrow[a])+1 {
					return
				}
				c01DFS(c, c01Narrow, []string{c01Narrow[a], c01Narrow[b]}, narrow, []int{0, 3})
			case u < nt*nt+nn*nn+2*matrixParts:
				u -= nt*nt + nn*nn
				c01Matrix(c, u%matrixParts, matrixParts, u >= matrixParts)
			case u < nt*nt+nn*nn+2*matrixParts+nb:
				c01ByteStrings(c, u-(nt*nt+nn*nn+2*matrixParts), bl)
			case u < nt*nt+nn*nn+2*matrixParts+nb+64:
				load()
				part := u - (nt*nt + nn*nn + 2*matrixParts + nb)
				used := c01Bytes
				if !c.Thorough() {
					used = c01Bytes[:24]
				}
				for i, e := range corpus {
					if i%64 == part {
						c01Edits(c, e, used)
					}
				}
				c.Note("corpus programs", int64(len(corpus)))
			default:
				c01SlotSignals(c)
				c01Hazards(c)
				c01DeepAll(c)
			}
		},
		Finish: func(c *fw.Ctx) {
			for s := range c.States {
				c.NonTrivial(s)
			}
		},
		Replay: func(c *fw.Ctx, raw json.RawMessage) *fw.Violation {
			var probe struct {
				Form string `json:"form"`
			}
			json.Unmarshal(raw, &probe)
			if probe.Form == "deep" {
				var s c01DeepSpec
				json.Unmarshal(raw, &s)
				if s.Stmt {
					d := c01StmtDeeps[s.Shape]
					if d.name != "{" {
						open := strings.TrimPrefix(d.open, "{ ")
						return c01DeepCase(c, c01Deep{d.name, "", "{ " + strings.Repeat(open, s.N) + d.mid, "", nil}, 0, true, false, "stmt")
					}
					return c01DeepCase(c, d, s.N, s.Closed, false, "stmt")
				}
				return c01DeepCase(c, c01Deeps[s.Shape], s.N, s.Closed, s.Selector, "")
			}
			var s c01Spec
			if !unmarshal(raw, &s) {
				return nil
			}
			if s.Form == "cli" {
				return c01CLI(c, s)
			}
			return c01RunOne(c, s)
		},
	})
}
