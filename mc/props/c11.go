package props

import (
	"encoding/json"
	"fmt"
	"strings"

	"verif/mc/drive"
	"verif/mc/fw"
	. "verif/mc/refsem"

	lang "github.com/alligator/jqawk/src"
)

// C11: syntax errors pre-empt all execution; runtime faults stop the run at the fault.

type c11Fault struct {
	name   string
	mk     func() Expr
	benign bool
}

func c11Faults() []c11Fault {
	return []c11Fault{
		{"1/0", func() Expr { return Bin("/", N("1"), N("0")) }, false},
		{"1%0", func() Expr { return Bin("%", N("1"), N("0")) }, false},
		{"call a number", func() Expr { return CallE(N("5"), N("1")) }, false},
		{"call null", func() Expr { return CallE(&NullLit{}) }, false},
		{"call unset", func() Expr { return CallE(V("nofn")) }, false},
		{"invalid regex", func() Expr { return Bin("~", S("a"), S("(")) }, false},
		{"compare a container", func() Expr { return Bin("<", Arr_(N("1")), N("2")) }, false},
		{"$nope", func() Expr { return V("$nope") }, false},
		{"bad escape", func() Expr { return &RawStrLit{Raw: `a\qb`} }, false},
		{"printf missing argument", func() Expr { return CallE(V("printf"), S("%s")) }, false},
		{"printf wrong kind", func() Expr { return CallE(V("printf"), S("x%sy"), N("1")) }, false},
		{"printf unknown code", func() Expr { return CallE(V("printf"), S("%d"), N("1")) }, false},
		{"printf dangling %", func() Expr { return CallE(V("printf"), S("abc%")) }, false},
		{"member store on a number", func() Expr { return Asg("=", Mem(V("numv"), "k"), N("1")) }, false},
		{"string key on an array", func() Expr { return Asg("=", Idx(V("arrv"), S("k")), N("1")) }, false},
		{"negative index off the front", func() Expr { return Idx(V("arrv"), Un("-", N("9"))) }, false},
		{"object key of container kind", func() Expr { return Idx(V("objv"), Arr_(N("1"))) }, false},
		{"for-in over a number", func() Expr { return CallE(V("itnum")) }, false},
		{"unsupported match pattern", func() Expr {
			return &MatchExpr{Subj: N("1"), Cases: []MatchCase{{Pats: []Expr{Un("-", N("1"))}, Body: N("2")}}}
		}, false},
		{"runaway recursion", func() Expr { return CallE(V("rec")) }, false},
		{"1.2.3", func() Expr { return N("1.2.3") }, false},
		{"wrong argument count", func() Expr { return CallE(Mem(V("arrv"), "push")) }, false},
		{"split by a number", func() Expr { return CallE(Mem(S("a"), "split"), N("1")) }, false},
		{"index too large", func() Expr { return Asg("=", Idx(V("arrv"), N("2000000")), N("1")) }, false},
		{"store on null member", func() Expr { return Asg("=", Mem(Mem(V("objv"), "nul"), "k"), N("1")) }, false},
		{"++ on a number's member", func() Expr { return &Postfix{"++", Mem(V("numv"), "k")} }, false},
		{"copy a function", func() Expr { return Arr_(V("printf")) }, false},
		{"json of a cycle", func() Expr { return CallE(V("json"), V("cyc")) }, false},
		{"fault inside a nested array pattern", func() Expr {
			return &MatchExpr{Subj: Arr_(Arr_(N("1")), N("2")), Cases: []MatchCase{{Pats: []Expr{Arr_(N("1"), N("2"))}, Body: S("pair")}, {Pats: []Expr{V("x")}, Body: S("other")}}}
		}, false},
		{"fault in the second alternative of a case", func() Expr {
			return &MatchExpr{Subj: &ObjLit{}, Cases: []MatchCase{{Pats: []Expr{Arr_(V("q")), N("1")}, Body: S("one")}, {Pats: []Expr{V("x")}, Body: S("other")}}}
		}, false},
		// divisors that are not numbers but coerce to zero (3.4: the error depends on the coerced value, not on the kind)
		{"divide by null", func() Expr { return Bin("/", N("1"), &NullLit{}) }, false},
		{"divide by the empty string", func() Expr { return Bin("/", N("1"), S("")) }, false},
		{"divide by a non-numeric string", func() Expr { return Bin("/", N("1"), S("abc")) }, false},
		{"divide by the string 0", func() Expr { return Bin("/", N("1"), S("0")) }, false},
		{"divide by false", func() Expr { return Bin("/", N("1"), &BoolLit{B: false}) }, false},
		{"divide by a missing member", func() Expr { return Bin("/", V("numv"), Mem(V("objv"), "nokey")) }, false},
		{"divide by an unset variable", func() Expr { return Bin("/", V("numv"), V("neverset")) }, false},
		{"divide by a container", func() Expr { return Bin("/", N("1"), V("arrv")) }, false},
		{"modulo a fraction below one", func() Expr { return Bin("%", N("7"), N("0.5")) }, false},
		{"modulo null", func() Expr { return Bin("%", N("7"), Mem(V("objv"), "nul")) }, false},
		{"/= by a string that coerces to zero", func() Expr { return Asg("/=", V("numv"), S("x")) }, false},
		// a container compared with itself is still a comparison of containers
		{"array == the same array", func() Expr { return Bin("==", V("arrv"), V("arrv")) }, false},
		{"object != the same object", func() Expr { return Bin("!=", V("objv"), V("objv")) }, false},
		{"array <= its alias", func() Expr { return Bin("<=", V("arrv"), CallE(Mem(V("arrv"), "push"), N("3"))) }, false},
		{"contains on a self-containing array", func() Expr { return CallE(Mem(V("cyc"), "contains"), Idx(V("cyc"), N("0"))) }, false},
		{"match of an array against a literal", func() Expr {
			return &MatchExpr{Subj: V("arrv"), Cases: []MatchCase{{Pats: []Expr{N("1")}, Body: S("one")}, {Pats: []Expr{V("x")}, Body: S("other")}}}
		}, false},
		// a call site that called a function the first time it ran meets a name that is shadowed by a number the second time
		{"call site whose name is shadowed on its second evaluation", func() Expr { return Bin("+", CallE(V("viaSite"), N("0")), CallE(V("shadow"), N("3"))) }, false},
		// keys of a kind that cannot index anything, on receivers that are not objects
		{"array indexed with null", func() Expr { return Idx(V("arrv"), &NullLit{}) }, false},
		{"array indexed with a boolean", func() Expr { return Idx(V("arrv"), &BoolLit{B: true}) }, false},
		{"string indexed with null", func() Expr { return Idx(S("abc"), Mem(V("objv"), "nul")) }, false},
		{"number indexed with an array", func() Expr { return Idx(V("numv"), V("arrv")) }, false},
		{"for-in with an unknown $-variable as loop variable", func() Expr { return CallE(V("itdollar")) }, false},
		{"for-in with an unknown $-variable as second variable", func() Expr { return CallE(V("itdollar2")) }, false},
		// invalid patterns written as regex LITERALS: a runtime error when (and only when) the match is evaluated
		{"invalid regex literal", func() Expr { return Bin("~", S("a"), &RegexLit{Src: "a("}) }, false},
		{"invalid regex literal: repeat", func() Expr { return Bin("!~", S("a"), &RegexLit{Src: "x{3,1}"}) }, false},
		{"invalid regex literal: range", func() Expr { return Bin("~", V("numv"), &RegexLit{Src: "[b-a]"}) }, false},
		// patterns that are invalid only because of a repetition in braces
		{"invalid repeat count", func() Expr { return Bin("~", S("aaa"), S("a{3,2}")) }, false},
		{"repeat count beyond the limit", func() Expr { return Bin("!~", S("x"), S("x{1001}")) }, false},
		{"repetition without an operand", func() Expr { return Bin("~", S("{2}"), S("{2}{3}")) }, false},
		// doubles no numeral denotes (NaN, infinities, reached through num() or overflow): JSON has no spelling for them, no array has such an index
		{"json of NaN", func() Expr { return CallE(V("json"), CallE(V("num"), S("NaN"))) }, false},
		{"json of an array holding an infinity", func() Expr { return CallE(V("json"), Arr_(N("1"), CallE(V("num"), S("-Inf")))) }, false},
		{"json of an overflowed product", func() Expr {
			return CallE(V("json"), &ObjLit{Keys: []string{"k"}, Vals: []Expr{Bin("*", CallE(V("num"), S("1e308")), N("10"))}})
		}, false},
		{"array read at NaN", func() Expr { return Idx(V("arrv"), CallE(V("num"), S("NaN"))) }, false},
		{"array store at NaN", func() Expr {
			return Asg("=", Idx(V("arrv"), Bin("-", CallE(V("num"), S("Inf")), CallE(V("num"), S("Inf")))), N("1"))
		}, false},
		{"array ++ at an infinity", func() Expr { return &Postfix{"++", Idx(V("arrv"), CallE(V("num"), S("Inf")))} }, false},
		{"array read at minus infinity", func() Expr { return Idx(V("arrv"), CallE(V("num"), S("-Inf"))) }, false},
		{"modulo by NaN", func() Expr { return Bin("%", N("7"), CallE(V("num"), S("NaN"))) }, true},
		{"benign number", func() Expr { return N("7") }, true},
		{"benign string", func() Expr { return S("s") }, true},
		{"benign array", func() Expr { return V("arrv") }, true},
		{"benign zero", func() Expr { return N("0") }, true},
	}
}

func c11Funcs() []*Func {
	return []*Func{
		{Name: "itnum", Body: Blk(&ForIn{V: "v", Iter: N("5"), Body: Blk()}, &Return{N("1")})},
		{Name: "rec", Body: Blk(&Return{CallE(V("rec"))})},
		{Name: "itdollar", Body: Blk(&ForIn{V: "$k", Iter: V("objv"), Body: Blk(Pr(S("loop ran")))}, &Return{N("1")})},
		{Name: "itdollar2", Body: Blk(&ForIn{V: "k", W: "$v", Iter: V("arrv"), Body: Blk(Pr(S("loop ran")))}, &Return{N("1")})},
		{Name: "idf", Params: []string{"v"}, Body: Blk(&Return{V("v")})},
		{Name: "tr", Body: Blk(Pr(S("argument evaluated")), &Return{N("1")})},
		// viaSite holds the one call site target(); shadow binds a parameter of that name (names are looked up dynamically)
		{Name: "target", Body: Blk(&Return{N("1")})},
		{Name: "viaSite", Params: []string{"z"}, Body: Blk(Pr(S("site runs")), &Return{CallE(V("target"))})},
		{Name: "shadow", Params: []string{"target"}, Body: Blk(&Return{CallE(V("viaSite"), N("0"))})},
	}
}

type c11Slot struct {
	name string
	// mk returns the rules / extra functions with the fault expression e placed
	// in the slot. evaluated=false: the slot is never evaluated (twin).
	mk        func(e func() Expr) (rules []*Rule, funcs []*Func, sels []Expr)
	evaluated bool
}

func c11Setup() []Stmt {
	return []Stmt{
		Ex(Asg("=", V("numv"), N("5"))), Ex(Asg("=", V("arrv"), Arr_(N("1"), N("2")))),
		Ex(Asg("=", V("objv"), &ObjLit{Keys: []string{"k", "nul"}, Vals: []Expr{N("1"), &NullLit{}}})),
		Ex(Asg("=", V("cyc"), Arr_())), Ex(CallE(Mem(V("cyc"), "push"), V("cyc"))),
		Ex(Asg("=", V("t"), N("0"))),
	}
}

// in wraps a statement so that it follows a '{' (a statement that starts with
// '(' or '[' would otherwise continue the expression on the line before it).
func c11Guard(s Stmt) Stmt { return &If{Cond: &BoolLit{B: true}, Then: Blk(s)} }

func c11Slots() []c11Slot {
	type mkS = func(e func() Expr) Stmt
	// a statement-level slot inside the pattern rule of a run over [1]
	stmtSlot := func(name string, evaluated bool, mk mkS) c11Slot {
		return c11Slot{name, func(e func() Expr) ([]*Rule, []*Func, []Expr) {
			body := append(c11Setup(), Pr(S("before")), c11Guard(mk(e)), Pr(S("after")))
			return []*Rule{{Body: Blk(body...)}, {Kind: "END", Body: Blk(Pr(S("end")))}}, nil, nil
		}, evaluated}
	}
	exprSlot := func(name string, evaluated bool, wrap func(e Expr) Expr) c11Slot {
		return stmtSlot(name, evaluated, func(e func() Expr) Stmt { return Ex(Asg("=", V("t"), wrap(e()))) })
	}
	one := func() Expr { return N("1") }
	any := func(body Expr, blk *Block) Expr {
		return &MatchExpr{Subj: one(), Cases: []MatchCase{{Pats: []Expr{V("_")}, Body: body, Block: blk}}}
	}
	ruleSlot := func(name string, kind string) c11Slot {
		return c11Slot{name, func(e func() Expr) ([]*Rule, []*Func, []Expr) {
			r := &Rule{Kind: kind, Body: Blk(append(c11Setup(), Pr(S("before "+kind)), c11Guard(Ex(Asg("=", V("t"), e()))), Pr(S("after "+kind)))...)}
			return []*Rule{{Kind: "BEGIN", Body: Blk(Pr(S("begin")))}, r, {Body: Blk(Pr(S("el"), V("$")))}, {Kind: "END", Body: Blk(Pr(S("end")))}}, nil, nil
		}, true}
	}
	slots := []c11Slot{
		{"rule pattern", func(e func() Expr) ([]*Rule, []*Func, []Expr) {
			return []*Rule{{Kind: "BEGIN", Body: Blk(c11Setup()...)}, {Body: Blk(Pr(S("before")))}, {Pattern: Bin("||", e(), N("1")), Body: Blk(Pr(S("body")))}, {Body: Blk(Pr(S("after")))}}, nil, nil
		}, true},
		stmtSlot("expression statement", true, func(e func() Expr) Stmt { return Ex(e()) }),
		stmtSlot("print argument 1", true, func(e func() Expr) Stmt { return Pr(e(), S("x")) }),
		stmtSlot("print argument 2", true, func(e func() Expr) Stmt { return Pr(S("x"), e()) }),
		exprSlot("assignment right side", true, func(e Expr) Expr { return e }),
		stmtSlot("assignment target index", true, func(e func() Expr) Stmt { return Ex(Asg("=", Idx(V("objv"), Bin("+", S("k"), e())), N("1"))) }),
		exprSlot("arithmetic left", true, func(e Expr) Expr { return Bin("+", e, N("1")) }),
		exprSlot("arithmetic right", true, func(e Expr) Expr { return Bin("*", N("2"), e) }),
		exprSlot("comparison left", true, func(e Expr) Expr { return Bin("==", Bin("+", e, S("")), N("1")) }),
		exprSlot("comparison right", true, func(e Expr) Expr { return Bin("<", N("1"), Bin("+", S(""), e)) }),
		exprSlot("&& left", true, func(e Expr) Expr { return Bin("&&", e, N("1")) }),
		exprSlot("&& right", true, func(e Expr) Expr { return Bin("&&", N("1"), e) }),
		exprSlot("|| left", true, func(e Expr) Expr { return Bin("||", e, N("1")) }),
		exprSlot("|| right", true, func(e Expr) Expr { return Bin("||", N("0"), e) }),
		exprSlot("unary operand", true, func(e Expr) Expr { return Un("!", e) }),
		stmtSlot("++ target index", true, func(e func() Expr) Stmt { return Ex(&Postfix{"++", Idx(V("objv"), Bin("+", S("n"), e()))}) }),
		exprSlot("user call argument", true, func(e Expr) Expr { return CallE(V("idf"), e) }),
		exprSlot("native call argument", true, func(e Expr) Expr { return CallE(V("num"), e) }),
		exprSlot("surplus argument of a user function", true, func(e Expr) Expr { return CallE(V("idf"), N("1"), e) }),
		exprSlot("second surplus argument after a traced one", true, func(e Expr) Expr { return CallE(V("idf"), N("1"), CallE(V("tr")), e) }),
		exprSlot("surplus argument of a parameterless function", true, func(e Expr) Expr { return Bin("+", CallE(V("tr"), e), N("0")) }),
		exprSlot("callee", true, func(e Expr) Expr { return Bin("+", N("1"), N("1")) }), // replaced below
		exprSlot("array literal element", true, func(e Expr) Expr { return Arr_(CallE(V("tr")), e, CallE(V("tr"))) }),
		exprSlot("object literal element", true, func(e Expr) Expr {
			return &ObjLit{Keys: []string{"a", "b", "c"}, Vals: []Expr{CallE(V("tr")), e, CallE(V("tr"))}}
		}),
		exprSlot("object literal value whose key is written again later", true, func(e Expr) Expr {
			return &ObjLit{Keys: []string{"a", "b", "a"}, Vals: []Expr{e, CallE(V("tr")), N("2")}}
		}),
		exprSlot("object literal value of a key written before", true, func(e Expr) Expr {
			return &ObjLit{Keys: []string{"a", "a"}, Vals: []Expr{CallE(V("tr")), e}}
		}),
		exprSlot("middle call argument", true, func(e Expr) Expr { return CallE(V("idf"), Arr_(CallE(V("tr")), e, CallE(V("tr")))) }),
		exprSlot("left of a traced operand", true, func(e Expr) Expr { return Bin("+", e, CallE(V("tr"))) }),
		exprSlot("right of a traced operand", true, func(e Expr) Expr { return Bin("+", CallE(V("tr")), e) }),
		stmtSlot("print argument between traced ones", true, func(e func() Expr) Stmt { return Pr(CallE(V("tr")), e(), CallE(V("tr"))) }),
		stmtSlot("store target after a traced right side", true, func(e func() Expr) Stmt {
			return Ex(Asg("=", Idx(V("objv"), Bin("+", S("k"), e())), CallE(V("tr"))))
		}),
		exprSlot("member base", true, func(e Expr) Expr { return Mem(&Paren{e}, "zz") }),
		exprSlot("index expression", true, func(e Expr) Expr { return Idx(V("objv"), Bin("+", S("k"), e)) }),
		stmtSlot("if condition", true, func(e func() Expr) Stmt { return &If{Cond: e(), Then: Pr(S("then")), Else: Pr(S("else"))} }),
		stmtSlot("while condition", true, func(e func() Expr) Stmt { return &While{Cond: e(), Body: Blk(Pr(S("loop")), &Break{})} }),
		stmtSlot("for initialiser", true, func(e func() Expr) Stmt {
			return &For{Init: Asg("=", V("i"), e()), Cond: Bin("<", V("n"), N("1")), Post: &Postfix{"++", V("n")}, Body: Pr(S("loop"))}
		}),
		stmtSlot("for condition", true, func(e func() Expr) Stmt {
			return &For{Init: Asg("=", V("n"), N("0")), Cond: Bin("&&", Bin("||", e(), N("1")), Bin("<", V("n"), N("1"))), Post: &Postfix{"++", V("n")}, Body: Pr(S("loop"))}
		}),
		stmtSlot("for post expression", true, func(e func() Expr) Stmt {
			return &For{Init: Asg("=", V("n"), N("0")), Cond: Bin("<", V("n"), N("1")), Post: Asg("=", V("n"), Bin("+", Bin("*", e(), N("0")), Bin("+", V("n"), N("1")))), Body: Pr(S("loop"))}
		}),
		stmtSlot("for post expression after continue", true, func(e func() Expr) Stmt {
			return &For{Init: Asg("=", V("n"), N("0")), Cond: Bin("<", V("n"), N("2")), Post: Asg("=", V("n"), Bin("+", Bin("*", e(), N("0")), Bin("+", V("n"), N("1")))), Body: Blk(Pr(S("loop")), &Continue{})}
		}),
		stmtSlot("while condition after continue", true, func(e func() Expr) Stmt {
			return &While{Cond: Bin("&&", Bin("<", &Postfix{"++", V("wn")}, N("2")), Bin("||", e(), N("1"))), Body: Blk(Pr(S("loop")), &Continue{})}
		}),
		stmtSlot("for-in iterable", true, func(e func() Expr) Stmt { return &ForIn{V: "v", Iter: Arr_(e()), Body: Pr(S("loop"))} }),
		exprSlot("match subject", true, func(e Expr) Expr {
			return &MatchExpr{Subj: e, Cases: []MatchCase{{Pats: []Expr{V("_")}, Body: N("1")}}}
		}),
		exprSlot("match case body expression", true, func(e Expr) Expr { return any(e, nil) }),
		exprSlot("match case block", true, func(e Expr) Expr { return any(nil, Blk(Ex(Asg("=", V("t"), e)))) }),
		// loop bodies: the fault ends the run, not just the loop
		stmtSlot("while body", true, func(e func() Expr) Stmt {
			return Blk(&While{Cond: Bin("<", &Postfix{"++", V("wn")}, N("2")), Body: Blk(Pr(S("loop")), Ex(Asg("=", V("t"), e())), Pr(S("rest of body")))}, Pr(S("after the loop")))
		}),
		stmtSlot("for body", true, func(e func() Expr) Stmt {
			return Blk(&For{Init: Asg("=", V("n"), N("0")), Cond: Bin("<", V("n"), N("2")), Post: &Postfix{"++", V("n")}, Body: Blk(Pr(S("loop")), Ex(Asg("=", V("t"), e())), Pr(S("rest of body")))}, Pr(S("after the loop")))
		}),
		stmtSlot("for-in over an array body", true, func(e func() Expr) Stmt {
			return Blk(&ForIn{V: "v", Iter: V("arrv"), Body: Blk(Pr(S("loop"), V("v")), Ex(Asg("=", V("t"), e())), Pr(S("rest of body")))}, Pr(S("after the loop")))
		}),
		stmtSlot("for-in over an object body", true, func(e func() Expr) Stmt {
			return Blk(&ForIn{V: "k", W: "v", Iter: V("objv"), Body: Blk(Pr(S("loop"), V("k")), Ex(Asg("=", V("t"), e())), Pr(S("rest of body")))}, Pr(S("after the loop")))
		}),
		stmtSlot("for-in over an object, one variable", true, func(e func() Expr) Stmt {
			return Blk(&ForIn{V: "k", Iter: V("objv"), Body: Blk(Pr(S("loop"), V("k")), Ex(Asg("=", V("t"), e())))}, &ForIn{V: "k", Iter: &ObjLit{Keys: []string{"z"}, Vals: []Expr{N("1")}}, Body: Blk(Pr(S("loop"), V("k")), Ex(Asg("=", V("t"), e())))}, Pr(S("after the loop")))
		}),
		stmtSlot("for-in over a string body", true, func(e func() Expr) Stmt {
			return Blk(&ForIn{V: "ch", Iter: S("ab"), Body: Blk(Pr(S("loop"), V("ch")), Ex(Asg("=", V("t"), e())))}, Pr(S("after the loop")))
		}),
		stmtSlot("inner loop inside an object for-in", true, func(e func() Expr) Stmt {
			return Blk(&ForIn{V: "k", Iter: V("objv"), Body: Blk(&ForIn{V: "v", Iter: V("arrv"), Body: Blk(Pr(S("inner"), V("k"), V("v")), Ex(Asg("=", V("t"), CallE(V("idf"), e()))))}, Pr(S("after the inner loop")))}, Pr(S("after the loop")))
		}),
		stmtSlot("match block inside an object for-in", true, func(e func() Expr) Stmt {
			return Blk(&ForIn{V: "k", Iter: V("objv"), Body: Blk(Ex(Asg("=", V("t"), any(nil, Blk(Pr(S("in match")), Ex(Asg("=", V("t"), e())))))), Pr(S("rest of body")))}, Pr(S("after the loop")))
		}),
		{"return expression", func(e func() Expr) ([]*Rule, []*Func, []Expr) {
			f := &Func{Name: "fr", Body: Blk(Pr(S("in fr")), &Return{e()})}
			body := append(c11Setup(), Pr(S("before")), Ex(Asg("=", V("t"), CallE(V("fr")))), Pr(S("after")))
			return []*Rule{{Body: Blk(body...)}}, []*Func{f}, nil
		}, true},
		{"function body", func(e func() Expr) ([]*Rule, []*Func, []Expr) {
			f := &Func{Name: "fb", Body: Blk(Pr(S("in fb")), c11Guard(Ex(Asg("=", V("t"), e()))), Pr(S("still in fb")))}
			body := append(c11Setup(), Pr(S("before")), Ex(CallE(V("fb"))), Pr(S("after")))
			return []*Rule{{Body: Blk(body...)}}, []*Func{f}, nil
		}, true},
		ruleSlot("BEGIN body", "BEGIN"), ruleSlot("END body", "END"), ruleSlot("BEGINFILE body", "BEGINFILE"), ruleSlot("ENDFILE body", "ENDFILE"),
		{"selector", func(e func() Expr) ([]*Rule, []*Func, []Expr) {
			return []*Rule{{Kind: "BEGIN", Body: Blk(Pr(S("begin")))}, {Body: Blk(Pr(S("el"), V("$")))}, {Kind: "END", Body: Blk(Pr(S("end")))}}, nil, []Expr{V("$"), Arr_(e())}
		}, true},
		// non-evaluated twins: the same expression where it must not be evaluated
		exprSlot("twin: && after a falsy left", false, func(e Expr) Expr { return Bin("&&", N("0"), e) }),
		exprSlot("twin: || after a truthy left", false, func(e Expr) Expr { return Bin("||", N("1"), e) }),
		stmtSlot("twin: untaken then-branch", false, func(e func() Expr) Stmt { return &If{Cond: &BoolLit{B: false}, Then: Blk(Ex(Asg("=", V("t"), e())))} }),
		stmtSlot("twin: untaken else-branch", false, func(e func() Expr) Stmt {
			return &If{Cond: &BoolLit{B: true}, Then: Pr(S("then")), Else: Blk(Ex(Asg("=", V("t"), e())))}
		}),
		exprSlot("twin: unselected case", false, func(e Expr) Expr {
			return &MatchExpr{Subj: N("1"), Cases: []MatchCase{{Pats: []Expr{N("2")}, Body: e}, {Pats: []Expr{V("_")}, Body: N("3")}, {Pats: []Expr{V("_")}, Body: e}}}
		}),
		stmtSlot("twin: zero-trip while", false, func(e func() Expr) Stmt {
			return &While{Cond: &BoolLit{B: false}, Body: Blk(Ex(Asg("=", V("t"), e())))}
		}),
		stmtSlot("twin: zero-trip for-in", false, func(e func() Expr) Stmt { return &ForIn{V: "v", Iter: Arr_(), Body: Blk(Ex(Asg("=", V("t"), e())))} }),
		{"twin: uncalled function", func(e func() Expr) ([]*Rule, []*Func, []Expr) {
			f := &Func{Name: "nf", Body: Blk(&Return{e()})}
			body := append(c11Setup(), Pr(S("before")), Pr(S("after")))
			return []*Rule{{Body: Blk(body...)}}, []*Func{f}, nil
		}, false},
		{"twin: false-pattern rule", func(e func() Expr) ([]*Rule, []*Func, []Expr) {
			return []*Rule{{Kind: "BEGIN", Body: Blk(c11Setup()...)}, {Body: Blk(Pr(S("before")))}, {Pattern: &BoolLit{B: false}, Body: Blk(Ex(Asg("=", V("t"), e())))}, {Body: Blk(Pr(S("after")))}}, nil, nil
		}, false},
	}
	for i := range slots {
		if slots[i].name == "callee" {
			// the callee is evaluated before the arguments: a fault there must keep tr() from printing
			slots[i] = exprSlot("callee", true, func(e Expr) Expr { return CallE(&Paren{e}, CallE(V("tr"))) })
		}
	}
	return slots
}

type c11Spec struct {
	Form  string `json:"form"` // fault, splice
	Fault int    `json:"fault,omitempty"`
	Slot  int    `json:"slot,omitempty"`
	Seed  int    `json:"seed,omitempty"`
	Gap   int    `json:"gap,omitempty"`
	Kind  int    `json:"kind,omitempty"`
	Text  string `json:"text,omitempty"`
}

func c11FaultProg(fault, slot int) *progCase {
	f := c11Faults()[fault]
	sl := c11Slots()[slot]
	rules, funcs, sels := sl.mk(f.mk)
	return &progCase{P: &Program{Funcs: append(c11Funcs(), funcs...), Rules: rules}, Files: []inFile{{"in.json", "[1]"}}, Sels: sels, MaxSteps: 2_000_000}
}

func c11FaultCheck(c *fw.Ctx, fault, slot int) *fw.Violation {
	pc := c11FaultProg(fault, slot)
	v, res, skipped := pc.check(c)
	if skipped {
		c.Note("declined: "+c11Faults()[fault].name+": "+res.Unfixed, 1)
		return nil
	}
	f, sl := c11Faults()[fault], c11Slots()[slot]
	if v == nil {
		c.State(fmt.Sprintf("%s -> %s", sl.name, res.Kind))
		// the harness's own expectation, independent of the model's details
		wantErr := sl.evaluated && !f.benign
		if wantErr != (res.Kind == "runtime") {
			// "|| 1" etc. make some faults unobservable in a slot; that is fine, but it must be deliberate
			c.Note("fault not reached in slot "+sl.name, 1)
		} else if wantErr {
			c.NonTrivial(f.name + " @ " + sl.name)
		}
	}
	return v
}

// ----- syntax splices -----

var c11BadStmts = []string{"1 = 2", "t = [1] = 2", "a + b = 3", "{k: 1} = 2", "'s' = 1", "1 += 2", "t = [1] -= 2", "a + b *= 3", "return 1", "break", "continue", "x = = 1", "print )", "if (1", "f(", "x = [1,", "@", "for (;;) {}", "match (1) { 1 }", "function g() {}", "x = 1 1", "BEGIN { }"}

// c11Splice inserts the token text ins at gap g of the seed's token list (as its own line when stmt).
func c11SpliceText(toks []Tok, gap int, ins string, asLine bool) string {
	var sb strings.Builder
	for i, t := range toks {
		if i == gap {
			if asLine {
				sb.WriteString("\n" + ins + "\n")
			} else {
				sb.WriteString(" " + ins + " ")
			}
		}
		if t.Sep {
			sb.WriteString("\n")
		} else {
			sb.WriteString(" " + t.S)
		}
	}
	if gap >= len(toks) {
		sb.WriteString("\n" + ins + "\n")
	}
	return sb.String()
}

// statementGaps: token indices that begin a statement directly inside a rule
// body (not inside a function, loop or nested expression), where an inserted
// bad statement is certainly a syntax error.
func c11StatementGaps(toks []Tok) []int {
	var gaps []int
	depth := 0
	inFunc := false
	funcDepth := 0
	for i, t := range toks {
		if depth == 1 && !inFunc && i > 0 && toks[i-1].Sep && t.S != "}" && t.S != "else" {
			// first token of a statement at the top level of a rule body
			gaps = append(gaps, i)
		}
		switch t.S {
		case "function":
			if depth == 0 {
				inFunc = true
			}
		case "{", "(", "[":
			depth++
			if inFunc && funcDepth == 0 && t.S == "{" {
				funcDepth = depth
			}
		case "}", ")", "]":
			if inFunc && t.S == "}" && depth == funcDepth {
				inFunc = false
				funcDepth = 0
			}
			depth--
		}
	}
	return gaps
}

func c11SpliceCheck(c *fw.Ctx, seed, gap, kind int) *fw.Violation {
	pc := seedPrograms()[seed]
	toks := Tokens(pc.P, Style{})
	var src string
	certain := false
	switch {
	case kind < len(c11BadStmts):
		src = c11SpliceText(toks, gap, c11BadStmts[kind], true)
		certain = true
	case kind == len(c11BadStmts): // illegal character at any token boundary
		src = c11SpliceText(toks, gap, "@", false)
		certain = true
	case kind == len(c11BadStmts)+1: // stray ')'
		src = c11SpliceText(toks, gap, ")", false)
	default: // token deleted
		if gap >= len(toks) {
			return nil
		}
		src = c11SpliceText(append(append([]Tok{}, toks[:gap]...), toks[gap+1:]...), -1, "", false)
	}
	s := pc.spec()
	s.Program = src
	o := run(c, s)
	c.Traces++
	c.Transitions++
	perr, _ := lang.VerifParse(src)
	c.Outcome(string(o.Kind))
	fail := func(what string) *fw.Violation {
		o.Ev = nil
		o.Stdout = clip(o.Stdout)
		return &fw.Violation{What: what, Detail: detail{Program: src, Files: s.Files, Selectors: s.Selectors, WantStdout: "", WantKind: drive.KSyntax, Got: o}}
	}
	if o.Kind == drive.KPanic || o.Kind == drive.KOther {
		return fail("implementation panicked or returned a foreign error")
	}
	if certain {
		c.NonTrivial(fmt.Sprintf("splice %d in seed %d", kind, seed))
		if o.Kind != drive.KSyntax {
			return fail("a program with a syntax error was not refused with a syntax error")
		}
	}
	if perr != nil && o.Kind != drive.KSyntax {
		return fail("the parser rejects the text but the run did not end in a syntax error")
	}
	if o.Kind == drive.KSyntax && o.Stdout != "" {
		return fail("output was produced although the program has a syntax error")
	}
	return nil
}

func init() {
	nf, ns := len(c11Faults()), len(c11Slots())
	nseed := len(seedPrograms())
	nk := len(c11BadStmts) + 3
	register(&fw.Prop{
		ID: "C11",
		Rule: fmt.Sprintf("%d fault kinds (and 4 benign expressions) x %d syntactic slots incl. 9 never-evaluated twins, each between a print before and a print after; the model gives the exact output up to the fault and the outcome; ", nf-4, ns) +
			fmt.Sprintf("syntax splices: %d seed programs (all print in BEGIN first) x every statement position of every rule body x %d certainly-bad statements, x every token boundary x {illegal character, stray ')', token deleted}; ", nseed, len(c11BadStmts)) +
			"oracle for splices: syntax error and empty stdout (for stray ')' and deleted tokens: whenever the parse hook rejects the text); a state is (slot, outcome); non-trivial = (fault, slot) pairs where the model stops at the fault, and certainly-bad splices",
		Plan:        func(t fw.Tier) int { return ns + nseed },
		Bound:       func(t fw.Tier) string { return "full product both tiers" },
		Assumptions: []string{"reference interpreter mc/refsem for the output up to the fault", "hook VerifParse tells whether the parser accepts a text (used only for splices that may leave the program valid)"},
		Run: func(c *fw.Ctx, u int) {
			if u < ns {
				for f := 0; f < nf; f++ {
					s := c11Spec{Form: "fault", Fault: f, Slot: u}
					c.Do(func() any { s.Text = c11FaultProg(f, u).source(); return s }, func() *fw.Violation { return c11FaultCheck(c, s.Fault, s.Slot) })
				}
				return
			}
			seed := u - ns
			toks := Tokens(seedPrograms()[seed].P, Style{})
			for _, g := range c11StatementGaps(toks) {
				for k := 0; k < len(c11BadStmts); k++ {
					s := c11Spec{Form: "splice", Seed: seed, Gap: g, Kind: k}
					c.Do(func() any { return s }, func() *fw.Violation { return c11SpliceCheck(c, s.Seed, s.Gap, s.Kind) })
				}
			}
			for g := 0; g <= len(toks); g++ {
				for k := len(c11BadStmts); k < nk; k++ {
					s := c11Spec{Form: "splice", Seed: seed, Gap: g, Kind: k}
					c.Do(func() any { return s }, func() *fw.Violation { return c11SpliceCheck(c, s.Seed, s.Gap, s.Kind) })
				}
			}
		},
		Replay: func(c *fw.Ctx, raw json.RawMessage) *fw.Violation {
			var s c11Spec
			if !unmarshal(raw, &s) {
				return nil
			}
			if s.Form == "fault" {
				return c11FaultCheck(c, s.Fault, s.Slot)
			}
			return c11SpliceCheck(c, s.Seed, s.Gap, s.Kind)
		},
	})
}
