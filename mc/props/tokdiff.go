package props

import (
	"encoding/json"
	"fmt"
	"strings"

	"verif/mc/fw"
	"verif/mc/refsem"

	lang "github.com/alligator/jqawk/src"
)

// Token-sequence differential ("every small program"): for a frame (function definitions, the statements before and
// after a hole, an input) and a token alphabet, EVERY token sequence of <= D tokens is placed in the hole. Dead prefixes
// are pruned exactly as in C01 (the parser failed without asking for a token beyond the text). Each sequence that, after
// closing its open brackets, gives a program the implementation parses is run twice: by the implementation, and by the
// reference interpreter on the implementation's own parse (hook VerifAST -> refsem.FromImplAST) in strict mode, which
// declines every run that touches something no statement fixes (refsem/strict.go). Stdout, outcome and JSON output must
// agree. Grouping is not tested here (both sides use one parse; C06 and C13 own it); everything after the parse is.

type tokFrame struct {
	Name  string
	Funcs string
	Head  string
	Tail  string
	Alpha []string
	Files []inFile
	Root  bool
	Depth [2]int // quick, thorough
	Open  string // brackets the head leaves open and the tail does not close
}

type tokSpec struct {
	Form  string   `json:"form"` // "tokens"
	Frame string   `json:"frame"`
	Toks  []string `json:"tokens"`
	Text  string   `json:"text,omitempty"`
}

var tokShow = "function show(n, v) { if (v is unknown) { print n, \"unset\" } else { print n, v, v is string, v is number } }\n"

func tokClosers(open string, toks []string) (string, bool) {
	stack := []byte(open)
	for _, t := range toks {
		for i := 0; i < len(t); i++ {
			switch t[i] {
			case '(', '[', '{':
				stack = append(stack, t[i])
			case ')', ']', '}':
				if len(stack) == 0 {
					return "", false
				}
				open := stack[len(stack)-1]
				if (t[i] == ')' && open != '(') || (t[i] == ']' && open != '[') || (t[i] == '}' && open != '{') {
					return "", false
				}
				stack = stack[:len(stack)-1]
			case '"', '\'':
				// a string token: skip to its end
				q := t[i]
				i++
				for i < len(t) && t[i] != q {
					i++
				}
			}
		}
	}
	var sb strings.Builder
	for i := len(stack) - 1; i >= 0; i-- {
		switch stack[i] {
		case '(':
			sb.WriteString(" )")
		case '[':
			sb.WriteString(" ]")
		case '{':
			sb.WriteString(" }")
		}
	}
	return sb.String(), true
}

func (f *tokFrame) text(toks []string) string {
	return f.Funcs + f.Head + " " + c01Join(toks)
}

// complete returns the program for a token sequence, or "" when its brackets cannot be closed.
func (f *tokFrame) complete(toks []string) string {
	cl, ok := tokClosers(f.Open, toks)
	if !ok {
		return ""
	}
	return f.text(toks) + cl + " " + f.Tail
}

func tokCheck(c *fw.Ctx, f *tokFrame, src string) *fw.Violation {
	js, err := lang.VerifAST(src)
	if err != nil {
		return nil // not a program
	}
	c.Note("programs that parse", 1)
	p, err := refsem.FromImplAST(js)
	if err != nil {
		return &fw.Violation{What: "the implementation's syntax tree has a node the reference interpreter does not know: " + err.Error(), Detail: detail{Program: src}}
	}
	pc := &progCase{P: p, Src: src, Files: f.Files, Root: f.Root, Strict: true, MaxSteps: 20000}
	v, res, skipped := pc.check(c)
	if skipped {
		if res.Unfixed != "" {
			c.Note("declined: "+res.Unfixed, 1)
		}
		return nil
	}
	if v == nil {
		c.Outcome(res.Kind)
	}
	return v
}

func tokDFS(c *fw.Ctx, f *tokFrame, toks []string, depth int) {
	text := f.text(toks)
	perr, end := lang.VerifParse(text)
	c.Transitions++
	if perr != nil && end < len(text) {
		return
	}
	c.StatesN++
	if src := f.complete(toks); src != "" {
		if _, err := lang.VerifAST(src); err == nil {
			s := tokSpec{Form: "tokens", Frame: f.Name, Toks: append([]string{}, toks...)}
			c.Do(func() any { s.Text = src; return s }, func() *fw.Violation { return tokCheck(c, f, src) })
		}
	}
	if len(toks) >= depth || c.Expired() {
		return
	}
	for _, t := range f.Alpha {
		tokDFS(c, f, append(toks, t), depth)
	}
}

// tokUnits: a unit is (frame, first token, second token).
func tokUnits(frames []*tokFrame) int {
	n := 0
	for _, f := range frames {
		n += len(f.Alpha) * len(f.Alpha)
	}
	return n
}

func tokRun(c *fw.Ctx, frames []*tokFrame, u int) {
	for _, f := range frames {
		n := len(f.Alpha)
		if u >= n*n {
			u -= n * n
			continue
		}
		depth := f.Depth[0]
		if c.Thorough() {
			depth = f.Depth[1]
		}
		a, b := u/n, u%n
		if b == 0 {
			// the one-token sequence, and the empty one in the very first unit
			if a == 0 {
				tokDFS(c, f, nil, 0)
			}
			tokDFS(c, f, []string{f.Alpha[a]}, 1)
		}
		// liveness of the one-token prefix decides whether two-token sequences exist
		t1 := f.text([]string{f.Alpha[a]})
		if perr, end := lang.VerifParse(t1); perr != nil && end < len(t1) {
			return
		}
		tokDFS(c, f, []string{f.Alpha[a], f.Alpha[b]}, depth)
		c.State("frame " + f.Name)
		return
	}
}

func tokReplay(c *fw.Ctx, frames []*tokFrame, raw json.RawMessage) (*fw.Violation, bool) {
	var s tokSpec
	if !unmarshal(raw, &s) || s.Form != "tokens" {
		return nil, false
	}
	for _, f := range frames {
		if f.Name == s.Frame {
			src := f.complete(s.Toks)
			if src == "" {
				return nil, true
			}
			return tokCheck(c, f, src), true
		}
	}
	panic(fmt.Sprintf("tokdiff: no frame %q", s.Frame))
}

// addTok appends the token-sequence differential over the given frames to a property's check.
func addTok(frames []*tokFrame, p *fw.Prop) *fw.Prop {
	plan, run, replay := p.Plan, p.Run, p.Replay
	p.Plan = func(t fw.Tier) int { return plan(t) + tokUnits(frames) }
	p.Run = func(c *fw.Ctx, u int) {
		if n := plan(c.Tier); u >= n {
			tokRun(c, frames, u-n)
			return
		}
		run(c, u)
	}
	p.Replay = func(c *fw.Ctx, raw json.RawMessage) *fw.Violation {
		if v, ok := tokReplay(c, frames, raw); ok {
			return v
		}
		return replay(c, raw)
	}
	desc := "; EVERY SMALL PROGRAM: "
	for i, f := range frames {
		if i > 0 {
			desc += "; "
		}
		desc += fmt.Sprintf("frame %q: all sequences of <= %d (thorough %d) tokens over %d spellings %v placed after `%s`", f.Name, f.Depth[0], f.Depth[1], len(f.Alpha), f.Alpha, strings.TrimSpace(f.Head))
	}
	p.Rule += desc + " -- each sequence that parses (after closing open brackets) is run by the implementation and, on the implementation's own syntax tree, by the reference interpreter in strict mode (runs that touch something no statement fixes are declined and counted); stdout, outcome and JSON output must agree"
	if p.Assumptions != nil {
		p.Assumptions = append(p.Assumptions, "token differential: both sides evaluate the implementation's parse (grouping is decided by C06 / C13)")
	}
	return p
}
