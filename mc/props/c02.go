package props

import (
	"encoding/json"
	"fmt"
	"strings"

	"verif/mc/fw"
	. "verif/mc/refsem"
)

// C02: rules run in awk order over every input shape, with $, $index and $file bound.

type c02RuleVar struct {
	kind    string // BEGIN END BEGINFILE ENDFILE pat
	pattern int    // 0 none, 1 true, 2 false, 3 $ > 1
	noBody  bool
	signal  string // "", next, exit
}

func c02RuleAlphabet() []c02RuleVar {
	var out []c02RuleVar
	for _, k := range []string{"BEGIN", "END", "BEGINFILE", "ENDFILE"} {
		out = append(out, c02RuleVar{kind: k}, c02RuleVar{kind: k, signal: "exit"})
	}
	// next taken in a special rule: there is no element to abandon, so it ends that rule only; every later rule of the
	// kind still runs ("BEGIN rules run once", "the BEGINFILE rules run ... then the ENDFILE rules")
	for _, k := range []string{"BEGIN", "END", "BEGINFILE", "ENDFILE"} {
		out = append(out, c02RuleVar{kind: k, signal: "next"})
	}
	for p := 0; p < 4; p++ {
		for _, sg := range []string{"", "next", "exit"} {
			out = append(out, c02RuleVar{kind: "pat", pattern: p, signal: sg})
		}
	}
	// the signal is raised in a function that is evaluated as an element of a print list / an argument of a call
	out = append(out, c02RuleVar{kind: "pat", signal: "next@arg"}, c02RuleVar{kind: "pat", signal: "exit@arg"}, c02RuleVar{kind: "ENDFILE", signal: "exit@arg"})
	// next taken inside the block body of a match case that binds v, and a rule that reads the global v: the element is
	// abandoned and nothing of the case stays behind
	out = append(out, c02RuleVar{kind: "pat", signal: "next@match"}, c02RuleVar{kind: "pat", signal: "readv"})
	// next raised while the PATTERN of a rule is evaluated (in a callee): the element is abandoned, later rules do not see it
	out = append(out, c02RuleVar{kind: "pat", pattern: 4})
	// $, $file and $index read inside a function and inside a match arm, for every element
	out = append(out, c02RuleVar{kind: "pat", signal: "viafunc"})
	// a pattern that reads an element that does not exist: null, hence false
	out = append(out, c02RuleVar{kind: "pat", pattern: 5})
	out = append(out, c02RuleVar{kind: "pat", pattern: 3, noBody: true}, c02RuleVar{kind: "pat", pattern: 1, noBody: true})
	// a rule that changes the current root / element: roots selected by different selectors, and ENDFILE's view, must not leak into each other
	out = append(out, c02RuleVar{kind: "pat", signal: "mutate"})
	return out
}

func (r c02RuleVar) String() string {
	s := r.kind
	if r.kind == "pat" {
		s = []string{"{}", "true{}", "false{}", "$>1{}", "nxp($){}", "$[1]||$.nokey.deeper{}"}[r.pattern]
		if r.noBody {
			s = []string{"", "true", "", "$>1"}[r.pattern]
		}
	}
	if r.signal == "mutate" {
		return "mutate"
	}
	if r.signal != "" {
		s += "+" + r.signal
	}
	return s
}

func c02Rule(v c02RuleVar, id int, withIndex bool) *Rule {
	r := &Rule{}
	if v.kind != "pat" {
		r.Kind = v.kind
	}
	switch v.pattern {
	case 1:
		r.Pattern = &BoolLit{B: true}
	case 2:
		r.Pattern = &BoolLit{B: false}
	case 3:
		r.Pattern = Bin(">", V("$"), N("1"))
	case 4:
		r.Pattern = CallE(V("nxp"), V("$"))
	case 5:
		r.Pattern = Bin("||", Idx(V("$"), N("1")), Mem(Mem(V("$"), "nokey"), "deeper"))
	}
	if v.noBody {
		return r
	}
	args := []Expr{S(fmt.Sprintf("r%d", id)), V("$")}
	switch v.kind {
	case "BEGINFILE", "ENDFILE":
		args = append(args, V("$file"))
	case "pat":
		args = append(args, V("$file"))
		if withIndex && v.signal != "viafunc" {
			args = append(args, V("$index")) // (the variant that reads $index in a function must not read it at rule level first)
		}
	}
	body := []Stmt{Pr(args...)}
	if v.signal == "mutate" {
		// store into the element when it is a container, replace it otherwise
		body = append(body, &If{Cond: &IsExpr{V("$"), "object"}, Then: Blk(Ex(Asg("=", Mem(V("$"), "touched"), S(fmt.Sprintf("r%d", id)))), Ex(Asg("=", Idx(Mem(V("$"), "a"), N("0")), N("99")))),
			Else: &If{Cond: &IsExpr{V("$"), "array"}, Then: Blk(Ex(CallE(Mem(V("$"), "push"), S(fmt.Sprintf("r%d", id))))), Else: Blk(Ex(Asg("=", V("$"), Arr_(V("$"), S("replaced")))))}})
	}
	switch v.signal {
	case "viafunc":
		if withIndex {
			body = append([]Stmt{Ex(CallE(V("fidx")))}, body...)
		}
		body = append(body, Ex(CallE(V("ffile"))), Pr(S("arm"), &MatchExpr{Subj: N("1"), Cases: []MatchCase{{Pats: []Expr{V("m")}, Body: Arr_(V("$file"), V("$"))}}}))
		if withIndex {
			body = append(body, Ex(CallE(V("fidx"))), Pr(S("arm"), &MatchExpr{Subj: N("1"), Cases: []MatchCase{{Pats: []Expr{V("m")}, Body: V("$index")}}}))
		}
	case "next@match":
		body = append(body, Ex(Asg("=", V("t"), &MatchExpr{Subj: V("$"), Cases: []MatchCase{{Pats: []Expr{V("v")}, Block: Blk(Pr(S("in case"), V("v")), &Next{})}}})), Pr(S("never")))
	case "readv":
		body = append(body, Pr(S("v is unset:"), &IsExpr{V("v"), "unknown"}), Ex(Asg("=", V("w"), Bin("+", V("w"), N("1")))), Pr(S("w"), V("w")))
	case "next@arg":
		body = append(body, Pr(S("arg"), CallE(V("id"), CallE(V("nx")))), Pr(S("never")))
	case "exit@arg":
		body = append(body, Ex(Asg("=", V("t"), Arr_(N("1"), CallE(V("ex"))))), Pr(S("never")))
	case "next":
		body = append(body, &Next{})
	case "exit":
		body = append(body, &Exit{})
	}
	r.Body = Blk(body...)
	return r
}

// c02Valid: at most two rules carry a signal; a body-less rule is not followed
// by a rule that starts with '{' (the two would read as one rule).
func c02Valid(seq []int, alpha []c02RuleVar) bool {
	sig := 0
	for i, k := range seq {
		if alpha[k].signal != "" && alpha[k].signal != "mutate" && alpha[k].signal != "readv" && alpha[k].signal != "viafunc" {
			sig++
		}
		if alpha[k].noBody && i+1 < len(seq) {
			n := alpha[seq[i+1]]
			if n.kind == "pat" && n.pattern == 0 {
				return false
			}
		}
	}
	return sig <= 2
}

var c02Roots = []string{`[]`, `[1]`, `[1,2]`, `{"a":[3,4]}`, `5`, `null`}

func c02FileContents() []string {
	out := []string{""}
	out = append(out, c02Roots...)
	out = append(out, `[1,2] 5`, "5\n[1]", `[] [1,2]`, `{"a":[3,4]}[1]`, `null null`, `[1] {"a":[3,4]}`, `["100% %s",{"k%v":"%d\\n"}]`)
	return out
}

var c02Selectors = [][]Expr{
	nil,
	{V("$")},
	{Mem(V("$"), "a")},
	{V("$"), Mem(V("$"), "a")},
	{Mem(V("$"), "a"), V("$")},
}

type c02Config struct {
	Files []string `json:"files"`
	Sel   int      `json:"sel"`
}

func c02Configs() []c02Config {
	fc := c02FileContents()
	var out []c02Config
	for sel := range c02Selectors {
		out = append(out, c02Config{nil, sel})
		for _, a := range fc {
			out = append(out, c02Config{[]string{a}, sel})
			for _, b := range fc {
				out = append(out, c02Config{[]string{a, b}, sel})
			}
		}
	}
	return out
}

// allArrays: no selector and every document is an array, so $index is bound in every pattern rule
func (cf c02Config) allArrays() bool {
	if cf.Sel != 0 {
		return false
	}
	for _, f := range cf.Files {
		st := ParseStream([]byte(f))
		for _, v := range st.Values {
			if v.Node.K != JArr {
				return false
			}
		}
	}
	return true
}

type c02Spec struct {
	Rules []int     `json:"rules"`
	Cfg   c02Config `json:"cfg"`
	Text  string    `json:"text,omitempty"`
}

func c02Build(s c02Spec) *progCase {
	alpha := c02RuleAlphabet()
	p := &Program{Funcs: []*Func{
		{Name: "nxp", Params: []string{"v"}, Body: Blk(Pr(S("pattern sees"), V("v")), &If{Cond: Bin("||", &IsExpr{V("v"), "object"}, Bin("==", V("v"), N("2"))), Then: Blk(&Next{})}, &Return{X: N("1")})},
		{Name: "ffile", Body: Blk(Pr(S("in function"), V("$file"), V("$")))},
		{Name: "fidx", Body: Blk(Pr(S("in function"), V("$index")))},
		{Name: "nx", Body: Blk(&Next{})}, {Name: "ex", Body: Blk(&Exit{})}, {Name: "id", Params: []string{"v"}, Body: Blk(&Return{X: V("v")})}}}
	wi := s.Cfg.allArrays()
	for i, k := range s.Rules {
		p.Rules = append(p.Rules, c02Rule(alpha[k], i, wi))
	}
	pc := &progCase{P: p, Sels: c02Selectors[s.Cfg.Sel], Root: true}
	for i, f := range s.Cfg.Files {
		pc.Files = append(pc.Files, inFile{fmt.Sprintf("f%d.json", i+1), f})
	}
	return pc
}

func c02Check(c *fw.Ctx, s c02Spec) *fw.Violation {
	pc := c02Build(s)
	v, res, skipped := pc.check(c)
	if !skipped && v == nil {
		c.Outcome(res.Kind)
		// schedule positions reached in the model: which rule kinds fired, in what order
		var kinds []string
		alpha := c02RuleAlphabet()
		for _, line := range strings.Split(res.Stdout, "\n") {
			if strings.HasPrefix(line, "r") && len(line) > 1 && line[1] >= '0' && line[1] <= '9' {
				k := alpha[s.Rules[int(line[1]-'0')]].kind
				if len(kinds) == 0 || kinds[len(kinds)-1] != k {
					kinds = append(kinds, k)
				}
			}
		}
		if len(kinds) <= 6 {
			c.State(strings.Join(kinds, ">"))
		}
	}
	return v
}

var c02RichConfigs = []c02Config{
	{[]string{`[1,2] {"a":[3,4]}`, `5`}, 0},
	{[]string{`{"a":[3,4]}`, `[1,2]`}, 3},
	{[]string{`[1,2]`, `[] [5]`}, 0},
}

func c02RichPrograms(alpha []c02RuleVar) [][]int {
	idx := func(s string) int {
		for i, a := range alpha {
			if a.String() == s {
				return i
			}
		}
		panic("c02: no rule variant " + s)
	}
	mk := func(names ...string) []int {
		out := make([]int, len(names))
		for i, n := range names {
			out[i] = idx(n)
		}
		return out
	}
	return [][]int{
		mk("BEGINFILE", "mutate", "{}", "ENDFILE", "END"),
		mk("mutate", "mutate", "ENDFILE"),
		mk("BEGIN", "BEGINFILE", "{}", "ENDFILE", "END"),
		mk("END", "ENDFILE", "true{}", "BEGINFILE", "BEGIN", "BEGIN", "END"),
		mk("BEGINFILE", "BEGINFILE", "{}+next", "{}", "ENDFILE", "ENDFILE"),
		mk("{}", "$>1{}+next", "true{}", "END"),
		mk("BEGIN", "{}", "false{}+exit", "$>1{}+exit", "END"),
		mk("BEGINFILE+exit", "{}", "END"),
		mk("BEGIN", "{}", "ENDFILE+exit", "END"),
		mk("BEGIN+exit", "BEGIN", "{}", "END"),
		mk("{}", "END+exit", "END"),
		mk("true{}", "$>1"),
		mk("false{}", "{}+exit", "END"),
		mk("BEGINFILE", "$>1{}", "{}", "ENDFILE"),
		mk("BEGINFILE+next", "BEGINFILE", "{}", "ENDFILE+next", "ENDFILE", "END+next", "END"),
		mk("BEGIN+next", "BEGIN", "{}+next", "{}", "END"),
	}
}

func init() {
	alpha := c02RuleAlphabet()
	n := len(alpha)
	register(addTok(tokFramesC02, &fw.Prop{
		ID: "C02",
		Rule: "rule sequences over 35 rule variants (BEGIN/END/BEGINFILE/ENDFILE with nothing, exit or next; pattern-less, true, false and $>1 pattern rules with nothing, next or exit; next / exit raised in a callee inside a print list or an array literal; next raised by a callee while a rule's pattern is evaluated; next inside the block body of a binding match case and a rule that reads the bound name as a global; a body-less pattern rule, a rule that mutates $), every body printing its rule number, $, $file (and $index when every root is an array); " +
			"(A) all sequences of <= N rules on three rich configurations, (B) 16 fixed rich programs on all 915 configurations (0-2 files x 14 file contents incl. empty, two values and all root shapes x 5 selector lists), (C) all sequences of <= M rules on all configurations; " +
			"oracle: the schedule model of DESIGN.md 3.13 (exact stdout, outcome and JSON output); a state is the order in which rule kinds fired; non-trivial = same",
		Plan: func(t fw.Tier) int { return n*n + len(c02Configs()) },
		Bound: func(t fw.Tier) string {
			if t == fw.Thorough {
				return "(A) <= 5 rules, (B) all configurations, (C) <= 3 rules"
			}
			return "(A) <= 4 rules, (B) all configurations, (C) <= 2 rules"
		},
		Assumptions: []string{"schedule model mc/refsem/run.go", "next taken in a BEGIN/END/BEGINFILE/ENDFILE rule ends that rule only (repair d6eb1ee); $file/$index where they were never bound are not generated (only C01 constrains them)"},
		Run: func(c *fw.Ctx, u int) {
			if u < n*n {
				// (A): sequences starting with (a, b), and the short sequences in the first units
				a, b := u/n, u%n
				N := c.Pick(4, 5)
				do := func(seq []int) {
					if !c02Valid(seq, alpha) {
						return
					}
					for _, cf := range c02RichConfigs {
						s := c02Spec{Rules: append([]int{}, seq...), Cfg: cf}
						c.Do(func() any { s.Text = c02Build(s).source(); return s }, func() *fw.Violation { return c02Check(c, s) })
					}
				}
				if b == 0 {
					do([]int{a})
				}
				var rec func(seq []int)
				rec = func(seq []int) {
					do(seq)
					if len(seq) == N {
						return
					}
					for k := 0; k < n; k++ {
						rec(append(seq, k))
					}
				}
				rec([]int{a, b})
				return
			}
			// (B) and (C): one configuration per unit
			cf := c02Configs()[u-n*n]
			for _, prog := range c02RichPrograms(alpha) {
				s := c02Spec{Rules: prog, Cfg: cf}
				c.Do(func() any { s.Text = c02Build(s).source(); return s }, func() *fw.Violation { return c02Check(c, s) })
			}
			M := c.Pick(2, 3)
			var rec func(seq []int)
			rec = func(seq []int) {
				if len(seq) > 0 && c02Valid(seq, alpha) {
					s := c02Spec{Rules: append([]int{}, seq...), Cfg: cf}
					c.Do(func() any { s.Text = c02Build(s).source(); return s }, func() *fw.Violation { return c02Check(c, s) })
				}
				if len(seq) == M {
					return
				}
				for k := 0; k < n; k++ {
					rec(append(seq, k))
				}
			}
			rec(nil)
		},
		Finish: func(c *fw.Ctx) {
			for s := range c.States {
				c.NonTrivial(s)
			}
		},
		Replay: func(c *fw.Ctx, raw json.RawMessage) *fw.Violation {
			var s c02Spec
			if !unmarshal(raw, &s) {
				return nil
			}
			return c02Check(c, s)
		},
	}))
}
