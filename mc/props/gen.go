package props

import (
	"math"
	"strconv"

	. "verif/mc/refsem"
)

// ----- JSON documents: all trees up to a depth / width over a scalar alphabet -----

var docScalarsFull = []string{"null", "true", "false", "0", "-0", "1.5", "1e21", "5e-324", `""`, `"a"`, `"é\"\\\n<"`, `"\u0000"`}
var docScalarsNarrow = []string{"null", "1.5", `"a"`, "false"}
var docKeys = []string{`"a"`, `"é \""`}

// strings that trip text-level post-processing: a backslash followed by u003c, HTML-sensitive characters, a percent sign
// (print must not treat output as a format), line separators, DEL and a lone surrogate escape
var docScalarsExtra = []string{`"\\u003cb\\u003e"`, `"<&>"`, `"50% off %s %d %"`, `"\u2028\u2029"`, `"\u007f"`, `"\ud800"`, `"\\"`, `"\\n"`, `9223372036854775807`, `-9223372036854775808`, `1e400`[0:0] + `123456789012345678901234567890`, `0.1`, `"%v"`,
	// text that ends in, or consists of, line ends and blanks: print adds exactly one newline of its own
	`"line\n"`, `"\n"`, `"x\r\n"`, `"\n\n"`, `" "`, `"a\nb\n "`}

// docGen enumerates JSON texts of all trees of depth <= depth whose containers
// have at most width children. Index-addressable: Count() and At(i).
type docGen struct {
	levels [][]string // levels[d] = all texts of depth <= d (built eagerly for d < depth)
	scal   []string
	width  int
	depth  int
}

func newDocGen(depth, width int, scalars []string) *docGen {
	g := &docGen{scal: scalars, width: width, depth: depth}
	g.levels = append(g.levels, scalars)
	for d := 1; d < depth; d++ {
		g.levels = append(g.levels, g.expand(g.levels[d-1]))
	}
	return g
}

// expand returns scalars + all containers whose children come from prev.
func (g *docGen) expand(prev []string) []string {
	out := append([]string{}, g.scal...)
	n := g.containers(prev)
	for i := 0; i < n; i++ {
		out = append(out, g.container(prev, i))
	}
	return out
}

// containers counts arrays and objects with <= width children from prev.
func (g *docGen) containers(prev []string) int {
	p := len(prev)
	arr, obj := 0, 0
	for w := 0; w <= g.width; w++ {
		arr += pow(p, w)
	}
	obj = 1
	if g.width >= 1 {
		obj += len(docKeys) * p
	}
	if g.width >= 2 {
		obj += p * p
	}
	return arr + obj
}

func (g *docGen) container(prev []string, i int) string {
	p := len(prev)
	for w := 0; w <= g.width; w++ {
		n := pow(p, w)
		if i < n {
			s := "["
			for k := 0; k < w; k++ {
				if k > 0 {
					s += ","
				}
				s += prev[i%p]
				i /= p
			}
			return s + "]"
		}
		i -= n
	}
	if i == 0 {
		return "{}"
	}
	i--
	if i < len(docKeys)*p {
		return "{" + docKeys[i/p] + ":" + prev[i%p] + "}"
	}
	i -= len(docKeys) * p
	return "{" + docKeys[0] + ":" + prev[i%p] + "," + docKeys[1] + ":" + prev[i/p] + "}"
}

func (g *docGen) Count() int {
	if g.depth == 0 {
		return len(g.scal)
	}
	return len(g.scal) + g.containers(g.levels[g.depth-1])
}

func (g *docGen) At(i int) string {
	if i < len(g.scal) {
		return g.scal[i]
	}
	return g.container(g.levels[g.depth-1], i-len(g.scal))
}

// plainStrings reports whether every string in n (keys included) needs no
// escaping in JSON and contains no quote.
func plainStrings(n *JNode) bool {
	ok := func(s string) bool {
		for i := 0; i < len(s); i++ {
			if s[i] < 0x20 || s[i] == '"' || s[i] == '\\' {
				return false
			}
		}
		return true
	}
	switch n.K {
	case JStr:
		return ok(n.S)
	case JArr:
		for _, it := range n.Items {
			if !plainStrings(it) {
				return false
			}
		}
	case JObj:
		for k, v := range n.Vals {
			if !ok(k) || !plainStrings(v) {
				return false
			}
		}
	}
	return true
}

// ----- numeric sweep: a structured set of finite doubles -----

func numSweep(thorough bool) []float64 {
	seen := map[uint64]bool{}
	var out []float64
	add := func(f float64) {
		if math.IsNaN(f) || math.IsInf(f, 0) {
			return
		}
		for _, g := range []float64{f, -f} {
			b := math.Float64bits(g)
			if !seen[b] {
				seen[b] = true
				out = append(out, g)
			}
		}
	}
	ulps := func(f float64) {
		add(f)
		add(math.Nextafter(f, math.Inf(1)))
		add(math.Nextafter(f, math.Inf(-1)))
	}
	add(0)
	for k := -1074; k <= 1023; k++ {
		if !thorough && k%3 != 0 && (k < -60 || k > 70) {
			continue
		}
		ulps(math.Ldexp(1, k))
	}
	for k := -323; k <= 308; k++ {
		f, _ := strconv.ParseFloat("1e"+strconv.Itoa(k), 64)
		ulps(f)
		if thorough {
			g, _ := strconv.ParseFloat("9.5e"+strconv.Itoa(k), 64)
			ulps(g)
		}
	}
	for _, f := range []float64{math.MaxFloat64, math.SmallestNonzeroFloat64, 1 << 53, (1 << 53) - 1, (1 << 53) + 2, 1<<63 - 1024, 1 << 63, 1 << 64, 0.1, 0.2, 0.3, 1.0 / 3, 2.0 / 3, 123456.789, 1e21, 1e20, 9.999999999999999e20, 123456789012345680000, 0.000001, 0.0000001, 4.35, 2.675, 1.005} {
		ulps(f)
	}
	for k := -20; k <= 20; k++ {
		for _, d := range []float64{0, 0.25, 0.5, 0.75} {
			add(float64(k) + d)
		}
	}
	for _, d := range []float64{0, 0.25, 0.5, 0.75, 1, 1.5} {
		add(4503599627370496 - d) // around 2^52
		add(2251799813685248 + d) // around 2^51
	}
	return out
}

// numText is a JSON / jqawk-independent spelling of a finite double.
func numJSON(f float64) string {
	if IsNegZero(f) {
		return "-0"
	}
	return strconv.FormatFloat(f, 'e', -1, 64)
}

// ----- heap graphs built by programs (cycles, sharing) -----

type graphOp struct {
	name string
	st   func() Stmt
}

var graphOps = []graphOp{
	{"a[0]=b", func() Stmt { return Ex(Asg("=", Idx(V("a"), N("0")), V("b"))) }},
	{"b.k=a", func() Stmt { return Ex(Asg("=", Mem(V("b"), "k"), V("a"))) }},
	{"a[0]=a", func() Stmt { return Ex(Asg("=", Idx(V("a"), N("0")), V("a"))) }},
	{"b.k=b", func() Stmt { return Ex(Asg("=", Mem(V("b"), "k"), V("b"))) }},
	{"a.push(b)", func() Stmt { return Ex(CallE(Mem(V("a"), "push"), V("b"))) }},
	{"a.push(a)", func() Stmt { return Ex(CallE(Mem(V("a"), "push"), V("a"))) }},
	{"c=[a,a]", func() Stmt { return Ex(Asg("=", V("c"), Arr_(V("a"), V("a")))) }},
	{"c={x:b,y:b}", func() Stmt {
		return Ex(Asg("=", V("c"), &ObjLit{Keys: []string{"x", "y"}, Vals: []Expr{V("b"), V("b")}}))
	}},
	{"c=a", func() Stmt { return Ex(Asg("=", V("c"), V("a"))) }},
	{"c.popfirst()", func() Stmt { return Ex(CallE(Mem(V("c"), "popfirst"))) }},
	{"a.popfirst()", func() Stmt { return Ex(CallE(Mem(V("a"), "popfirst"))) }},
	{"c[0]=a", func() Stmt { return Ex(Asg("=", Idx(V("c"), N("0")), V("a"))) }},
	{"a.push(1)", func() Stmt { return Ex(CallE(Mem(V("a"), "push"), N("1"))) }},
	{"b.j=c", func() Stmt { return Ex(Asg("=", Mem(V("b"), "j"), V("c"))) }},
	{"c.push(c)", func() Stmt { return Ex(CallE(Mem(V("c"), "push"), V("c"))) }},
	{"a[1]=[b]", func() Stmt { return Ex(Asg("=", Idx(V("a"), N("1")), Arr_(V("b")))) }},
}

func graphPrologue() []Stmt {
	return []Stmt{
		Ex(Asg("=", V("a"), Arr_(N("0"), N("0")))),
		Ex(Asg("=", V("b"), &ObjLit{})),
		Ex(Asg("=", V("c"), Arr_())),
	}
}

// graphBody is prologue + the operation sequence seq (indices into graphOps).
func graphBody(seq []int) []Stmt {
	body := graphPrologue()
	for _, i := range seq {
		body = append(body, graphOps[i].st())
	}
	return body
}

func seqNames(seq []int) []string {
	out := make([]string, len(seq))
	for i, k := range seq {
		out[i] = graphOps[k].name
	}
	return out
}

// eachSeq calls f with every sequence of length <= maxLen over n symbols that
// starts with first (first < 0: only the empty sequence).
func eachSeq(n, maxLen int, first int, f func(seq []int)) {
	var rec func(seq []int)
	rec = func(seq []int) {
		f(seq)
		if len(seq) == maxLen {
			return
		}
		for i := 0; i < n; i++ {
			rec(append(seq, i))
		}
	}
	if first < 0 {
		f(nil)
	} else if maxLen >= 1 {
		rec([]int{first})
	}
}
