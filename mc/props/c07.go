package props

import (
	"encoding/json"
	"fmt"
	"strconv"

	"verif/mc/fw"
	. "verif/mc/refsem"
)

// C07: control flow executes statements in exactly the documented order, at any nesting.

const (
	c7T = iota
	c7Break
	c7Continue
	c7Return
	c7Next
	c7Exit
	c7IfT
	c7IfF
	c7IfV
	c7WhileK
	c7WhileF
	c7For3
	c7InArr1
	c7InArr2
	c7InObj1
	c7InObj2
	c7InStr1
	c7InStr2
	c7InEmptyArr
	c7InEmptyObj
	c7InEmptyStr
	c7IfElseT
	c7IfElseF
	c7IfElseV
	c7Block2
	c7NKinds
)

var c7Names = [...]string{"trace", "break", "continue", "return", "next", "exit", "if(true)", "if(false)", "if(v==2)", "while(k++<2)", "while(false)", "for(;;)", "for-in arr", "for-in arr,i", "for-in obj", "for-in obj,v", "for-in str", "for-in str,off", "for-in []", "for-in {}", "for-in \"\"", "if/else(true)", "if/else(false)", "if/else(v==2)", "block"}

func c7Arity(k int) int {
	switch {
	case k <= c7Exit:
		return 0
	case k <= c7InEmptyStr:
		return 1
	}
	return 2
}

func c7IsLoop(k int) bool { return k >= c7WhileK && k <= c7InEmptyStr }

type c7Node struct {
	K    int
	Kids []*c7Node
}

// c7Enum streams every tree with exactly n nodes whose root kind is root (root < 0: any).
func c7Enum(n int, root int, f func(*c7Node)) {
	if n < 1 {
		return
	}
	for k := 0; k < c7NKinds; k++ {
		if root >= 0 && k != root {
			continue
		}
		switch c7Arity(k) {
		case 0:
			if n == 1 {
				f(&c7Node{K: k})
			}
		case 1:
			c7Enum(n-1, -1, func(a *c7Node) { f(&c7Node{k, []*c7Node{a}}) })
		case 2:
			for l := 1; l <= n-2; l++ {
				c7Enum(l, -1, func(a *c7Node) {
					c7Enum(n-1-l, -1, func(b *c7Node) { f(&c7Node{k, []*c7Node{a, b}}) })
				})
			}
		}
	}
}

// c7Valid: break/continue need a loop, return a function; next is only
// generated where there is a current element (its meaning in a BEGIN rule is
// not fixed by any statement beyond C01's "no crash").
func c7Valid(t *c7Node, inLoop bool, ctx int) bool {
	inFunc := ctx == 2
	switch t.K {
	case c7Break, c7Continue:
		return inLoop
	case c7Return:
		return inFunc
	case c7Next:
		return ctx != 0
	}
	loop := inLoop || c7IsLoop(t.K)
	for _, k := range t.Kids {
		if !c7Valid(k, loop, ctx) {
			return false
		}
	}
	return true
}

func (t *c7Node) encode() string {
	s := strconv.Itoa(t.K)
	if len(t.Kids) > 0 {
		s += "("
		for i, k := range t.Kids {
			if i > 0 {
				s += ","
			}
			s += k.encode()
		}
		s += ")"
	}
	return s
}

func c7Decode(s string) (*c7Node, string) {
	i := 0
	for i < len(s) && s[i] >= '0' && s[i] <= '9' {
		i++
	}
	k, _ := strconv.Atoi(s[:i])
	n := &c7Node{K: k}
	s = s[i:]
	if len(s) > 0 && s[0] == '(' {
		s = s[1:]
		for {
			var kid *c7Node
			kid, s = c7Decode(s)
			n.Kids = append(n.Kids, kid)
			if s[0] == ',' {
				s = s[1:]
				continue
			}
			s = s[1:] // ')'
			break
		}
	}
	return n, s
}

type c7Inst struct{ id int }

func (in *c7Inst) next() string { in.id++; return strconv.Itoa(in.id) }

func (in *c7Inst) stmt(t *c7Node) Stmt {
	kid := func(i int) Stmt { return in.stmt(t.Kids[i]) }
	vIs2 := Bin("==", V("v"), N("2"))
	forIn := func(w bool, iter Expr) Stmt {
		f := &ForIn{V: "v", Iter: iter}
		if w {
			f.W = "w"
			f.Body = Blk(Pr(S("it"), V("v"), V("w")), kid(0))
		} else {
			f.Body = Blk(Pr(S("it"), V("v")), kid(0))
		}
		return f
	}
	arr := func() Expr { return Arr_(N("1"), N("2"), N("3")) }
	obj := func() Expr { return &ObjLit{Keys: []string{"b", "a"}, Vals: []Expr{N("2"), N("1")}} }
	switch t.K {
	case c7T:
		return Pr(S("#" + in.next()))
	case c7Break:
		return &Break{}
	case c7Continue:
		return &Continue{}
	case c7Return:
		return &Return{N(in.next())}
	case c7Next:
		return &Next{}
	case c7Exit:
		return &Exit{}
	case c7IfT:
		return &If{Cond: &BoolLit{B: true}, Then: kid(0)}
	case c7IfF:
		return &If{Cond: &BoolLit{B: false}, Then: kid(0)}
	case c7IfV:
		return &If{Cond: vIs2, Then: kid(0)}
	case c7WhileK:
		k := "k" + in.next()
		return Blk(&While{Cond: Bin("<", &Postfix{"++", V(k)}, N("2")), Body: kid(0)}, Pr(S("after while"), V(k)))
	case c7WhileF:
		return &While{Cond: &BoolLit{B: false}, Body: kid(0)}
	case c7For3:
		i := "i" + in.next()
		// the counter is shown after the loop: the post expression must not run for an iteration left by break
		return Blk(&For{Init: Asg("=", V(i), N("0")), Cond: Bin("<", V(i), N("2")), Post: &Postfix{"++", V(i)}, Body: Blk(Pr(S("for"), V(i)), kid(0))}, Pr(S("after for"), V(i)))
	case c7InArr1:
		return forIn(false, arr())
	case c7InArr2:
		return forIn(true, arr())
	case c7InObj1:
		return forIn(false, obj())
	case c7InObj2:
		return forIn(true, obj())
	case c7InStr1:
		return forIn(false, S("héy"))
	case c7InStr2:
		return forIn(true, S("héy"))
	case c7InEmptyArr:
		return forIn(true, Arr_())
	case c7InEmptyObj:
		return forIn(true, &ObjLit{})
	case c7InEmptyStr:
		return forIn(true, S(""))
	case c7IfElseT:
		return &If{Cond: &BoolLit{B: true}, Then: kid(0), Else: kid(1)}
	case c7IfElseF:
		return &If{Cond: &BoolLit{B: false}, Then: kid(0), Else: kid(1)}
	case c7IfElseV:
		return &If{Cond: vIs2, Then: kid(0), Else: kid(1)}
	case c7Block2:
		return Blk(kid(0), kid(1))
	}
	panic("c07: bad kind")
}

func c7Program(t *c7Node, ctx int) *progCase {
	in := &c7Inst{}
	tree := in.stmt(t)
	init := &Rule{Kind: "BEGIN", Body: Blk(Ex(Asg("=", V("v"), N("0"))), Ex(Asg("=", V("w"), N("0"))))}
	end := &Rule{Kind: "END", Body: Blk(Pr(S("END"), V("v"), V("w")))}
	in12 := []inFile{{"in.json", "[1,2]"}}
	switch ctx {
	case 0:
		return &progCase{P: &Program{Rules: []*Rule{init, {Kind: "BEGIN", Body: Blk(tree, Pr(S("end")))}, end}}}
	case 1:
		return &progCase{P: &Program{Rules: []*Rule{init, {Body: Blk(tree, Pr(S("rend"), V("$")))}, {Body: Blk(Pr(S("second rule"), V("$")))}, end}}, Files: in12}
	case 3:
		// roots that are not arrays (a stream of an object, a number and a string): the rules run once per root
		return &progCase{P: &Program{Rules: []*Rule{init, {Body: Blk(tree, Pr(S("rend"), V("$")))}, {Body: Blk(Pr(S("second rule"), V("$")))}, {Kind: "ENDFILE", Body: Blk(Pr(S("endfile"), V("$")))}, end}},
			Files: []inFile{{"in.json", "{\"a\":1} 5\n\"s\""}}}
	}
	f := &Func{Name: "f", Params: []string{"p"}, Body: Blk(tree, Pr(S("fend")), &Return{N("7")})}
	return &progCase{P: &Program{Funcs: []*Func{f}, Rules: []*Rule{init, {Body: Blk(Pr(S("ret"), CallE(V("f"), V("$"))), Pr(S("rend")))}, {Body: Blk(Pr(S("second rule"), V("$")))}, end}}, Files: in12}
}

type c07Spec struct {
	Tree string `json:"tree"`
	Ctx  int    `json:"ctx"`
	Text string `json:"text,omitempty"`
}

func c07Check(c *fw.Ctx, t *c7Node, ctx int) *fw.Violation {
	pc := c7Program(t, ctx)
	v, _, _ := pc.check(c)
	return v
}

func c7States(c *fw.Ctx, t *c7Node, parent string) {
	c.State(parent + " > " + c7Names[t.K])
	for _, k := range t.Kids {
		c7States(c, k, c7Names[t.K])
	}
}

// extra fixed programs: 12-key object iteration (more than one hash bucket), unbraced dangling else, nested loop exits
func c07Extras() []*progCase {
	keys := []string{"k07", "k01", "k12", "k03", "k09", "k05", "k11", "k02", "k08", "k04", "k10", "k06"}
	vals := make([]Expr, len(keys))
	for i := range keys {
		vals[i] = N(strconv.Itoa(i))
	}
	big := func() Expr { return &ObjLit{Keys: keys, Vals: vals} }
	var out []*progCase
	for _, two := range []bool{false, true} {
		f := &ForIn{V: "k", Iter: V("o"), Body: Blk(Pr(V("k")))}
		if two {
			f.W = "x"
			f.Body = Blk(Pr(V("k"), V("x")))
		}
		out = append(out, &progCase{P: &Program{Rules: []*Rule{{Kind: "BEGIN", Body: Blk(Ex(Asg("=", V("o"), big())), f, f, Pr(V("o")))}}}})
	}
	for _, a := range []bool{false, true} {
		for _, b := range []bool{false, true} {
			inner := &If{Cond: &BoolLit{B: b}, Then: Pr(S("s1")), Else: Pr(S("s2"))}
			out = append(out, &progCase{P: &Program{Rules: []*Rule{{Kind: "BEGIN", Body: Blk(&If{Cond: &BoolLit{B: a}, Then: inner}, Pr(S("end")))}}}})
			inner2 := &If{Cond: &BoolLit{B: b}, Then: Pr(S("s1"))}
			out = append(out, &progCase{P: &Program{Rules: []*Rule{{Kind: "BEGIN", Body: Blk(&If{Cond: &BoolLit{B: a}, Then: inner2, Else: Pr(S("s2"))}, Pr(S("end")))}}}})
		}
	}
	// for-in visits each element as it is at the time of the visit: bodies that replace an element the loop has not reached
	// yet (directly, through an alias, in a callee; the container's shape never changes), with break / continue driven by
	// the value that arrives
	setl := &Func{Name: "setl", Params: []string{"c", "k", "val"}, Body: Blk(Ex(Asg("=", Idx(V("c"), V("k")), V("val"))))}
	arr := func() Stmt { return Ex(Asg("=", V("a"), Arr_(N("1"), N("2"), N("3"), N("4")))) }
	obj := func() Stmt {
		return Ex(Asg("=", V("o"), &ObjLit{Keys: []string{"b", "a", "d", "c"}, Vals: []Expr{N("1"), N("2"), N("3"), N("4")}}))
	}
	lt3 := func() Expr { return Bin("<", V("i"), N("3")) }
	next := func() Expr { return Idx(V("a"), Bin("+", V("i"), N("1"))) }
	bodies := [][]Stmt{
		{arr(), &ForIn{V: "v", W: "i", Iter: V("a"), Body: Blk(Pr(V("i"), V("v")), &If{Cond: lt3(), Then: Ex(Asg("=", next(), Bin("*", V("v"), N("10"))))})}, Pr(V("a"))},
		{arr(), &ForIn{V: "v", W: "i", Iter: V("a"), Body: Blk(Pr(V("i"), V("v")), &If{Cond: lt3(), Then: Ex(Asg("+=", next(), V("v")))})}, Pr(V("a"))},
		{arr(), Ex(Asg("=", V("b"), V("a"))), &ForIn{V: "v", Iter: V("a"), Body: Blk(Pr(V("v")), Ex(Asg("=", Idx(V("b"), N("3")), S("late"))), Ex(Asg("=", Idx(V("b"), N("0")), S("early"))))}, Pr(V("a"))},
		{arr(), &ForIn{V: "v", W: "i", Iter: V("a"), Body: Blk(Pr(V("v")), Ex(CallE(V("setl"), V("a"), N("2"), Arr_(V("i")))))}, Pr(V("a"))},
		{arr(), &ForIn{V: "v", W: "i", Iter: V("a"), Body: Blk(Ex(Asg("=", Idx(V("a"), V("i")), N("0"))), Pr(V("v")))}, Pr(V("a"))},
		{arr(), &ForIn{V: "v", Iter: V("a"), Body: Blk(&If{Cond: Bin("==", V("v"), S("stop")), Then: &Break{}}, Pr(V("v")), Ex(Asg("=", Idx(V("a"), N("2")), S("stop"))))}, Pr(S("after"), V("v"))},
		{arr(), &ForIn{V: "v", W: "i", Iter: V("a"), Body: Blk(&If{Cond: Bin("==", V("v"), S("skip")), Then: &Continue{}}, Pr(V("v")), &If{Cond: lt3(), Then: Ex(Asg("=", next(), S("skip")))})}, Pr(V("a"))},
		{arr(), &ForIn{V: "v", Iter: V("a"), Body: &ForIn{V: "w", W: "j", Iter: V("a"), Body: Blk(Pr(V("v"), V("w")), Ex(Asg("=", Idx(V("a"), N("3")), Bin("+", V("v"), V("w")))))}}, Pr(V("a"))},
		{arr(), &ForIn{V: "v", W: "i", Iter: V("a"), Body: Blk(Pr(V("v")), &If{Cond: lt3(), Then: Ex(Asg("=", next(), &ObjLit{Keys: []string{"from"}, Vals: []Expr{V("i")}}))})}, Pr(V("a"))},
		{obj(), &ForIn{V: "k", W: "v", Iter: V("o"), Body: Blk(Pr(V("k"), V("v")), Ex(Asg("=", Mem(V("o"), "c"), S("late"))), Ex(Asg("=", Mem(V("o"), "d"), Arr_(V("k")))))}, Pr(V("o"))},
		{obj(), &ForIn{V: "k", W: "v", Iter: V("o"), Body: Blk(&If{Cond: Bin("==", V("v"), S("stop")), Then: &Break{}}, Pr(V("k"), V("v")), Ex(Asg("=", Mem(V("o"), "a"), S("stop"))), Ex(Asg("=", Mem(V("o"), "b"), S("stop"))), Ex(Asg("=", Mem(V("o"), "c"), S("stop"))), Ex(Asg("=", Mem(V("o"), "d"), S("stop"))))}, Pr(S("after"), V("k"))},
		{obj(), Ex(Asg("=", V("p"), V("o"))), &ForIn{V: "k", W: "v", Iter: V("o"), Body: Blk(Pr(V("k"), V("v")), Ex(CallE(V("setl"), V("p"), S("d"), V("k"))), Ex(Asg("+=", Mem(V("p"), "c"), N("100"))))}, Pr(V("o"))},
		{obj(), &ForIn{V: "k", Iter: V("o"), Body: Blk(Pr(V("k"), Idx(V("o"), V("k"))), Ex(Asg("=", Mem(V("o"), "c"), N("9"))))}},
	}
	for _, b := range bodies {
		out = append(out, &progCase{P: &Program{Funcs: []*Func{setl}, Rules: []*Rule{{Kind: "BEGIN", Body: Blk(b...)}}}})
	}
	// a loop statement that is entered again, through recursion, while an outer execution of the same statement is still
	// running: each execution has its own position
	tree := func() Expr {
		return &ObjLit{Keys: []string{"a", "b", "c"}, Vals: []Expr{&ObjLit{Keys: []string{"x", "y"}, Vals: []Expr{N("1"), N("2")}}, N("3"),
			&ObjLit{Keys: []string{"z"}, Vals: []Expr{&ObjLit{Keys: []string{"q", "p"}, Vals: []Expr{N("4"), Arr_(N("5"), Arr_(N("6"), N("7")))}}}}}}
	}
	path := func(k Expr) Expr { return Bin("+", Bin("+", V("p"), S("/")), k) }
	walk2 := &Func{Name: "walk", Params: []string{"o", "p"}, Body: Blk(&ForIn{V: "k", W: "v", Iter: V("o"), Body: Blk(
		&If{Cond: Bin("||", &IsExpr{V("v"), "object"}, &IsExpr{V("v"), "array"}), Then: Blk(Ex(CallE(V("walk"), V("v"), path(V("k"))))), Else: Pr(path(V("k")), V("v"))})})}
	walk1 := &Func{Name: "walk", Params: []string{"o", "p"}, Body: Blk(&ForIn{V: "k", Iter: V("o"), Body: Blk(
		&If{Cond: &IsExpr{Idx(V("o"), V("k")), "object"}, Then: Blk(Ex(CallE(V("walk"), Idx(V("o"), V("k")), path(V("k"))))), Else: Pr(path(V("k")), Idx(V("o"), V("k")))})})}
	count := &Func{Name: "count", Params: []string{"n", "i"}, Body: Blk(Ex(Asg("=", V("i"), N("0"))), &While{Cond: Bin("<", V("i"), V("n")), Body: Blk(Ex(&Postfix{"++", V("i")}), Pr(S("level"), V("n"), S("i"), V("i")), &If{Cond: Bin(">", V("n"), N("1")), Then: Blk(Ex(CallE(V("count"), Bin("-", V("n"), N("1")))))})}, &Return{X: V("n")})}
	cfor := &Func{Name: "cfor", Params: []string{"n"}, Body: Blk(&For{Init: Asg("=", V("j"), N("0")), Cond: Bin("<", V("j"), N("2")), Post: &Postfix{"++", V("j")}, Body: Blk(Pr(S("level"), V("n"), S("j"), V("j")), &If{Cond: Bin(">", V("n"), N("0")), Then: Blk(Ex(CallE(V("cfor"), Bin("-", V("n"), N("1")))))})})}
	chars := &Func{Name: "chars", Params: []string{"s"}, Body: Blk(&ForIn{V: "ch", W: "off", Iter: V("s"), Body: Blk(Pr(V("s"), V("ch"), V("off")), &If{Cond: Bin(">", CallE(Mem(V("s"), "length")), N("1")), Then: Blk(Ex(CallE(V("chars"), V("ch"))))})})}
	out = append(out,
		&progCase{P: &Program{Funcs: []*Func{walk2}, Rules: []*Rule{{Kind: "BEGIN", Body: Blk(Ex(CallE(V("walk"), tree(), S(""))))}}}},
		&progCase{P: &Program{Funcs: []*Func{walk1}, Rules: []*Rule{{Kind: "BEGIN", Body: Blk(Ex(CallE(V("walk"), tree(), S(""))))}}}},
		&progCase{P: &Program{Funcs: []*Func{walk2}, Rules: []*Rule{{Body: Blk(Ex(CallE(V("walk"), V("$"), S("$"))))}}}, Files: []inFile{{"in.json", `[{"a":{"x":1,"y":2},"b":3,"c":4},{"m":[{"n":1},{"o":2}],"l":0}]`}}},
		&progCase{P: &Program{Funcs: []*Func{count}, Rules: []*Rule{{Kind: "BEGIN", Body: Blk(Pr(CallE(V("count"), N("3"))))}}}},
		&progCase{P: &Program{Funcs: []*Func{cfor}, Rules: []*Rule{{Kind: "BEGIN", Body: Blk(Ex(CallE(V("cfor"), N("2"))))}}}},
		&progCase{P: &Program{Funcs: []*Func{chars}, Rules: []*Rule{{Kind: "BEGIN", Body: Blk(Ex(CallE(V("chars"), S("abé"))))}}}},
	)
	// loop variables are ordinary names, looked up each time the loop starts: the same for-in writes a global at one call
	// and a caller's parameter of that name at the next
	items := &Func{Name: "items", Params: []string{"arr"}, Body: Blk(&ForIn{V: "k", W: "v", Iter: V("arr"), Body: Blk(Pr(S("item"), V("k"), V("v")))}, &Return{X: V("k")})}
	tagged := &Func{Name: "tagged", Params: []string{"k", "arr"}, Body: Blk(Pr(S("tagged sees"), V("k")), Ex(Asg("=", V("r"), CallE(V("items"), V("arr")))), Pr(S("tagged's k now"), V("k"), V("r")))}
	tagv := &Func{Name: "tagv", Params: []string{"v"}, Body: Blk(Ex(CallE(V("items"), Arr_(S("x"), S("y")))), Pr(S("tagv's v now"), V("v")))}
	counted := &Func{Name: "counted", Params: []string{"n"}, Body: Blk(&For{Init: Asg("=", V("i"), N("0")), Cond: Bin("<", V("i"), V("n")), Post: &Postfix{"++", V("i")}, Body: Blk(Pr(S("i"), V("i")))}, &Return{X: V("i")})}
	hasI := &Func{Name: "hasI", Params: []string{"i"}, Body: Blk(Pr(S("counted returns"), CallE(V("counted"), N("2"))), Pr(S("hasI's i now"), V("i")))}
	out = append(out,
		&progCase{P: &Program{Funcs: []*Func{items, tagged, tagv}, Rules: []*Rule{{Kind: "BEGIN", Body: Blk(
			Ex(Asg("=", V("k"), S("gk"))), Ex(Asg("=", V("v"), S("gv"))), // the names exist as globals before any loop runs
			Ex(CallE(V("items"), Arr_(N("1"), N("2")))), Pr(S("global k v"), V("k"), V("v")),
			Ex(CallE(V("tagged"), S("T"), Arr_(N("30"), N("40"), N("50")))), Pr(S("global k v"), V("k"), V("v")),
			Ex(CallE(V("tagv"), S("V"))), Pr(S("global k v"), V("k"), V("v")),
			Ex(CallE(V("items"), &ObjLit{Keys: []string{"p"}, Vals: []Expr{N("9")}})), Pr(S("global k v"), V("k"), V("v")))}}}},
		&progCase{P: &Program{Funcs: []*Func{items, tagged}, Rules: []*Rule{{Body: Blk(
			&ForIn{V: "k", W: "v", Iter: Arr_(V("$")), Body: Blk(Pr(S("rule loop"), V("k"), V("v")))},
			Ex(CallE(V("items"), Arr_(S("direct")))),
			Ex(CallE(V("tagged"), V("$"), Arr_(V("$"), V("$")))), Pr(S("rule k v"), V("k"), V("v")))}}}, Files: []inFile{{"in.json", `[7,8]`}}},
		&progCase{P: &Program{Funcs: []*Func{counted, hasI}, Rules: []*Rule{{Kind: "BEGIN", Body: Blk(
			Ex(Asg("=", V("i"), S("gi"))), Pr(CallE(V("counted"), N("2")), V("i")), Ex(CallE(V("hasI"), S("mine"))), Pr(S("global i"), V("i")), Pr(CallE(V("counted"), N("1")), V("i")))}}}},
	)
	// continue / break in a for-in with two variables: the second variable of the NEXT round is still the right one
	skip := func(v string, vals ...string) Expr {
		var e Expr = Bin("==", V(v), S(vals[0]))
		for _, x := range vals[1:] {
			e = Bin("||", e, Bin("==", V(v), S(x)))
		}
		return e
	}
	out = append(out,
		&progCase{P: &Program{Rules: []*Rule{{Kind: "BEGIN", Body: Blk(&ForIn{V: "ch", W: "off", Iter: S("abcdé fgé"), Body: Blk(&If{Cond: skip("ch", "b", "é", " "), Then: Blk(&Continue{})}, Pr(V("ch"), V("off")))}, Pr(S("after"), V("ch"), V("off")))}}}},
		&progCase{P: &Program{Rules: []*Rule{{Kind: "BEGIN", Body: Blk(&ForIn{V: "v", W: "i", Iter: Arr_(S("a"), S("b"), S("c"), S("d")), Body: Blk(&If{Cond: skip("v", "a", "c"), Then: Blk(&Continue{})}, Pr(V("v"), V("i")))}, Pr(S("after"), V("v"), V("i")))}}}},
		&progCase{P: &Program{Rules: []*Rule{{Kind: "BEGIN", Body: Blk(&ForIn{V: "k", W: "v", Iter: &ObjLit{Keys: []string{"a", "b", "c"}, Vals: []Expr{N("1"), N("2"), N("3")}}, Body: Blk(&If{Cond: skip("k", "a"), Then: Blk(&Continue{})}, Pr(V("k"), V("v")), &If{Cond: skip("k", "b"), Then: Blk(&Break{})})}, Pr(S("after"), V("k"), V("v")))}}}},
	)
	// loops that run long: nothing changes at the 1 000th, 10 000th or 65 536th iteration
	for _, n := range []string{"1001", "10003", "65537"} {
		out = append(out,
			&progCase{P: &Program{Rules: []*Rule{{Kind: "BEGIN", Body: Blk(&For{Init: Asg("=", V("i"), N("0")), Cond: Bin("<", V("i"), N(n)), Post: &Postfix{"++", V("i")}, Body: Blk(Ex(Asg("+=", V("t"), N("2"))))}, Pr(S("for"), V("i"), V("t")))}}}, MaxSteps: 3_000_000},
			&progCase{P: &Program{Rules: []*Rule{{Kind: "BEGIN", Body: Blk(&While{Cond: Bin("<", V("w"), N(n)), Body: Blk(Ex(&Postfix{"++", V("w")}), &If{Cond: Bin("==", Bin("%", V("w"), N("5000")), N("0")), Then: Pr(S("at"), V("w"))})}, Pr(S("while"), V("w")))}}}, MaxSteps: 3_000_000},
			&progCase{P: &Program{Rules: []*Rule{{Kind: "BEGIN", Body: Blk(Ex(Asg("=", V("a"), Arr_())), &While{Cond: Bin("<", CallE(Mem(V("a"), "length")), N(n)), Body: Blk(Ex(CallE(Mem(V("a"), "push"), CallE(Mem(V("a"), "length")))))},
				&ForIn{V: "v", W: "j", Iter: V("a"), Body: Blk(Ex(Asg("+=", V("s"), Bin("-", V("v"), V("j")))), Ex(&Postfix{"++", V("c")}))}, Pr(S("for-in"), V("c"), V("s"), V("v"), V("j")))}}}, MaxSteps: 3_000_000},
		)
	}
	// the same over the input document
	out = append(out, &progCase{P: &Program{Rules: []*Rule{{Kind: "BEGINFILE", Body: Blk(&ForIn{V: "v", W: "i", Iter: V("$"), Body: Blk(Pr(V("i"), V("v")), &If{Cond: lt3(), Then: Ex(Asg("=", Idx(V("$"), Bin("+", V("i"), N("1"))), Bin("*", V("v"), N("10"))))})})}, {Body: Blk(Pr(V("$")))}}},
		Files: []inFile{{"in.json", `[1,2,3,4]`}}, Root: true})
	return out
}

func init() {
	size := func(t fw.Tier) int {
		if t == fw.Thorough {
			return 6
		}
		return 5
	}
	register(addTok(tokFramesC07, &fw.Prop{
		ID: "C07",
		Rule: "all statement trees with <= N nodes over 25 constructs (trace print, if / if-else with true, false and data-driven conditions, while with a counting and a false condition, three-clause for, for-in over array / object / string with one and two variables and over the three empty iterables, two-statement block, break, continue, return, next, exit), " +
			"each placed in a BEGIN rule, in the first of two pattern rules over [1,2], in a function called (inside a print list) from such a rule, and in the first of two pattern rules over a stream of an object, a number and a string; trees that use break/continue outside a loop or return outside a function are left out (they are syntax errors, C11); oracle: the model's exact output trace (DESIGN.md 3.11-3.13); " +
			"a state is a (enclosing construct > construct) pair that was executed; non-trivial = such pairs; plus fixed programs for 12-key objects, unbraced dangling else, 3 programs in which one loop statement writes a global at one call and a caller's parameter of that name at the next (names are looked up dynamically), 9 loops of 1 001 / 10 003 / 65 537 iterations (for, while, for-in), 6 loops re-entered through recursion while an outer execution of the same statement is running (tree walks over objects / arrays / strings, while and for with shared counters), and 14 for-in loops whose body replaces an element not yet visited (directly, through an alias, in a callee, in the input document) with break / continue driven by the value that arrives",
		Plan:        func(t fw.Tier) int { return c7NKinds * 4 },
		Bound:       func(t fw.Tier) string { return fmt.Sprintf("all valid trees with <= %d nodes x 4 placements", size(t)) },
		Assumptions: []string{"reference interpreter mc/refsem (statements, calls, rule schedule)", "object key order probed from the implementation once per key sequence (3.11)"},
		Run: func(c *fw.Ctx, u int) {
			root, ctx := u/4, u%4
			for n := 1; n <= size(c.Tier); n++ {
				if c.Expired() {
					return
				}
				c7Enum(n, root, func(t *c7Node) {
					if !c7Valid(t, false, ctx) {
						return
					}
					c.Do(func() any { return c07Spec{Tree: t.encode(), Ctx: ctx, Text: c7Program(t, ctx).source()} }, func() *fw.Violation {
						v := c07Check(c, t, ctx)
						if v == nil && n <= 3 {
							c7States(c, t, []string{"BEGIN", "pattern rule", "function", "pattern rule over non-array roots"}[ctx])
						}
						return v
					})
				})
			}
			if u == 0 {
				for i, pc := range c07Extras() {
					pc, i := pc, i
					c.Do(func() any { return c07Spec{Tree: "extra", Ctx: i} }, func() *fw.Violation { return pc.mustCheck(c, "fixed control-flow programs") })
				}
			}
		},
		Finish: func(c *fw.Ctx) {
			for s := range c.States {
				c.NonTrivial(s)
			}
		},
		Replay: func(c *fw.Ctx, raw json.RawMessage) *fw.Violation {
			var s c07Spec
			if !unmarshal(raw, &s) {
				return nil
			}
			if s.Tree == "extra" {
				v, _, _ := c07Extras()[s.Ctx].check(c)
				return v
			}
			t, _ := c7Decode(s.Tree)
			return c07Check(c, t, s.Ctx)
		},
	}))
}
