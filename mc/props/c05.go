package props

import (
	"encoding/json"
	"fmt"
	"math"
	"strconv"
	"strings"

	"verif/mc/drive"
	"verif/mc/fw"
	. "verif/mc/refsem"
)

// C05: operators compute the documented result for every combination of
// operand kinds (tables 3.2-3.8).

type c05Operand struct {
	Name  string
	Lit   func(slot string) Expr // expression denoting the operand in place (slot distinguishes unset variables)
	JSON  string                 // document text, "" when JSON cannot express it
	NoVar bool                   // cannot be stored in a variable (functions)
	Path  func(base Expr) Expr   // document mode: how the operand is reached from its field (nil: the field itself)
}

func numOp(text string) c05Operand {
	var e Expr
	if strings.HasPrefix(text, "-") {
		e = Un("-", N(text[1:]))
	} else {
		e = N(text)
	}
	j := text
	return c05Operand{Name: text, Lit: func(string) Expr { return e }, JSON: j}
}

func strOp(s string) c05Operand {
	b, _ := json.Marshal(s)
	return c05Operand{Name: strconv.Quote(s), Lit: func(string) Expr { return S(s) }, JSON: string(b)}
}

func c05Operands(thorough bool) []c05Operand {
	ops := []c05Operand{}
	for _, t := range []string{"0", "-0", "1", "-1", "2", "3", "0.5", "-2.5", "7", "1000000000000000000000", "0.0000001", "9007199254740993"} {
		ops = append(ops, numOp(t))
	}
	for _, s := range []string{"", "a", "b", "abc", "0", "1", "1.0", "-1", " 1", "1 ", "1e3", "0x10", "10", "9", "é", "(", "a+", "1.14", "2.28", "0.1"} {
		ops = append(ops, strOp(s))
	}
	ops = append(ops,
		c05Operand{Name: "true", Lit: func(string) Expr { return &BoolLit{true} }, JSON: "true"},
		c05Operand{Name: "false", Lit: func(string) Expr { return &BoolLit{false} }, JSON: "false"},
		c05Operand{Name: "null", Lit: func(string) Expr { return &NullLit{} }, JSON: "null"},
		c05Operand{Name: "unset", Lit: func(slot string) Expr { return V("u" + slot) }},
		c05Operand{Name: "[]", Lit: func(string) Expr { return Arr_() }, JSON: "[]"},
		c05Operand{Name: "[1]", Lit: func(string) Expr { return Arr_(N("1")) }, JSON: "[1]"},
		c05Operand{Name: "{}", Lit: func(string) Expr { return &ObjLit{} }, JSON: "{}"},
		c05Operand{Name: "{a:1}", Lit: func(string) Expr { return &ObjLit{Keys: []string{"a"}, Vals: []Expr{N("1")}} }, JSON: `{"a":1}`},
		c05Operand{Name: "/a/", Lit: func(string) Expr { return &RegexLit{"a"} }},
		c05Operand{Name: "/^$/", Lit: func(string) Expr { return &RegexLit{"^$"} }},
		c05Operand{Name: "/a(/", Lit: func(string) Expr { return &RegexLit{"a("} }},
		// values that are null but carry bookkeeping inside the implementation: a read past the end of an array, a missing member
		c05Operand{Name: "null:index past the end", Lit: func(string) Expr { return Idx(Arr_(N("10"), N("20")), N("3")) }, JSON: "[10,20]", Path: func(b Expr) Expr { return Idx(b, N("3")) }},
		c05Operand{Name: "null:missing member", Lit: func(string) Expr { return Mem(&Paren{X: &ObjLit{Keys: []string{"k"}, Vals: []Expr{N("1")}}}, "zz") }, JSON: `{"k":1}`, Path: func(b Expr) Expr { return Mem(Mem(b, "zz"), "deeper") }},
		c05Operand{Name: "fn", Lit: func(string) Expr { return V("fn") }, NoVar: true},
		c05Operand{Name: "printf", Lit: func(string) Expr { return V("printf") }, NoVar: true},
	)
	ops = append(ops, strOp("Infinity"), strOp("1e3")) // numeric strings that do not start with a digit or sign, or carry an exponent
	// doubles no numeral denotes: they arrive through num() (or through a string that coerces to them); section 3.5 rule 5 fixes
	// their comparisons (NaN is neither smaller nor greater than anything), IEEE arithmetic the rest
	for _, t := range []string{"NaN", "Inf", "-Inf"} {
		t := t
		ops = append(ops, c05Operand{Name: "num(" + t + ")", Lit: func(string) Expr { return CallE(V("num"), S(t)) }})
	}
	ops = append(ops, strOp("NaN"), strOp("-Inf"))
	if thorough {
		for _, t := range []string{"4", "-3", "10", "9", "0.25", "-0.75", "5.7", "3.2", "100", "255", "1000", "4294967296", "9007199254740992", "123456789012345680000", "0.1", "0.000000000000000000001"} {
			ops = append(ops, numOp(t))
		}
		for _, s := range []string{"A", "ab", "aa", "B", "true", "null", "1.5", "-0", "+1", "1e999", ".5", "5.", "inf", "nan", "0.0", "00", "a b", "^a", "[", "a|b", "\\d", "10.0", "2", "é", "e", "\t1", "1\n"} {
			ops = append(ops, strOp(s))
		}
		ops = append(ops,
			c05Operand{Name: "[0]", Lit: func(string) Expr { return Arr_(N("0")) }, JSON: "[0]"},
			c05Operand{Name: "[[]]", Lit: func(string) Expr { return Arr_(Arr_()) }, JSON: "[[]]"},
			c05Operand{Name: "{b:[]}", Lit: func(string) Expr { return &ObjLit{Keys: []string{"b"}, Vals: []Expr{Arr_()}} }, JSON: `{"b":[]}`},
			c05Operand{Name: "/(/", Lit: func(string) Expr { return &RegexLit{"("} }},
		)
	}
	return ops
}

var c05BinOps = []string{"+", "-", "*", "/", "%", "==", "!=", "<", "<=", ">", ">=", "~", "!~", "&&", "||"}
var c05Types = []string{"string", "bool", "number", "array", "object", "regex", "unknown", "function", "null", "foo"}
var c05UnOps = []string{"!", "-", "+"}

type c05Spec struct {
	Form string `json:"form"` // bin, is, un, incdec, short
	Op   string `json:"op"`
	L    int    `json:"l"`
	R    int    `json:"r"`
	Mode int    `json:"mode"` // 0 literal, 1 variables, 2 document fields
	Post bool   `json:"post,omitempty"`
	Rev  bool   `json:"rev,omitempty"`
	Text string `json:"text,omitempty"`
}

var c05Fn = &Func{Name: "fn", Body: Blk(&Return{N("1")})}
var c05Side = &Func{Name: "side", Params: []string{"v"}, Body: Blk(Pr(S("side")), &Return{V("v")})}

// c05Build returns the program for a spec, or nil if the combination does not exist.
func c05Build(s c05Spec, ops []c05Operand) *progCase {
	if s.L >= len(ops) || s.R >= len(ops) {
		return nil
	}
	L, R := ops[s.L], ops[s.R]
	unaryForm := s.Form == "un" || s.Form == "incdec" || s.Form == "is"
	var pre []Stmt
	var le, re Expr
	files := []inFile(nil)
	switch s.Mode {
	case 0:
		le, re = L.Lit("l"), R.Lit("r")
	case 1, 3:
		if L.NoVar || (!unaryForm && R.NoVar) {
			return nil
		}
		if L.Name != "unset" {
			pre = append(pre, Ex(Asg("=", V("a"), L.Lit("l"))))
		}
		le = V("a")
		if !unaryForm {
			if R.Name != "unset" {
				pre = append(pre, Ex(Asg("=", V("b"), R.Lit("r"))))
			}
			re = V("b")
		}
	case 2:
		if L.JSON == "" || (!unaryForm && R.JSON == "") {
			return nil
		}
		doc := `{"l":` + L.JSON
		if !unaryForm {
			doc += `,"r":` + R.JSON
		}
		doc += "}"
		files = []inFile{{"in.json", doc}}
		le, re = Mem(V("$"), "l"), Mem(V("$"), "r")
		if L.Path != nil {
			le = L.Path(le)
		}
		if !unaryForm && R.Path != nil {
			re = R.Path(re)
		}
	}
	if s.Form == "incdec" && s.Mode == 0 {
		return nil
	}
	if s.Form == "cond" && s.Mode == 3 {
		return nil
	}
	var e Expr
	var post []Stmt
	switch s.Form {
	case "bin", "cond":
		e = Bin(s.Op, le, re)
	case "short":
		// right operand wrapped in a tracing call: shows whether it was evaluated
		e = Bin(s.Op, le, CallE(V("side"), re))
	case "is":
		e = &IsExpr{le, s.Op}
	case "un":
		e = Un(s.Op, le)
	case "incdec":
		if s.Post {
			e = &Postfix{s.Op, le}
		} else {
			e = Un(s.Op, le)
		}
		post = []Stmt{c05Show(le)}
	}
	body := append(pre, Ex(Asg("=", V("r"), e)), c05Show(V("r")))
	body = append(body, post...)
	if s.Form == "cond" {
		// the same expression where a condition stands: if, while, the test of a for, a leg of && / || / !, a rule pattern
		body = append(append([]Stmt{}, pre...),
			&If{Cond: e, Then: Blk(Pr(S("if: yes"))), Else: Blk(Pr(S("if: no")))},
			&While{Cond: Bin(s.Op, le, re), Body: Blk(Pr(S("while: yes")), &Break{})},
			&For{Init: Asg("=", V("k"), N("0")), Cond: Bin("&&", Bin("<", V("k"), N("1")), Bin(s.Op, le, re)), Post: &Postfix{Op: "++", X: V("k")}, Body: Blk(Pr(S("for: yes")))},
			&If{Cond: Un("!", Bin(s.Op, le, re)), Then: Blk(Pr(S("not: yes")))},
			&If{Cond: Bin("||", &BoolLit{B: false}, Bin(s.Op, le, re)), Then: Blk(Pr(S("or: yes")))},
		)
	}
	p := &Program{Funcs: []*Func{c05Fn, c05Side}}
	if s.Mode == 3 {
		// the operands arrive as parameters of a user function and the operator is applied there
		sub := func(x Expr) Expr {
			if x == nil {
				return nil
			}
			if id, ok := x.(*Ident); ok {
				return V(map[string]string{"a": "p", "b": "q"}[id.Name])
			}
			return x
		}
		var pe Expr
		var ppost []Stmt
		switch s.Form {
		case "bin":
			pe = Bin(s.Op, sub(le), sub(re))
		case "short":
			pe = Bin(s.Op, sub(le), CallE(V("side"), sub(re)))
		case "is":
			pe = &IsExpr{sub(le), s.Op}
		case "un":
			pe = Un(s.Op, sub(le))
		case "incdec":
			if s.Post {
				pe = &Postfix{s.Op, sub(le)}
			} else {
				pe = Un(s.Op, sub(le))
			}
			ppost = []Stmt{c05Show(sub(le))}
		}
		fbody := append([]Stmt{Ex(Asg("=", V("r"), pe)), c05Show(V("r"))}, ppost...)
		p.Funcs = append(p.Funcs, &Func{Name: "opf", Params: []string{"p", "q"}, Body: Blk(fbody...)})
		args := []Expr{V("a")}
		if !unaryForm {
			args = append(args, V("b"))
		}
		body = append(append([]Stmt{}, pre...), Ex(CallE(V("opf"), args...)))
		if s.Form == "incdec" {
			body = append(body, c05Show(V("a"))) // the caller's variable is untouched: scalars are passed by value
		}
	}
	if s.Mode == 2 {
		p.Rules = []*Rule{{Body: Blk(body...)}}
		if s.Form == "cond" {
			p.Rules = append(p.Rules, &Rule{Pattern: Bin(s.Op, le, re), Body: Blk(Pr(S("pattern: yes")))})
		}
	} else {
		p.Rules = []*Rule{{Kind: "BEGIN", Body: Blk(body...)}}
	}
	return &progCase{P: p, Files: files}
}

func c05Show(x Expr) Stmt {
	return Pr(&IsExpr{x, "number"}, &IsExpr{x, "string"}, &IsExpr{x, "bool"}, x)
}

// c05Compare compares outputs line by line; a line "true false false <num>"
// is compared numerically (the text format of numbers is C17's business).
func c05Compare(got, want string) bool {
	if got == want {
		return true
	}
	g, w := strings.Split(got, "\n"), strings.Split(want, "\n")
	if len(g) != len(w) {
		return false
	}
	for i := range g {
		if g[i] == w[i] {
			continue
		}
		const pfx = "true false false "
		if !strings.HasPrefix(g[i], pfx) || !strings.HasPrefix(w[i], pfx) {
			return false
		}
		a, e1 := strconv.ParseFloat(g[i][len(pfx):], 64)
		b, e2 := strconv.ParseFloat(w[i][len(pfx):], 64)
		if e1 != nil || e2 != nil {
			return false
		}
		if !(a == b && math.Signbit(a) == math.Signbit(b)) && !(a != a && b != b) {
			return false
		}
	}
	return true
}

func c05Check(c *fw.Ctx, s c05Spec, ops []c05Operand) *fw.Violation {
	pc := c05Build(s, ops)
	if pc == nil {
		return nil
	}
	res := pc.model()
	if res.Aborted || res.Unfixed != "" {
		c.Note("skipped:"+res.Unfixed, 1)
		return nil
	}
	sp := pc.spec()
	o := run(c, sp)
	c.Traces++
	c.Transitions++
	cls := "error"
	if res.Kind == "none" {
		cls = strings.SplitN(res.Stdout, "\n", 2)[0]
		if i := strings.LastIndex(cls, " "); i >= 0 && len(cls) > 16 {
			cls = cls[:strings.Index(cls, " ")+1] + "…"
		}
	}
	lk, rk := c05Kind(ops[s.L]), c05Kind(ops[s.R])
	if s.Form != "bin" && s.Form != "short" {
		rk = "-"
	}
	cell := fmt.Sprintf("%s %s %s %s", s.Form, s.Op, lk, rk)
	c.State(cell + " => " + res.Kind)
	if res.Kind == "none" {
		c.NonTrivial(cell)
	}
	c.Outcome(res.Kind)
	want := modelKind(res.Kind)
	if o.Kind == want && (o.Kind != drive.KNone || c05Compare(o.Stdout, res.Stdout)) && (o.Kind == drive.KNone || o.Stdout == res.Stdout) {
		return nil
	}
	return expect(sp, o, res.Stdout, want, "operands "+ops[s.L].Name+" , "+ops[s.R].Name+" ; "+res.Err)
}

// c05Stream evaluates ONE expression site over a whole sequence of operand pairs (the elements of the input array), so
// that anything remembered per site (a compiled pattern, a cached coercion) would show: all pairs for which the model
// yields a value, in order or reversed, followed by one pair for which it fails.
func c05Stream(c *fw.Ctx, form, op string, rev bool, ops []c05Operand) *fw.Violation {
	unary := form != "bin"
	var e Expr
	l, r := Mem(V("$"), "l"), Mem(V("$"), "r")
	switch form {
	case "bin":
		e = Bin(op, l, r)
	case "is":
		e = &IsExpr{l, op}
	case "un":
		e = Un(op, l)
	}
	prog := &Program{Rules: []*Rule{{Body: Blk(Ex(Asg("=", V("r"), e)), c05Show(V("r")))}}}
	var good, bad []string
	for li, L := range ops {
		if L.JSON == "" || L.Path != nil {
			continue
		}
		for ri, R := range ops {
			if R.JSON == "" || R.Path != nil || (unary && ri > 0) {
				continue
			}
			_ = li
			el := `{"l":` + L.JSON + `,"r":` + R.JSON + `}`
			res := (&progCase{P: prog, Files: []inFile{{"in.json", "[" + el + "]"}}}).model()
			if res.Kind == "none" {
				good = append(good, el)
			} else if res.Kind == "runtime" {
				bad = append(bad, el)
			}
		}
	}
	if rev {
		for i, j := 0, len(good)-1; i < j; i, j = i+1, j-1 {
			good[i], good[j] = good[j], good[i]
		}
	}
	if len(bad) > 0 {
		good = append(good, bad[len(bad)/2])
	}
	pc := &progCase{P: prog, Files: []inFile{{"in.json", "[" + strings.Join(good, ",") + "]"}}, MaxSteps: 5_000_000}
	res := pc.model()
	if res.Aborted || res.Unfixed != "" {
		return nil
	}
	sp := pc.spec()
	sp.Budget = 50*res.Steps + 10000
	o := run(c, sp)
	c.Traces++
	c.Transitions += int64(len(good))
	want := modelKind(res.Kind)
	if o.Kind == want && c05Compare(o.Stdout, res.Stdout) {
		return nil
	}
	// name the first element whose line differs
	gl, wl := strings.Split(o.Stdout, "\n"), strings.Split(res.Stdout, "\n")
	note := ""
	for i := 0; i < len(wl) && i < len(good); i++ {
		if i >= len(gl) || !c05Compare(gl[i], wl[i]) {
			got := "(nothing)"
			if i < len(gl) {
				got = gl[i]
			}
			note = fmt.Sprintf("element %d %s: want %q, got %q", i, good[i], wl[i], got)
			break
		}
	}
	v := expect(sp, o, res.Stdout, want, note)
	if v == nil {
		v = &fw.Violation{What: "stdout differs from the model", Detail: detail{Program: sp.Program, WantStdout: clip(res.Stdout), Got: drive.Outcome{Stdout: clip(o.Stdout), Kind: o.Kind}, Note: note}}
	}
	if d, ok := v.Detail.(detail); ok {
		d.Files = nil
		d.Note = note
		v.Detail = d
	}
	v.What = "one expression evaluated over a sequence of operand pairs: " + v.What
	return v
}

// c05NumStrings: every string d.dd / dd.dd used as a number must be the nearest double of its digits (one site, one run).
func c05NumStrings(c *fw.Ctx, lo, hi int) *fw.Violation {
	var sb strings.Builder
	var want strings.Builder
	sb.WriteByte('[')
	for i := lo; i < hi; i++ {
		t := fmt.Sprintf("%d.%02d", i/100, i%100)
		if i > lo {
			sb.WriteByte(',')
		}
		sb.WriteString(`"` + t + `"`)
		f, _ := strconv.ParseFloat(t, 64)
		want.WriteString("true false false " + FormatNum(f) + " true true\n")
	}
	sb.WriteByte(']')
	s := drive.Spec{Program: "{ r = $ * 1; print r is number, r is string, r is bool, r, $ == r, -$ == 0 - r }", Files: []drive.File{{Name: "in.json", Data: sb.String()}}, Budget: 2_000_000}
	o := run(c, s)
	c.Traces++
	c.Transitions += int64(hi - lo)
	if o.Kind == drive.KNone && o.Stdout == want.String() {
		return nil
	}
	gl, wl := strings.Split(o.Stdout, "\n"), strings.Split(want.String(), "\n")
	note := ""
	for i := range wl {
		if i >= len(gl) || gl[i] != wl[i] {
			g := ""
			if i < len(gl) {
				g = gl[i]
			}
			note = fmt.Sprintf("string %q: want %q got %q", fmt.Sprintf("%d.%02d", (lo+i)/100, (lo+i)%100), wl[i], g)
			break
		}
	}
	return &fw.Violation{What: "a numeric string used as a number is not the nearest double of its digits", Detail: detail{Program: s.Program, Note: note, Got: drive.Outcome{Kind: o.Kind, Msg: o.Msg}}}
}

// c05Order: every operand position is filled with a tracing call; the trace shows the order (left to right) and which
// operands were evaluated at all.
func c05OrderPrograms() []*progCase {
	tr := func(tag string, v Expr) Expr { return CallE(V("tr"), S(tag), v) }
	trF := &Func{Name: "tr", Params: []string{"tag", "v"}, Body: Blk(Pr(S("eval"), V("tag")), &Return{X: V("v")})}
	id3 := &Func{Name: "id3", Params: []string{"a", "b", "c"}, Body: Blk(Pr(S("in id3"), V("a"), V("b"), V("c")), &Return{X: V("b")})}
	var out []*progCase
	add := func(stmts ...Stmt) {
		body := append([]Stmt{Ex(Asg("=", V("arr"), Arr_(N("10"), N("20"), N("30")))), Ex(Asg("=", V("obj"), &ObjLit{Keys: []string{"k"}, Vals: []Expr{N("1")}}))}, stmts...)
		out = append(out, &progCase{P: &Program{Funcs: []*Func{trF, id3}, Rules: []*Rule{{Kind: "BEGIN", Body: Blk(body...)}}}})
	}
	vals := [][2]Expr{{N("6"), N("3")}, {N("0"), N("5")}, {S("a"), N("1")}, {N("1"), N("0")}, {&NullLit{}, S("")}}
	for _, op := range c05BinOps {
		for _, v := range vals {
			add(Ex(Asg("=", V("r"), Bin(op, tr("L", v[0]), tr("R", v[1])))), c05Show(V("r")))
			add(Ex(Asg("=", V("r"), Bin(op, Bin(op, tr("A", v[0]), tr("B", v[1])), tr("C", v[0])))), c05Show(V("r")))
		}
	}
	add(Ex(Asg("=", V("r"), CallE(V("id3"), tr("1", N("1")), tr("2", N("2")), tr("3", N("3"))))), Pr(V("r")))
	add(Ex(Asg("=", V("r"), Arr_(tr("1", N("1")), tr("2", N("2")), tr("3", N("3"))))), Pr(V("r")))
	add(Ex(Asg("=", V("r"), &ObjLit{Keys: []string{"b", "a"}, Vals: []Expr{tr("b", N("1")), tr("a", N("2"))}})), Pr(V("r")))
	{
		keys := []string{"h", "c", "a", "g", "b", "f", "d", "e"}
		for rep := 0; rep < 3; rep++ {
			var vals []Expr
			for i, k := range keys {
				vals = append(vals, tr(k, N(fmt.Sprint(i+rep))))
			}
			add(Ex(Asg("=", V("r"), &ObjLit{Keys: keys, Vals: vals})), Pr(V("r")), Ex(Asg("=", V("i"), N("0"))),
				Ex(Asg("=", V("r"), &ObjLit{Keys: keys[rep : rep+5], Vals: []Expr{&Postfix{Op: "++", X: V("i")}, &Postfix{Op: "++", X: V("i")}, &Postfix{Op: "++", X: V("i")}, &Postfix{Op: "++", X: V("i")}, &Postfix{Op: "++", X: V("i")}}})), Pr(V("r")))
		}
	}
	add(Ex(Asg("=", V("r"), Idx(tr("base", V("arr")), tr("index", N("1"))))), Pr(V("r")))
	add(Ex(Asg("=", Idx(tr("base", V("arr")), tr("index", N("1"))), tr("value", N("9")))), Pr(V("arr")))
	add(Ex(Asg("=", Mem(tr("base", V("obj")), "z"), tr("value", N("9")))), Pr(V("obj")))
	add(Ex(Asg("+=", Idx(V("arr"), N("0")), tr("value", N("5")))), Pr(V("arr")))
	add(Pr(tr("1", N("1")), tr("2", N("2")), tr("3", N("3"))))
	add(Ex(CallE(V("printf"), tr("fmt", S("%s %f|")), tr("s", S("x")), tr("f", N("2")))), Pr(S("")))
	add(Ex(CallE(Mem(tr("recv", V("arr")), "push"), tr("arg", N("4")))), Pr(V("arr")))
	add(Ex(Asg("=", V("r"), CallE(Mem(tr("recv", V("arr")), "contains"), tr("arg", N("20"))))), Pr(V("r")))
	add(Ex(Asg("=", V("r"), &MatchExpr{Subj: tr("subject", N("2")), Cases: []MatchCase{{Pats: []Expr{N("1")}, Body: tr("body1", N("10"))}, {Pats: []Expr{N("2")}, Body: tr("body2", N("20"))}, {Pats: []Expr{V("_")}, Body: tr("body3", N("30"))}}})), Pr(V("r")))
	add(&If{Cond: tr("cond", N("0")), Then: Pr(tr("then", N("1"))), Else: Pr(tr("else", N("2")))})
	add(&For{Init: Asg("=", V("i"), tr("init", N("0"))), Cond: Bin("<", V("i"), tr("cond", N("2"))), Post: Asg("=", V("i"), Bin("+", V("i"), tr("post", N("1")))), Body: Pr(S("body"), V("i"))})
	add(&ForIn{V: "v", Iter: tr("iter", V("arr")), Body: Pr(tr("body", V("v")))})
	add(Ex(Asg("=", V("r"), Un("-", tr("x", N("1"))))), Ex(Asg("=", V("r2"), Un("!", tr("y", N("0"))))), Pr(V("r"), V("r2")))
	add(Ex(Asg("=", V("r"), Bin("+", Bin("*", tr("a", N("2")), tr("b", N("3"))), Bin("*", tr("c", N("4")), tr("d", N("5")))))), Pr(V("r")))
	add(Ex(Asg("=", V("r"), Bin("&&", Bin("||", tr("a", N("0")), tr("b", N("1"))), Bin("||", tr("c", N("0")), tr("d", N("0")))))), Pr(V("r")))
	return out
}

// c05DerivedPrograms: a number sits in one location; every form derived from it (string form in concatenation and ~,
// rendering, JSON text, arithmetic, comparison) is taken, the location is changed by one of the ways a number can change,
// and every form is taken again -- twice. Anything remembered about the old number would show.
func c05DerivedPrograms() []*progCase {
	type loc struct {
		init func(n string) []Stmt
		x    func() Expr
		doc  bool
	}
	locs := []loc{
		{func(n string) []Stmt { return []Stmt{Ex(Asg("=", V("i"), N(n)))} }, func() Expr { return V("i") }, false},
		{func(n string) []Stmt {
			return []Stmt{Ex(Asg("=", V("o"), &ObjLit{Keys: []string{"k"}, Vals: []Expr{N(n)}}))}
		}, func() Expr { return Mem(V("o"), "k") }, false},
		{func(n string) []Stmt { return []Stmt{Ex(Asg("=", V("a"), Arr_(N(n), N("5"))))} }, func() Expr { return Idx(V("a"), N("0")) }, false},
		{nil, func() Expr { return Mem(V("$"), "x") }, true},
	}
	muts := []func(x Expr) Expr{
		func(x Expr) Expr { return &Postfix{Op: "++", X: x} },
		func(x Expr) Expr { return Un("++", x) },
		func(x Expr) Expr { return &Postfix{Op: "--", X: x} },
		func(x Expr) Expr { return Un("--", x) },
		func(x Expr) Expr { return Asg("+=", x, N("1")) },
		func(x Expr) Expr { return Asg("-=", x, N("0.5")) },
		func(x Expr) Expr { return Asg("*=", x, N("2")) },
		func(x Expr) Expr { return Asg("/=", x, N("4")) },
		func(x Expr) Expr { return Asg("=", x, Bin("+", x, N("1"))) },
		func(x Expr) Expr { return Asg("=", x, S("9")) },
	}
	take := func(x func() Expr) Stmt {
		return Pr(Bin("+", S("n"), x()), Bin("+", x(), S("s")), Bin("~", x(), &RegexLit{Src: "^9$"}), Bin("!~", x(), &RegexLit{Src: "1"}), x(), Arr_(x()),
			Bin("+", x(), N("1")), Bin("<", x(), N("10")), Bin("==", x(), N("9")), Un("-", x()), Bin("+", Bin("+", S("<"), x()), S(">")))
	}
	var out []*progCase
	for _, n := range []string{"9", "0", "8", "1.5", "99"} {
		for _, l := range locs {
			for _, m1 := range muts {
				for _, m2 := range muts {
					var body []Stmt
					if !l.doc {
						body = append(body, l.init(n)...)
					}
					body = append(body, take(l.x), Blk(Ex(m1(l.x()))), take(l.x), Blk(Ex(m2(l.x()))), take(l.x)) // a statement that starts with ++ would continue the line before it
					pc := &progCase{P: &Program{Rules: []*Rule{{Kind: "BEGIN", Body: Blk(body...)}}}}
					if l.doc {
						pc.P.Rules[0].Kind = ""
						pc.Files = []inFile{{"in.json", `[{"x":` + n + `},{"x":` + n + `}]`}}
						pc.Root = true
					}
					out = append(out, pc)
				}
			}
		}
	}
	// the loop idiom: one site, the counter stepped by the loop header
	for _, post := range []func(x Expr) Expr{muts[0], muts[1], muts[4], muts[8]} {
		out = append(out, &progCase{P: &Program{Rules: []*Rule{{Kind: "BEGIN", Body: Blk(
			&For{Init: Asg("=", V("i"), N("8")), Cond: Bin("<", V("i"), N("12")), Post: post(V("i")), Body: take(func() Expr { return V("i") })})}}}})
	}
	return out
}

func c05Kind(o c05Operand) string {
	n := o.Name
	switch {
	case n == "true" || n == "false":
		return "bool"
	case n == "null" || n == "unset" || n == "fn" || n == "printf":
		return n
	case strings.HasPrefix(n, "null:"):
		return "null"
	case strings.HasPrefix(n, "\""):
		return "str"
	case strings.HasPrefix(n, "["):
		return "arr"
	case strings.HasPrefix(n, "{"):
		return "obj"
	case strings.HasPrefix(n, "/"):
		return "regex"
	}
	return "num"
}

func init() {
	register(addTok(tokFramesC05, &fw.Prop{
		ID: "C05",
		Rule: "every binary operator x every ordered pair of the operand alphabet x four supply modes (literal, variables, document fields, parameters of a user function that applies the operator); every binary operator also where a condition stands (if, while, the test of a for, under ! and ||, a rule pattern); every unary operator, ++/-- in both positions, `is` x 10 type names, " +
			"short-circuit probes with a tracing call, and every operator as ONE expression site evaluated over the whole sequence of operand pairs (forward and reversed, ending in a failing pair); tracing calls in every operand position of every operator and composite form incl. 8-key object literals (order and extent of evaluation); a number in a variable / member / array cell / document field with every derived form (string form in + and ~, rendering, JSON text, arithmetic, comparison) taken before and after each ordered pair of 10 ways to change it; every string d.dd / dd.dd as a number; a state is a table cell (form, operator, left kind, right kind, outcome); non-trivial = cells whose model result is a value; numeric results are compared as doubles",
		Plan: func(t fw.Tier) int { return len(c05Operands(t == fw.Thorough)) + 1 },
		Bound: func(t fw.Tier) string {
			return fmt.Sprintf("operand alphabet of %d values, all ordered pairs, all operators, 4 supply modes", len(c05Operands(t == fw.Thorough)))
		},
		Assumptions: []string{"reference tables DESIGN.md 3.2-3.8 as implemented in mc/refsem", "Go regexp is RE2", "strconv.ParseFloat decides which strings are numerals"},
		Run: func(c *fw.Ctx, u int) {
			ops := c05Operands(c.Thorough())
			if u == len(ops) {
				for i, pc := range c05OrderPrograms() {
					pc, i := pc, i
					c.Do(func() any { return c05Spec{Form: "order", L: i, Text: pc.source()} }, func() *fw.Violation { return pc.mustCheck(c, "evaluation order") })
				}
				copyTimeRun(c, "return") // an operand that is a call result is a value: a later operand cannot change it
				for i, pc := range c05DerivedPrograms() {
					pc, i := pc, i
					c.Do(func() any { return c05Spec{Form: "derived", L: i, Text: pc.source()} }, func() *fw.Violation { return pc.mustCheck(c, "derived forms") })
				}
				for lo := 0; lo < 10000; lo += 1000 {
					lo := lo
					c.Do(func() any { return c05Spec{Form: "numstr", L: lo} }, func() *fw.Violation { return c05NumStrings(c, lo, lo+1000) })
				}
				for _, rev := range []bool{false, true} {
					for _, op := range c05BinOps {
						s := c05Spec{Form: "stream-bin", Op: op, Rev: rev}
						c.Do(func() any { return s }, func() *fw.Violation { return c05Stream(c, "bin", s.Op, s.Rev, ops) })
					}
					for _, t := range c05Types {
						s := c05Spec{Form: "stream-is", Op: t, Rev: rev}
						c.Do(func() any { return s }, func() *fw.Violation { return c05Stream(c, "is", s.Op, s.Rev, ops) })
					}
					for _, op := range c05UnOps {
						s := c05Spec{Form: "stream-un", Op: op, Rev: rev}
						c.Do(func() any { return s }, func() *fw.Violation { return c05Stream(c, "un", s.Op, s.Rev, ops) })
					}
				}
				return
			}
			do := func(s c05Spec) {
				c.Do(func() any {
					if pc := c05Build(s, ops); pc != nil {
						s.Text = pc.source()
						if len(pc.Files) > 0 {
							s.Text += "   <<< " + pc.Files[0].Text
						}
					}
					return s
				}, func() *fw.Violation { return c05Check(c, s, ops) })
			}
			for mode := 0; mode < 4; mode++ {
				for r := range ops {
					for _, op := range c05BinOps {
						do(c05Spec{Form: "bin", Op: op, L: u, R: r, Mode: mode})
						if op != "&&" && op != "||" {
							do(c05Spec{Form: "cond", Op: op, L: u, R: r, Mode: mode})
						}
					}
					for _, op := range []string{"&&", "||"} {
						do(c05Spec{Form: "short", Op: op, L: u, R: r, Mode: mode})
					}
				}
				for _, t := range c05Types {
					do(c05Spec{Form: "is", Op: t, L: u, Mode: mode})
				}
				for _, op := range c05UnOps {
					do(c05Spec{Form: "un", Op: op, L: u, Mode: mode})
				}
				for _, op := range []string{"++", "--"} {
					do(c05Spec{Form: "incdec", Op: op, L: u, Mode: mode})
					do(c05Spec{Form: "incdec", Op: op, L: u, Mode: mode, Post: true})
				}
			}
		},
		Replay: func(c *fw.Ctx, raw json.RawMessage) *fw.Violation {
			if v, ok := copyTimeReplay(c, raw); ok {
				return v
			}
			var s c05Spec
			if !unmarshal(raw, &s) {
				return nil
			}
			if s.Form == "order" {
				v, _, _ := c05OrderPrograms()[s.L].check(c)
				return v
			}
			if s.Form == "derived" {
				v, _, _ := c05DerivedPrograms()[s.L].check(c)
				return v
			}
			if s.Form == "numstr" {
				return c05NumStrings(c, s.L, s.L+1000)
			}
			if strings.HasPrefix(s.Form, "stream-") {
				return c05Stream(c, strings.TrimPrefix(s.Form, "stream-"), s.Op, s.Rev, c05Operands(c.Thorough()))
			}
			return c05Check(c, s, c05Operands(c.Thorough()))
		},
	}))
}
