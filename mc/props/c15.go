package props

import (
	"encoding/json"
	"fmt"

	"verif/mc/fw"
	. "verif/mc/refsem"
)

// C15: array methods behave like an ideal list under every sequence of operations.

type c15Op struct {
	name string
	mk   func(a func() Expr) Expr // the operation as an expression on the array denoted by a()
}

func c15Call(m string, args ...Expr) func(a func() Expr) Expr {
	return func(a func() Expr) Expr { return CallE(Mem(a(), m), args...) }
}

var c15Single = []c15Op{
	{"push(1)", c15Call("push", N("1"))},
	{"push('s')", c15Call("push", S("s"))},
	{"push([2])", c15Call("push", Arr_(N("2")))},
	{"pop()", c15Call("pop")},
	{"popfirst()", c15Call("popfirst")},
	{"[0]", func(a func() Expr) Expr { return Idx(a(), N("0")) }},
	{"[-1]", func(a func() Expr) Expr { return Idx(a(), Un("-", N("1"))) }},
	{"[len]", func(a func() Expr) Expr { return Idx(a(), CallE(Mem(a(), "length"))) }},
	{"[0]=7", func(a func() Expr) Expr { return Asg("=", Idx(a(), N("0")), N("7")) }},
	{"[-1]=8", func(a func() Expr) Expr { return Asg("=", Idx(a(), Un("-", N("1"))), N("8")) }},
	{"[len]=9", func(a func() Expr) Expr { return Asg("=", Idx(a(), CallE(Mem(a(), "length"))), N("9")) }},
	{"length()", c15Call("length")},
	{"contains(1)", c15Call("contains", N("1"))},
	{"sort()", c15Call("sort")},
	{"push(3)", c15Call("push", N("3"))},
	{"contains('s')", c15Call("contains", S("s"))},
	{"push(u)", c15Call("push", V("u"))}, // u is never assigned: an unset element
	{"contains(0)", c15Call("contains", N("0"))},
	{"contains(u)", c15Call("contains", V("u"))},
	// sort returns a copy: changing the copy must not change the array
	{"sort().push(5)", func(a func() Expr) Expr { return CallE(Mem(CallE(Mem(a(), "sort")), "push"), N("5")) }},
	{"sort()[0]=6", func(a func() Expr) Expr { return Asg("=", Idx(CallE(Mem(a(), "sort")), N("0")), N("6")) }},
	// a null stored past the end is an ordinary element wherever it moves to; contains goes by ==, whatever the kinds
	{"[len+1]=null", func(a func() Expr) Expr {
		return Asg("=", Idx(a(), Bin("+", CallE(Mem(a(), "length")), N("1"))), &NullLit{})
	}},
	{"[1]=5", func(a func() Expr) Expr { return Asg("=", Idx(a(), N("1")), N("5")) }},
	{"contains('1')", c15Call("contains", S("1"))},
	// pushing the null read from beyond the end: the new element is an ordinary null, a later store into it stays in this array
	// a store far past the end pads with nulls; each padded slot is an element of its own
	{"[len+2]=4", func(a func() Expr) Expr {
		return Asg("=", Idx(a(), Bin("+", CallE(Mem(a(), "length")), N("2"))), N("4"))
	}},
	{"[-2]=6", func(a func() Expr) Expr { return Asg("=", Idx(a(), Un("-", N("2"))), N("6")) }},
	{"push([len+2])", func(a func() Expr) Expr {
		return CallE(Mem(a(), "push"), Idx(a(), Bin("+", CallE(Mem(a(), "length")), N("2"))))
	}},
}

const c15Core = 11 // the first 11 operations: the length-changing ones, reads and writes

type c15Place struct {
	name string
	init []Stmt
	doc  string
	arr  func() Expr
}

var c15Places = []c15Place{
	{"variable", []Stmt{Ex(Asg("=", V("a"), Arr_()))}, "", func() Expr { return V("a") }},
	{"$.arr", nil, `{"arr":[2,1]}`, func() Expr { return Mem(V("$"), "arr") }},
	{"o.k", []Stmt{Ex(Asg("=", V("o"), &ObjLit{Keys: []string{"k"}, Vals: []Expr{Arr_(N("5"))}}))}, "", func() Expr { return Mem(V("o"), "k") }},
	{"m[0]", []Stmt{Ex(Asg("=", V("m"), Arr_(Arr_(), N("4"))))}, "", func() Expr { return Idx(V("m"), N("0")) }},
	// the array literal is built anew for every element of the input: nothing of one element's array may reach the next
	{"literal per element", []Stmt{Ex(Asg("=", V("a"), Arr_(N("3"), N("1"), N("2"))))}, `[1,2]`, func() Expr { return V("a") }},
	// several arrays of the same document, most of them empty: each record's array is its own
	{"$.t of every record", nil, `[{"t":[]},{"t":[]},{"t":[1]},{"t":[]}]`, func() Expr { return Mem(V("$"), "t") }},
	{"$.arr of every value of a stream", nil, "{\"arr\":[]}\n{\"arr\":[]}\n{\"arr\":[],\"brr\":[]}", func() Expr { return Mem(V("$"), "arr") }},
	// strings and numbers mixed: sort goes by string form, and an index store changes what the next sort must see
	{"mixed variable", []Stmt{Ex(Asg("=", V("a"), Arr_(S("pear"), N("10"), S("apple"), S("fig"))))}, "", func() Expr { return V("a") }},
}

func c15DocPlace(p int) bool { return p == 1 || p == 5 || p == 6 }

func av() Expr { return V("a") }
func bv() Expr { return V("b") }

var c15Dual = []c15Op{
	{"a.push(1)", func(func() Expr) Expr { return CallE(Mem(av(), "push"), N("1")) }},
	{"a.pop()", func(func() Expr) Expr { return CallE(Mem(av(), "pop")) }},
	{"a.popfirst()", func(func() Expr) Expr { return CallE(Mem(av(), "popfirst")) }},
	{"b.push(2)", func(func() Expr) Expr { return CallE(Mem(bv(), "push"), N("2")) }},
	{"b.pop()", func(func() Expr) Expr { return CallE(Mem(bv(), "pop")) }},
	{"b.popfirst()", func(func() Expr) Expr { return CallE(Mem(bv(), "popfirst")) }},
	{"a.push(b.push(1))", func(func() Expr) Expr { return CallE(Mem(av(), "push"), CallE(Mem(bv(), "push"), N("1"))) }},
	{"a.push(b.pop())", func(func() Expr) Expr { return CallE(Mem(av(), "push"), CallE(Mem(bv(), "pop"))) }},
	{"a[b.length()]", func(func() Expr) Expr { return Idx(av(), CallE(Mem(bv(), "length"))) }},
	{"a.contains(b.pop())", func(func() Expr) Expr { return CallE(Mem(av(), "contains"), CallE(Mem(bv(), "pop"))) }},
	{"a.push(b.length())", func(func() Expr) Expr { return CallE(Mem(av(), "push"), CallE(Mem(bv(), "length"))) }},
	{"b.push(a.sort().length())", func(func() Expr) Expr {
		return CallE(Mem(bv(), "push"), CallE(Mem(CallE(Mem(av(), "sort")), "length")))
	}},
	{"b=a", func(func() Expr) Expr { return Asg("=", bv(), av()) }},
	{"a.push(b)", func(func() Expr) Expr { return CallE(Mem(av(), "push"), bv()) }},
	// a null read from beyond the end of the OTHER array (or from a missing member) becomes an ordinary element
	{"a.push(b[4])", func(func() Expr) Expr { return CallE(Mem(av(), "push"), Idx(bv(), N("4"))) }},
	{"a.push(b.nokey)", func(func() Expr) Expr { return CallE(Mem(av(), "push"), Mem(bv(), "nokey")) }},
	{"a[-1]=9", func(func() Expr) Expr { return Asg("=", Idx(av(), Un("-", N("1"))), N("9")) }},
	{"a[1]=8", func(func() Expr) Expr { return Asg("=", Idx(av(), N("1")), N("8")) }},
	// the method acts on the array it was invoked on, also when the argument list assigns the variable that held it
	{"a.push(a=[9])", func(func() Expr) Expr { return CallE(Mem(av(), "push"), Asg("=", av(), Arr_(N("9")))) }},
	{"a.contains(a=b)", func(func() Expr) Expr { return CallE(Mem(av(), "contains"), Asg("=", av(), bv())) }},
}

// operations on an array with unset elements; they print only booleans and
// numbers, because the rendering of an unset value is not fixed by any statement
var c15Unset = []struct {
	name string
	st   func() Stmt
}{
	{"contains(0)", func() Stmt { return Pr(S("c0"), CallE(Mem(av(), "contains"), N("0"))) }},
	{"contains(1)", func() Stmt { return Pr(S("c1"), CallE(Mem(av(), "contains"), N("1"))) }},
	{"contains(u)", func() Stmt { return Pr(S("cu"), CallE(Mem(av(), "contains"), V("u"))) }},
	{"contains(null)", func() Stmt { return Pr(S("cn"), CallE(Mem(av(), "contains"), &NullLit{})) }},
	{"length()", func() Stmt { return Pr(S("len"), CallE(Mem(av(), "length"))) }},
	{"[0] is unknown", func() Stmt {
		return Pr(S("k0"), &IsExpr{Idx(av(), N("0")), "unknown"}, Bin("==", Idx(av(), N("0")), N("0")))
	}},
	{"push(u)", func() Stmt { return Ex(CallE(Mem(av(), "push"), V("u"))) }},
	{"push(1)", func() Stmt { return Ex(CallE(Mem(av(), "push"), N("1"))) }},
	{"pop() is unknown", func() Stmt { return Pr(S("pop"), &IsExpr{CallE(Mem(av(), "pop")), "unknown"}) }},
	{"popfirst()", func() Stmt { return Ex(CallE(Mem(av(), "popfirst"))) }},
	{"sort().length()", func() Stmt { return Pr(S("sort"), CallE(Mem(CallE(Mem(av(), "sort")), "length"))) }},
}

type c15Spec struct {
	Family string   `json:"family"` // single, dual
	Place  int      `json:"place"`
	Seq    []int    `json:"seq"`
	Names  []string `json:"names,omitempty"`
}

func c15Build(s c15Spec) *progCase {
	var body []Stmt
	var files []inFile
	kind := "BEGIN"
	if s.Family == "single" {
		pl := c15Places[s.Place]
		body = append(body, pl.init...)
		if pl.doc != "" {
			files = []inFile{{"in.json", pl.doc}}
			kind = ""
		}
		for _, i := range s.Seq {
			op := c15Single[i]
			body = append(body, Ex(Asg("=", V("r"), op.mk(pl.arr))), Pr(S(op.name), V("r"), pl.arr(), CallE(Mem(pl.arr(), "length"))))
		}
		if c15DocPlace(s.Place) {
			body = append(body, Pr(V("$")))
		}
	} else if s.Family == "unset" {
		body = append(body, Ex(Asg("=", V("a"), Arr_(V("u")))))
		for _, i := range s.Seq {
			body = append(body, c15Unset[i].st())
		}
	} else {
		body = append(body, Ex(Asg("=", V("a"), Arr_())), Ex(Asg("=", V("b"), Arr_(N("6")))))
		for _, i := range s.Seq {
			op := c15Dual[i]
			body = append(body, Ex(Asg("=", V("r"), op.mk(nil))), Pr(S(op.name), V("r"), S("a"), av(), CallE(Mem(av(), "length")), S("b"), bv(), CallE(Mem(bv(), "length"))))
		}
	}
	return &progCase{P: &Program{Rules: []*Rule{{Kind: kind, Body: Blk(body...)}}}, Files: files, Root: c15DocPlace(s.Place) && s.Family == "single"}
}

func c15Check(c *fw.Ctx, s c15Spec) *fw.Violation {
	pc := c15Build(s)
	v, res, skipped := pc.check(c)
	if !skipped && v == nil {
		// the model's list states reached along this history
		if res.M != nil {
			if sl, ok := res.M.Frames[0].Vars["a"]; ok && sl.V.K == KArr {
				c.State("list:" + Render(sl.V, nil))
			}
		}
		c.Outcome(res.Kind)
	}
	return v
}

// c15SortPrograms: arrays of 13-24 elements whose elements share sort keys but remain distinguishable (1 and "1"; true,
// false and null all have the empty string form): the sort must be stable whatever the length.
func c15SortPrograms() []*progCase {
	pool := []func() Expr{
		func() Expr { return &BoolLit{B: true} }, func() Expr { return &BoolLit{B: false} }, func() Expr { return &NullLit{} },
		func() Expr { return N("1") }, func() Expr { return S("1") }, func() Expr { return S("") }, func() Expr { return N("10") }, func() Expr { return S("10") }, func() Expr { return S("b") },
	}
	var out []*progCase
	for _, n := range []int{5, 12, 13, 16, 24, 40} {
		for shift := 0; shift < 7; shift++ {
			items := make([]Expr, n)
			for i := range items {
				items[i] = pool[(i*5+shift*i/3+shift)%len(pool)]()
			}
			body := Blk(Ex(Asg("=", V("a"), Arr_(items...))), Ex(Asg("=", V("s"), CallE(Mem(V("a"), "sort")))), Pr(V("s")), Pr(V("a")),
				&ForIn{V: "v", W: "i", Iter: V("s"), Body: Pr(V("i"), V("v"), &IsExpr{V("v"), "string"}, &IsExpr{V("v"), "number"}, &IsExpr{V("v"), "bool"})})
			out = append(out, &progCase{P: &Program{Rules: []*Rule{{Kind: "BEGIN", Body: body}}}})
		}
	}
	// all-number arrays with repeated values and negative zero
	for _, n := range []int{13, 20} {
		items := make([]Expr, n)
		for i := range items {
			items[i] = []Expr{N("3"), N("1"), Un("-", N("0")), N("0"), N("2"), N("1.5")}[(i*7)%6]
		}
		out = append(out, &progCase{P: &Program{Rules: []*Rule{{Kind: "BEGIN", Body: Blk(Ex(Asg("=", V("a"), Arr_(items...))), Pr(CallE(Mem(V("a"), "sort"))), Pr(V("a")))}}}})
	}
	return out
}

// c15KeptPrograms: arrays taken from one document / record / stream value are kept under a name while later documents are
// read; nothing that happens to a later document reaches them.
func c15KeptPrograms() []*progCase {
	keep := Blk(Ex(CallE(Mem(V("keep"), "push"), Mem(V("$"), "t"))), Pr(S("kept"), CallE(Mem(V("keep"), "length"))))
	end := Blk(Pr(V("keep")), Pr(CallE(Mem(Idx(V("keep"), N("0")), "contains"), N("2")), CallE(Mem(Idx(V("keep"), N("0")), "length")), CallE(Mem(Idx(V("keep"), N("0")), "pop")), CallE(Mem(Idx(V("keep"), N("0")), "sort"))), Pr(V("keep")))
	begin := &Rule{Kind: "BEGIN", Body: Blk(Ex(Asg("=", V("keep"), Arr_())))}
	var out []*progCase
	for _, files := range [][]inFile{
		{{"one.json", `{"t":[1,2]}`}, {"two.json", `{"t":[3,4,5]}`}},
		{{"in.json", "{\"t\":[1,2]}\n{\"t\":[3,4,5]}\n{\"t\":[]}\n{\"t\":[6]}"}},
		{{"in.json", `[{"t":[1,2]},{"t":[3,4,5]},{"t":[9]}]`}, {"two.json", `[{"t":[7,8]}]`}},
		{{"in.json", `{"t":[[1,2],[2]]} {"t":[[5],[6],[7]]}`}},
	} {
		for _, kind := range []string{"BEGINFILE", ""} {
			out = append(out, &progCase{P: &Program{Rules: []*Rule{begin, {Kind: kind, Body: keep}, {Kind: "END", Body: end}}}, Files: files})
		}
		// the root itself is kept
		out = append(out, &progCase{P: &Program{Rules: []*Rule{begin, {Kind: "BEGINFILE", Body: Blk(Ex(CallE(Mem(V("keep"), "push"), V("$"))))}, {Kind: "END", Body: Blk(Pr(V("keep")))}}}, Files: files})
	}
	return out
}

type c15Plan struct {
	family string
	place  int
	n      int // alphabet size
	depth  int
}

func c15Plans(t fw.Tier) []c15Plan {
	nS, nD := len(c15Single), len(c15Dual)
	var out []c15Plan
	if t == fw.Thorough {
		for pl := range c15Places {
			if pl >= 5 {
				out = append(out, c15Plan{"single", pl, nS, 4}, c15Plan{"single", pl, c15Core, 5})
				continue
			}
			out = append(out, c15Plan{"single", pl, nS, 5})
		}
		out = append(out, c15Plan{"single", 0, c15Core, 6}, c15Plan{"single", 1, c15Core, 6}, c15Plan{"dual", 0, nD, 5}, c15Plan{"unset", 0, len(c15Unset), 5})
		return out
	}
	for pl := range c15Places {
		if pl >= 5 {
			out = append(out, c15Plan{"single", pl, nS, 3}, c15Plan{"single", pl, c15Core, 4})
			continue
		}
		out = append(out, c15Plan{"single", pl, nS, 4})
	}
	out = append(out, c15Plan{"single", 0, c15Core, 5}, c15Plan{"dual", 0, nD, 4}, c15Plan{"unset", 0, len(c15Unset), 4})
	return out
}

// a unit is (plan, first operation, second operation)
func c15Units(t fw.Tier) (units [][3]int) {
	for pi, pl := range c15Plans(t) {
		for a := 0; a < pl.n; a++ {
			for b := 0; b < pl.n; b++ {
				units = append(units, [3]int{pi, a, b})
			}
		}
	}
	return
}

func init() {
	register(addTok(tokFramesC15, &fw.Prop{
		ID: "C15",
		Rule: "all sequences of exactly D operations (every shorter history is a prefix of one of them, and a run prints result, contents and length after each operation) over 27 operations on one array " +
			"(push of a number / string / array / unset value, pop, popfirst, reads and writes at 0, -1 and length, length, contains of a number / string / unset value, sort, a push / index store into the result of sort, a push of the null read from beyond the end, a store two past the end and a store into the second-last slot), with the array held by a variable, inside the input document ($.arr, also compared through -o), inside an object (o.k), inside another array (m[0]) as a literal rebuilt for every element of the input, as $.t of every record of a document with several empty arrays and as $.arr of every value of a stream and in a variable that starts with strings and numbers mixed (shorter histories); 12 programs that keep arrays of earlier documents / records / stream values while later ones are read; 44 fixed arrays of 5-40 elements with equal sort keys but distinguishable values (stability at every length);  " +
			"deeper histories over the 11 length-changing and indexing operations; all sequences over 11 operations on an array with unset elements (observed through booleans and numbers only); and all sequences over 20 operations on two arrays including calls nested in each other's arguments and aliasing; histories are not merged (slice capacity is hidden state); oracle: ideal list in the reference interpreter; " +
			"a state is a distinct model list reached; non-trivial = same",
		Plan: func(t fw.Tier) int { return len(c15Units(t)) },
		Bound: func(t fw.Tier) string {
			s := ""
			for _, p := range c15Plans(t) {
				s += fmt.Sprintf("[%s place %d: %d^%d] ", p.family, p.place, p.n, p.depth)
			}
			return s
		},
		Assumptions: []string{"reference interpreter mc/refsem (3.10 sharing, 3.16 methods)"},
		Run: func(c *fw.Ctx, u int) {
			if u == 0 {
				for i, pc := range c15KeptPrograms() {
					pc, i := pc, i
					c.Do(func() any { return c15Spec{Family: "kept", Place: i} }, func() *fw.Violation { return pc.mustCheck(c, "arrays kept across documents") })
				}
				for i, pc := range c15SortPrograms() {
					pc, i := pc, i
					c.Do(func() any { return c15Spec{Family: "sortlong", Place: i} }, func() *fw.Violation { return pc.mustCheck(c, "stable sort") })
				}
			}
			un := c15Units(c.Tier)[u]
			pl := c15Plans(c.Tier)[un[0]]
			D := pl.depth
			seq := make([]int, D)
			seq[0], seq[1] = un[1], un[2]
			var rec func(i int)
			rec = func(i int) {
				if i == D {
					s := c15Spec{Family: pl.family, Place: pl.place, Seq: append([]int{}, seq...)}
					c.Do(func() any {
						for _, k := range s.Seq {
							if pl.family == "single" {
								s.Names = append(s.Names, c15Single[k].name)
							} else if pl.family == "unset" {
								s.Names = append(s.Names, c15Unset[k].name)
							} else {
								s.Names = append(s.Names, c15Dual[k].name)
							}
						}
						return s
					}, func() *fw.Violation { return c15Check(c, s) })
					return
				}
				for k := 0; k < pl.n; k++ {
					seq[i] = k
					rec(i + 1)
				}
			}
			rec(2)
		},
		Finish: func(c *fw.Ctx) {
			for s := range c.States {
				c.NonTrivial(s)
			}
		},
		Replay: func(c *fw.Ctx, raw json.RawMessage) *fw.Violation {
			var s c15Spec
			if !unmarshal(raw, &s) {
				return nil
			}
			s.Names = nil
			if s.Family == "kept" {
				v, _, _ := c15KeptPrograms()[s.Place].check(c)
				return v
			}
			if s.Family == "sortlong" {
				v, _, _ := c15SortPrograms()[s.Place].check(c)
				return v
			}
			return c15Check(c, s)
		},
	}))
}
