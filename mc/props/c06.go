package props

import (
	"encoding/json"
	"fmt"

	"verif/mc/drive"
	"verif/mc/fw"
	. "verif/mc/refsem"
)

// C06: precedence and associativity. Every operator tree up to a size, with a
// bounded number of decorations (prefix operators, suffixes, redundant
// parentheses, `is`), is rendered minimally parenthesised and fully
// parenthesised: implementation(min) == implementation(full) == model(tree).

var c06Ops = []string{"+", "-", "*", "/", "%", "==", "!=", "<", "<=", ">", ">=", "~", "!~", "&&", "||", "=", "+=", "-=", "*=", "/="}

func c06IsAssign(op string) bool {
	return op == "=" || len(op) == 2 && op[1] == '=' && op != "==" && op != "!=" && op != "<=" && op != ">="
}

type c06Shape struct{ L, R *c06Shape }

var c06ShapeCache = map[int][]*c06Shape{}

func c06Shapes(n int) []*c06Shape {
	if n == 0 {
		return []*c06Shape{nil}
	}
	if s, ok := c06ShapeCache[n]; ok {
		return s
	}
	var out []*c06Shape
	for l := 0; l < n; l++ {
		for _, a := range c06Shapes(l) {
			for _, b := range c06Shapes(n - 1 - l) {
				out = append(out, &c06Shape{a, b})
			}
		}
	}
	c06ShapeCache[n] = out
	return out
}

// leaf valuations: vectors that separate groupings for arithmetic, comparison, logic, concatenation and regex match
var c06Vals = [][]Expr{
	{N("7"), N("3"), N("2"), N("5"), N("4")},
	{N("8"), N("4"), N("2"), N("1"), N("3")},
	{S("a"), N("1"), N("0"), S("b"), N("2")},
	{N("0"), N("1"), N("1"), N("0"), N("1")},
	{S("ab"), S("b"), S("a"), S(""), S("ba")},
	{N("2"), N("0.5"), Un("-", N("1")), N("10"), N("0")},
}

type c06Deco struct {
	Kind string `json:"k"` // !, -, +, paren, is, mem, idx, call
	Node int    `json:"n"` // preorder index over all nodes (internal and leaves)
}

type c06Spec struct {
	N     int       `json:"n"`     // operators
	Shape int       `json:"shape"` // index into shapes(n)
	Ops   []int     `json:"ops"`   // operator per internal node, preorder
	Val   int       `json:"val"`
	Decos []c06Deco `json:"decos,omitempty"`
	Min   string    `json:"minimal,omitempty"`
	Full  string    `json:"full,omitempty"`
}

var c06DecoKinds = []string{"!", "-", "+", "paren", "is", "mem", "idx", "call"}

type c06Builder struct {
	spec    c06Spec
	opi     int
	leafi   int
	nodei   int
	nassign int
	bad     bool
}

func (b *c06Builder) build(s *c06Shape) Expr {
	id := b.nodei
	b.nodei++
	var e Expr
	leaf := s == nil
	if leaf {
		e = c06Vals[b.spec.Val][b.leafi]
		b.leafi++
	} else {
		op := c06Ops[b.spec.Ops[b.opi]]
		b.opi++
		if c06IsAssign(op) {
			if s.L != nil {
				b.bad = true // an assignment needs a plain target on its left
			}
			tgt := V(fmt.Sprintf("v%d", b.nassign))
			b.nassign++
			for _, d := range b.spec.Decos {
				if d.Node == b.nodei {
					b.bad = true // targets are not decorated
				}
			}
			b.nodei++ // the target occupies the left leaf's node id
			b.leafi++
			r := b.build(s.R)
			e = Asg(op, tgt, r)
		} else {
			l := b.build(s.L)
			r := b.build(s.R)
			e = Bin(op, l, r)
		}
	}
	for _, d := range b.spec.Decos {
		if d.Node != id {
			continue
		}
		switch d.Kind {
		case "!", "-", "+":
			e = Un(d.Kind, e)
		case "paren":
			e = &Paren{e}
		case "is":
			e = &IsExpr{e, "number"}
		case "mem", "idx", "call":
			if !leaf || e != c06Vals[b.spec.Val][b.leafi-1] {
				// a suffix on an operator node, or on top of another decoration: it applies to the whole (parenthesised) operand
				switch d.Kind {
				case "mem":
					e = Mem(e, "k")
				case "idx":
					e = Idx(e, N("0"))
				case "call":
					e = CallE(Mem(e, "floor"))
				}
				break
			}
			switch d.Kind {
			case "mem":
				e = Mem(V("o"), "k")
			case "idx":
				e = Idx(V("arr"), Bin("-", N("1"), N("1")))
			case "call":
				e = CallE(V("f"), Bin("+", N("1"), N("1")))
			}
		}
	}
	return e
}

func c06Nodes(n int) int { return 2*n + 1 }

func c06Tree(s c06Spec) (Expr, bool) {
	shapes := c06Shapes(s.N)
	if s.Shape >= len(shapes) || len(s.Ops) != s.N || s.Val >= len(c06Vals) {
		return nil, false
	}
	b := &c06Builder{spec: s}
	e := b.build(shapes[s.Shape])
	return e, !b.bad
}

var c06F = &Func{Name: "f", Params: []string{"x"}, Body: Blk(&Return{Bin("+", V("x"), N("1"))})}

func c06Program(e Expr) *Program {
	pre := []Stmt{
		Ex(Asg("=", V("v0"), N("10"))), Ex(Asg("=", V("v1"), N("20"))), Ex(Asg("=", V("v2"), N("30"))), Ex(Asg("=", V("v3"), N("40"))),
		Ex(Asg("=", V("o"), &ObjLit{Keys: []string{"k"}, Vals: []Expr{N("5")}})),
		Ex(Asg("=", V("arr"), Arr_(N("4"), N("6")))),
	}
	body := append(pre, Pr(e), Pr(V("v0"), V("v1"), V("v2"), V("v3")))
	return &Program{Funcs: []*Func{c06F}, Rules: []*Rule{{Kind: "BEGIN", Body: Blk(body...)}}}
}

func c06Check(c *fw.Ctx, s c06Spec) *fw.Violation {
	e, ok := c06Tree(s)
	if !ok {
		return nil
	}
	p := c06Program(e)
	pcMin := &progCase{P: p}
	res := pcMin.model()
	if res.Aborted || res.Unfixed != "" {
		c.Note("skipped:"+res.Unfixed, 1)
		return nil
	}
	sMin := pcMin.spec()
	oMin := run(c, sMin)
	pcFull := &progCase{P: p, Style: Style{Full: true}}
	sFull := pcFull.spec()
	oFull := run(c, sFull)
	c.Traces++
	c.Transitions += 2
	c.Outcome(res.Kind)
	// (1) no model involved: the unparenthesised text behaves like the fully parenthesised one
	if oMin.Kind != oFull.Kind || oMin.Stdout != oFull.Stdout {
		oFull.Ev, oMin.Ev = nil, nil
		return &fw.Violation{What: "minimally and fully parenthesised forms behave differently",
			Detail: map[string]any{"minimal": sMin.Program, "full": sFull.Program, "got_minimal": oMin, "got_full": oFull, "model_stdout": res.Stdout, "model_kind": res.Kind}}
	}
	// (2) the fully parenthesised text means the tree
	if v := expect(sFull, oFull, res.Stdout, modelKind(res.Kind), "fully parenthesised form vs model: "+res.Err); v != nil {
		return v
	}
	return nil
}

// c06Distinguished: does some valuation make (a op1 b) op2 c differ from a op1 (b op2 c) in the model?
func c06Distinguished(op1, op2 int) bool {
	for val := range c06Vals {
		var outs [2]string
		for sh := 0; sh < 2; sh++ {
			// shapes(2)[0] = leaf,(node) : a op (b op c) ; shapes(2)[1] = (node),leaf
			var ops []int
			if sh == 0 {
				ops = []int{op1, op2}
			} else {
				ops = []int{op2, op1}
			}
			e, ok := c06Tree(c06Spec{N: 2, Shape: sh, Ops: ops, Val: val})
			if !ok {
				return false
			}
			r := (&progCase{P: c06Program(e)}).model()
			outs[sh] = r.Kind + "|" + r.Stdout
		}
		if outs[0] != outs[1] {
			return true
		}
	}
	return false
}

type c06Plan struct {
	n     int // operators
	decos int // decorations
	vals  int // valuations used
}

func c06Plans(t fw.Tier) []c06Plan {
	if t == fw.Thorough {
		return []c06Plan{{1, 2, 6}, {2, 2, 6}, {3, 1, 6}, {4, 0, 3}}
	}
	return []c06Plan{{1, 2, 6}, {2, 1, 6}, {3, 0, 6}}
}

func init() {
	register(&fw.Prop{
		ID: "C06",
		Rule: "all binary-operator trees (15 binary + 5 assignment operators) up to n operators, 6 leaf valuations, with up to k decorations (prefix ! - +, redundant parentheses, `is`, .member / [index] / (call) suffixes -- on a leaf, on an operator node and on top of another decoration) on any node; " +
			"each tree is rendered minimally and fully parenthesised; oracle: impl(min) == impl(full) (no model) and impl(full) == model(tree); a state is a (parent operator, child operator, side) triple; " +
			"non-trivial = ordered operator pairs for which some valuation makes left- and right-grouping differ in the model",
		Plan: func(t fw.Tier) int { return len(c06Ops) * len(c06Ops) },
		Bound: func(t fw.Tier) string {
			return fmt.Sprintf("(operators, decorations, valuations) completed: %v", c06Plans(t))
		},
		Assumptions: []string{"grammar of DESIGN.md 3.9 (levels, left/right grouping) as implemented by the model's renderer", "expressions never read a variable they assign (DESIGN.md 7.4)"},
		Run: func(c *fw.Ctx, u int) {
			op0, op1 := u/len(c06Ops), u%len(c06Ops)
			if c06Distinguished(op0, op1) {
				c.NonTrivial(c06Ops[op0] + " then " + c06Ops[op1])
			} else {
				c.Note("operator pairs no valuation distinguishes", 1)
			}
			for _, pl := range c06Plans(c.Tier) {
				if pl.n == 1 && op1 != 0 {
					continue // single-operator trees belong to the units with op1 == 0
				}
				nodes := c06Nodes(pl.n)
				for sh := range c06Shapes(pl.n) {
					ops := make([]int, pl.n)
					ops[0] = op0
					if pl.n > 1 {
						ops[1] = op1
					}
					var recOps func(i int)
					recOps = func(i int) {
						if i < pl.n {
							for o := range c06Ops {
								ops[i] = o
								recOps(i + 1)
							}
							return
						}
						base := c06Spec{N: pl.n, Shape: sh, Ops: append([]int{}, ops...)}
						if _, ok := c06Tree(c06Spec{N: pl.n, Shape: sh, Ops: base.Ops}); !ok {
							return
						}
						c06States(c, base)
						var recDeco func(decos []c06Deco, minNode, minKind int)
						recDeco = func(decos []c06Deco, minNode, minKind int) {
							for val := 0; val < pl.vals; val++ {
								s := base
								s.Val = val
								s.Decos = decos
								c.Do(func() any {
									if e, ok := c06Tree(s); ok {
										s.Min, s.Full = ExprSource(e, Style{}), ExprSource(e, Style{Full: true})
									}
									return s
								}, func() *fw.Violation { return c06Check(c, s) })
							}
							if len(decos) == pl.decos {
								return
							}
							for node := minNode; node < nodes; node++ {
								k0 := 0 // decorations of one node are applied in list order and the order matters (-(x).k is not (-(x)).k): every order
								for k := k0; k < len(c06DecoKinds); k++ {
									nd := append(append([]c06Deco{}, decos...), c06Deco{c06DecoKinds[k], node})
									if _, ok := c06Tree(c06Spec{N: pl.n, Shape: sh, Ops: base.Ops, Decos: nd}); !ok {
										continue
									}
									recDeco(nd, node, k)
								}
							}
						}
						recDeco(nil, 0, 0)
					}
					if pl.n > 2 {
						recOps(2)
					} else {
						recOps(pl.n)
					}
				}
			}
		},
		Replay: func(c *fw.Ctx, raw json.RawMessage) *fw.Violation {
			var s c06Spec
			if !unmarshal(raw, &s) {
				return nil
			}
			return c06Check(c, s)
		},
	})
}

// c06States records the (parent, child, side) triples a tree exercises.
func c06States(c *fw.Ctx, s c06Spec) {
	sh := c06Shapes(s.N)[s.Shape]
	i := 0
	var walk func(n *c06Shape) string
	walk = func(n *c06Shape) string {
		if n == nil {
			return ""
		}
		op := c06Ops[s.Ops[i]]
		i++
		l := walk(n.L)
		r := walk(n.R)
		if l != "" {
			c.State(op + " L " + l)
		}
		if r != "" {
			c.State(op + " R " + r)
		}
		return op
	}
	walk(sh)
}

var _ = drive.KNone
