// Package fw is the shared exploration framework: work-unit sharding over
// worker processes, per-case confirmation, evidence, replay files and the
// known-findings list.
package fw

import (
	"crypto/sha256"
	"encoding/base64"
	"encoding/hex"
	"encoding/json"
	"fmt"
	"os"
	"sort"
	"strings"
	"time"
	"unicode/utf8"
)

type Tier string

const (
	Quick    Tier = "quick"
	Thorough Tier = "thorough"
)

// Violation describes one failing case. Spec must be enough for Prop.Replay to
// re-run exactly this case without any explorer.
type Violation struct {
	Property string          `json:"property"`
	Key      string          `json:"key"`
	What     string          `json:"what"`
	History  bool            `json:"history,omitempty"` // the case fails only after the cases of its unit that precede it have run in the same process
	Tier     Tier            `json:"tier,omitempty"`
	Unit     int             `json:"unit"`
	Ordinal  int64           `json:"ordinal"`
	Spec     json.RawMessage `json:"spec"`
	Detail   any             `json:"detail,omitempty"`
}

// Prop is one property's decision procedure.
type Prop struct {
	ID   string
	Rule string // how cases are enumerated and what counts as distinct / non-trivial
	// Plan returns the number of independent work units at this tier.
	Plan func(t Tier) int
	// Run enumerates every case of unit u and checks each through c.Do.
	Run func(c *Ctx, u int)
	// Replay re-checks the case described by spec.
	Replay func(c *Ctx, spec json.RawMessage) *Violation
	// Finish runs once in the coordinator after all units are merged (optional).
	Finish      func(c *Ctx)
	Assumptions []string
	Bound       func(t Tier) string
	MaxWorkers  int
}

var Registry = map[string]*Prop{}

func Register(p *Prop) { Registry[p.ID] = p }

// Ctx carries the counters of one worker (or of the merged run).
type Ctx struct {
	Prop *Prop
	Tier Tier
	Seed int64
	Unit int

	Ordinal int64 // cases seen in the current unit (skipped ones included)

	Cases       int64 // cases checked
	Evals       int64 // implementation executions
	Traces      int64 // cases where implementation was compared with model / reference
	StatesN     int64 // states unique by construction
	Transitions int64
	States      map[string]bool  // categorical states (merged by union)
	Nontrivial  map[string]bool  // distinct non-trivial classes (merged by union)
	Outcomes    map[string]int64 // distinct observed outcome classes
	Notes       map[string]int64
	Samples     []any
	Violations  []Violation
	Incomplete  []string // reasons this run is not exhaustive
	Unrepro     int64

	deadline time.Time
	only     int64 // when >= 0: run only this ordinal of the unit
	upto     int64 // when >= 0: run the unit's cases up to and including this ordinal, then stop (history replay)
	ckpt     []byte
	replay   bool
	stopped  bool
}

func NewCtx(p *Prop, t Tier, seed int64) *Ctx {
	return &Ctx{Prop: p, Tier: t, Seed: seed, only: -1, upto: -1,
		States: map[string]bool{}, Nontrivial: map[string]bool{}, Outcomes: map[string]int64{}, Notes: map[string]int64{}}
}

func (c *Ctx) Thorough() bool { return c.Tier == Thorough }

// Pick returns q at the quick tier and t at the thorough tier.
func (c *Ctx) Pick(q, t int) int {
	if c.Tier == Thorough {
		return t
	}
	return q
}

func (c *Ctx) State(s string)         { c.States[s] = true }
func (c *Ctx) NonTrivial(s string)    { c.Nontrivial[s] = true }
func (c *Ctx) Outcome(s string)       { c.Outcomes[s]++ }
func (c *Ctx) Note(s string, n int64) { c.Notes[s] += n }
func (c *Ctx) Incompl(reason string) {
	for _, r := range c.Incomplete {
		if r == reason {
			return
		}
	}
	c.Incomplete = append(c.Incomplete, reason)
}

// Expired reports whether the exploration budget of this run is used up. The
// caller stops enumerating; the run is then reported as not exhaustive.
func (c *Ctx) Expired() bool {
	if c.deadline.IsZero() {
		return false
	}
	if time.Now().After(c.deadline) {
		c.Incompl("time budget reached")
		return true
	}
	return false
}

// Skip reports whether the next case should not be executed (only-mode). It
// always advances the ordinal; use it as `if c.Skip() { continue }` before
// building an expensive case, or rely on Do which calls it itself.
func (c *Ctx) skip() bool {
	c.Ordinal++
	if c.only >= 0 && c.Ordinal-1 != c.only {
		return true
	}
	if c.upto >= 0 && c.Ordinal-1 > c.upto {
		c.stopped = true
		return true
	}
	if c.ckpt != nil {
		putU64(c.ckpt[0:], uint64(c.Unit))
		putU64(c.ckpt[8:], uint64(c.Ordinal-1))
	}
	return false
}

func putU64(b []byte, v uint64) {
	for i := 0; i < 8; i++ {
		b[i] = byte(v >> (8 * i))
	}
}
func getU64(b []byte) uint64 {
	var v uint64
	for i := 0; i < 8; i++ {
		v |= uint64(b[i]) << (8 * i)
	}
	return v
}

// Do checks one case. check returns nil when the property holds on the case.
// spec is only called when the case has to be written down (violation, sample,
// describe-mode), so building it may be expensive.
func (c *Ctx) Do(spec func() any, check func() *Violation) {
	if c.skip() {
		return
	}
	// a tree that is badly broken (or a limit that is gone) can make single cases very slow: stop enumerating once the
	// exploration budget is used up or enough violations are on record; the run is then reported as not exhaustive
	if c.stopped {
		return
	}
	if int64(len(c.Violations))+c.Notes["violations_not_listed"] >= 200 {
		c.stopped = true
		c.Incompl("enumeration stopped after 200 violating cases in one worker")
		return
	}
	if c.Ordinal%64 == 0 && c.Expired() {
		c.stopped = true
		return
	}
	ord := c.Ordinal - 1
	if c.only >= 0 && c.ckpt == nil {
		// describe mode: write the case down before running it, it may kill us
		v := Violation{Property: c.Prop.ID, Tier: c.Tier, Unit: c.Unit, Ordinal: ord, What: "process death while running this case", Spec: mustJSON(spec())}
		v.Key = KeyOf("death", string(v.Spec))
		writeJSON(describePath(c.Prop.ID, c.Unit, ord), v)
	}
	c.Cases++
	t0 := time.Now()
	v := check()
	slow := time.Since(t0) > 5*time.Second
	if v == nil {
		if c.sampleWanted(ord) {
			c.addSample(spec())
		}
		return
	}
	// confirm: the same case must fail the same way twice more
	for i := 0; i < 2 && !slow; i++ { // an expensive case is confirmed by the coordinator's fresh-process replays only
		v2 := check()
		if v2 == nil || v2.What != v.What {
			c.Unrepro++
			c.Note("unreproducible_in_process", 1)
			return
		}
	}
	v.Property = c.Prop.ID
	v.Tier = c.Tier
	v.Unit = c.Unit
	v.Ordinal = ord
	if v.Spec == nil {
		v.Spec = mustJSON(spec())
	}
	if v.Key == "" {
		v.Key = KeyOf(c.Prop.ID, string(v.Spec))
	}
	// keep a few per kind of failure so that one frequent defect cannot hide another
	same := 0
	for _, o := range c.Violations {
		if o.What == v.What {
			same++
		}
	}
	if same < 6 && len(c.Violations) < 80 {
		c.Violations = append(c.Violations, *v)
	} else {
		c.Note("violations_not_listed", 1)
	}
}

func (c *Ctx) sampleWanted(ord int64) bool {
	if len(c.Samples) == 0 {
		return true
	}
	h := uint64(ord)*0x9E3779B97F4A7C15 + uint64(c.Seed)*0xBF58476D1CE4E5B9 + uint64(c.Unit)
	h ^= h >> 29
	return h%8192 == 0 && len(c.Samples) < 4
}

func (c *Ctx) addSample(s any) {
	b := mustJSON(s)
	if len(b) > 2000 {
		b = mustJSON(map[string]any{"truncated": string(b[:1500])})
	}
	c.Samples = append(c.Samples, json.RawMessage(b))
}

func mustJSON(v any) json.RawMessage {
	b, err := json.Marshal(v)
	if err != nil {
		panic(err)
	}
	return b
}

func writeJSON(path string, v any) {
	b, _ := json.MarshalIndent(v, "", " ")
	if err := os.WriteFile(path, append(b, '\n'), 0o644); err != nil {
		fmt.Fprintln(os.Stderr, "verif: cannot write", path, err)
	}
}

func KeyOf(parts ...string) string {
	h := sha256.Sum256([]byte(strings.Join(parts, "\x00")))
	return hex.EncodeToString(h[:10])
}

// ----- merged result exchanged between worker and coordinator -----

type result struct {
	Cases, Evals, Traces, StatesN, Transitions, Unrepro int64
	States, Nontrivial                                  []string
	Outcomes, Notes                                     map[string]int64
	Samples                                             []any
	Violations                                          []Violation
	Incomplete                                          []string
	Done                                                bool
}

func (c *Ctx) toResult() result {
	return result{c.Cases, c.Evals, c.Traces, c.StatesN, c.Transitions, c.Unrepro, keys(c.States), keys(c.Nontrivial), c.Outcomes, c.Notes, c.Samples, c.Violations, c.Incomplete, true}
}

func (c *Ctx) merge(r result) {
	c.Cases += r.Cases
	c.Evals += r.Evals
	c.Traces += r.Traces
	c.StatesN += r.StatesN
	c.Transitions += r.Transitions
	c.Unrepro += r.Unrepro
	for _, s := range r.States {
		c.States[s] = true
	}
	for _, s := range r.Nontrivial {
		c.Nontrivial[s] = true
	}
	for k, v := range r.Outcomes {
		c.Outcomes[k] += v
	}
	for k, v := range r.Notes {
		c.Notes[k] += v
	}
	if len(c.Samples) < 6 {
		for _, s := range r.Samples {
			if len(c.Samples) < 6 {
				c.Samples = append(c.Samples, s)
			}
		}
	}
	c.Violations = append(c.Violations, r.Violations...)
	for _, s := range r.Incomplete {
		c.Incompl(s)
	}
}

func keys(m map[string]bool) []string {
	out := make([]string, 0, len(m))
	for k := range m {
		out = append(out, k)
	}
	sort.Strings(out)
	return out
}

// Text is a string that survives the trip through a replay file even when it is not valid UTF-8 (a JSON string would
// silently replace the offending bytes): valid text is written as a JSON string, anything else as {"base64": "..."}.
type Text string

func (t Text) MarshalJSON() ([]byte, error) {
	if utf8.ValidString(string(t)) {
		return json.Marshal(string(t))
	}
	return json.Marshal(map[string]string{"base64": base64.StdEncoding.EncodeToString([]byte(t))})
}

func (t *Text) UnmarshalJSON(b []byte) error {
	var s string
	if err := json.Unmarshal(b, &s); err == nil {
		*t = Text(s)
		return nil
	}
	var m map[string]string
	if err := json.Unmarshal(b, &m); err != nil {
		return err
	}
	raw, err := base64.StdEncoding.DecodeString(m["base64"])
	*t = Text(raw)
	return err
}
