package fw

import (
	"bufio"
	"encoding/json"
	"flag"
	"fmt"
	"os"
	"os/exec"
	"path/filepath"
	"runtime"
	"sort"
	"strconv"
	"strings"
	"sync"
	"syscall"
	"time"
)

func VerifDir() string {
	if d := os.Getenv("VERIF_DIR"); d != "" {
		return d
	}
	return "/verif"
}
func WorkDir() string {
	if d := os.Getenv("VERIF_WORK"); d != "" {
		return d
	}
	return filepath.Join(VerifDir(), ".work")
}

// OutDir is where evidence/ and replays/ are written (VERIF_OUT redirects them for runs against a scratch copy of the repository).
func OutDir() string {
	if d := os.Getenv("VERIF_OUT"); d != "" {
		return d
	}
	return VerifDir()
}

// JqawkBin is the CLI binary built from /repo's working tree by bin/check.
func JqawkBin() string {
	if p := os.Getenv("VERIF_JQAWK"); p != "" {
		return p
	}
	return filepath.Join(WorkDir(), "jqawk")
}

func describePath(prop string, unit int, ord int64) string {
	return filepath.Join(WorkDir(), fmt.Sprintf("describe-%s-%d-%d.json", prop, unit, ord))
}

type finding struct {
	Status   string `json:"status"` // "known" or "fixed"
	Property string `json:"property"`
	Key      string `json:"key,omitempty"`
	Commit   string `json:"commit,omitempty"`
	What     string `json:"what"`
}

func loadFindings() []finding {
	var f struct {
		Findings []finding `json:"findings"`
	}
	b, err := os.ReadFile(filepath.Join(VerifDir(), "known_findings.json"))
	if err != nil {
		return nil
	}
	if err := json.Unmarshal(b, &f); err != nil {
		fmt.Fprintln(os.Stderr, "verif: known_findings.json does not parse:", err)
		os.Exit(2)
	}
	return f.Findings
}

// ChildModes are auxiliary entry points of the check binary (fresh-process
// executions that a check spawns itself): `check --child <name> args...`.
var ChildModes = map[string]func(args []string){}

// SpawnChild runs this binary in a child mode and returns its stdout.
func SpawnChild(name string, stdin string, args ...string) (string, error) {
	self, _ := os.Executable()
	cmd := exec.Command(self, append([]string{"--child", name}, args...)...)
	cmd.Env = os.Environ() // no GOMAXPROCS=1 here: a child that repeats a run should see real scheduling
	cmd.Stdin = strings.NewReader(stdin)
	out, err := cmd.Output()
	return string(out), err
}

func Main() {
	if len(os.Args) > 2 && os.Args[1] == "--child" {
		f := ChildModes[os.Args[2]]
		if f == nil {
			fmt.Fprintln(os.Stderr, "unknown child mode", os.Args[2])
			os.Exit(2)
		}
		f(os.Args[3:])
		return
	}
	prop := flag.String("prop", "", "property id")
	tier := flag.String("tier", "", "quick|thorough")
	worker := flag.Bool("worker", false, "internal: run as worker")
	shard := flag.String("shard", "0/1", "internal: i/n")
	only := flag.String("only", "", "internal: unit:ordinal")
	upto := flag.String("upto", "", "internal: unit:ordinal -- run the unit up to that case")
	replay := flag.String("replay", "", "replay file")
	workers := flag.Int("workers", 0, "worker processes")
	seedF := flag.Int64("seed", 0, "seed")
	flag.Parse()

	if *replay != "" {
		os.Exit(runReplay(*replay))
	}
	if *tier == "" {
		*tier = os.Getenv("VERIF_TIER")
	}
	if *tier == "" {
		*tier = "quick"
	}
	seed := *seedF
	if s := os.Getenv("VERIF_SEED"); s != "" && seed == 0 {
		seed, _ = strconv.ParseInt(s, 10, 64)
	}
	p := Registry[*prop]
	if p == nil {
		ids := []string{}
		for k := range Registry {
			ids = append(ids, k)
		}
		sort.Strings(ids)
		fmt.Fprintf(os.Stderr, "unknown property %q; have %v\n", *prop, ids)
		os.Exit(2)
	}
	t := Tier(*tier)
	if t != Quick && t != Thorough {
		fmt.Fprintln(os.Stderr, "tier must be quick or thorough")
		os.Exit(2)
	}
	os.MkdirAll(WorkDir(), 0o755)
	if *worker {
		runWorker(p, t, seed, *shard, *only, *upto)
		return
	}
	os.Exit(coordinate(p, t, seed, *workers))
}

func budget(t Tier) time.Duration {
	if s := os.Getenv("VERIF_BUDGET_S"); s != "" {
		if n, err := strconv.Atoi(s); err == nil {
			return time.Duration(n) * time.Second
		}
	}
	if t == Thorough {
		return 100 * time.Minute
	}
	return 15 * time.Minute
}

func runWorker(p *Prop, t Tier, seed int64, shard, only, upto string) {
	runtime.GOMAXPROCS(1)
	c := NewCtx(p, t, seed)
	c.deadline = time.Now().Add(budget(t))
	var i, n int
	fmt.Sscanf(shard, "%d/%d", &i, &n)
	if n <= 0 {
		n = 1
	}
	units := p.Plan(t)
	if upto != "" {
		var u int
		var k int64
		fmt.Sscanf(upto, "%d:%d", &u, &k)
		c.upto = k
		c.Unit = u
		c.Ordinal = 0
		p.Run(c, u)
	} else if only != "" {
		var u int
		var k int64
		fmt.Sscanf(only, "%d:%d", &u, &k)
		c.only = k
		c.Unit = u
		c.Ordinal = 0
		p.Run(c, u)
	} else {
		ck := filepath.Join(WorkDir(), fmt.Sprintf("ckpt-%s-%d", p.ID, i))
		if f, err := os.OpenFile(ck, os.O_RDWR|os.O_CREATE|os.O_TRUNC, 0o644); err == nil {
			f.Truncate(16)
			if m, err := syscall.Mmap(int(f.Fd()), 0, 16, syscall.PROT_READ|syscall.PROT_WRITE, syscall.MAP_SHARED); err == nil {
				c.ckpt = m
				putU64(m[0:], ^uint64(0))
			}
			f.Close()
		}
		for u := i; u < units; u += n {
			if c.Expired() {
				break
			}
			c.Unit = u
			c.Ordinal = 0
			p.Run(c, u)
		}
	}
	w := bufio.NewWriter(os.Stdout)
	b, _ := json.Marshal(c.toResult())
	w.WriteString("RESULT ")
	w.Write(b)
	w.WriteString("\n")
	w.Flush()
}

type workerOut struct {
	res   result
	ok    bool
	err   error
	log   string
	shard int
}

func spawn(p *Prop, t Tier, seed int64, args ...string) workerOut {
	self, _ := os.Executable()
	full := append([]string{"--worker", "--prop", p.ID, "--tier", string(t), "--seed", strconv.FormatInt(seed, 10)}, args...)
	cmd := exec.Command(self, full...)
	cmd.Env = append(os.Environ(), "GOMAXPROCS=1", "GOTRACEBACK=single")
	var errb strings.Builder
	cmd.Stderr = &tailWriter{max: 6000, sb: &errb}
	stdout, _ := cmd.StdoutPipe()
	var out workerOut
	if err := cmd.Start(); err != nil {
		out.err = err
		return out
	}
	rd := bufio.NewReaderSize(stdout, 1<<20)
	for {
		line, err := rd.ReadString('\n')
		if strings.HasPrefix(line, "RESULT ") {
			if e := json.Unmarshal([]byte(line[7:]), &out.res); e == nil {
				out.ok = out.res.Done
			}
		}
		if err != nil {
			break
		}
	}
	out.err = cmd.Wait()
	out.log = errb.String()
	return out
}

type tailWriter struct {
	max int
	sb  *strings.Builder
}

func (w *tailWriter) Write(p []byte) (int, error) {
	if w.sb.Len() < w.max {
		w.sb.Write(p)
	}
	return len(p), nil
}

func coordinate(p *Prop, t Tier, seed int64, nw int) int {
	start := time.Now()
	units := p.Plan(t)
	if nw <= 0 {
		nw = runtime.NumCPU() - 2
		if nw < 1 {
			nw = 1
		}
	}
	if p.MaxWorkers > 0 && nw > p.MaxWorkers {
		nw = p.MaxWorkers
	}
	if nw > units {
		nw = units
	}
	if nw < 1 {
		nw = 1
	}
	c := NewCtx(p, t, seed)
	outs := make([]workerOut, nw)
	var wg sync.WaitGroup
	for i := 0; i < nw; i++ {
		wg.Add(1)
		go func(i int) {
			defer wg.Done()
			outs[i] = spawn(p, t, seed, "--shard", fmt.Sprintf("%d/%d", i, nw))
			outs[i].shard = i
		}(i)
	}
	wg.Wait()
	internal := 0
	for _, o := range outs {
		if o.ok {
			c.merge(o.res)
			continue
		}
		// the worker died: find the case it was running
		c.Incompl(fmt.Sprintf("worker %d died", o.shard))
		ck, err := os.ReadFile(filepath.Join(WorkDir(), fmt.Sprintf("ckpt-%s-%d", p.ID, o.shard)))
		if err != nil || len(ck) < 16 || getU64(ck) == ^uint64(0) {
			fmt.Fprintf(os.Stderr, "verif: worker %d of %s died before its first case: %v\n%s\n", o.shard, p.ID, o.err, o.log)
			internal++
			continue
		}
		unit, ord := int(getU64(ck)), int64(getU64(ck[8:]))
		dp := describePath(p.ID, unit, ord)
		os.Remove(dp)
		again := spawn(p, t, seed, "--only", fmt.Sprintf("%d:%d", unit, ord))
		b, rerr := os.ReadFile(dp)
		if again.ok || rerr != nil {
			fmt.Fprintf(os.Stderr, "verif: worker %d of %s died at unit %d case %d (%v) but that case alone does not kill a fresh process\n%s\n", o.shard, p.ID, unit, ord, o.err, o.log)
			if again.ok {
				c.merge(again.res)
			}
			internal++
			continue
		}
		var v Violation
		json.Unmarshal(b, &v)
		v.What = "process death: " + firstLine(again.log)
		v.Detail = map[string]any{"stderr": again.log}
		c.Violations = append(c.Violations, v)
		os.Remove(dp)
	}
	if p.Finish != nil {
		p.Finish(c)
	}

	// triage violations
	known := map[string]finding{}
	for _, f := range loadFindings() {
		if f.Status == "known" && f.Property == p.ID {
			known[f.Key] = f
		}
	}
	os.MkdirAll(filepath.Join(OutDir(), "replays"), 0o755)
	old, _ := filepath.Glob(filepath.Join(OutDir(), "replays", p.ID+"-*.json"))
	for _, f := range old {
		os.Remove(f)
	}
	seen := map[string]bool{}
	nviol, nknown := 0, 0
	os.Remove(filepath.Join(WorkDir(), "violations-"+p.ID+".jsonl"))
	if len(c.Violations) > 0 {
		// everything the workers reported, unconfirmed, for triage
		if f, err := os.Create(filepath.Join(WorkDir(), "violations-"+p.ID+".jsonl")); err == nil {
			for _, v := range c.Violations {
				b, _ := json.Marshal(v)
				f.Write(append(b, '\n'))
			}
			f.Close()
		}
	}
	knownHit := []string{}
	for _, v := range c.Violations {
		if seen[v.Key] {
			continue
		}
		seen[v.Key] = true
		if f, ok := known[v.Key]; ok {
			fmt.Printf("KNOWN-FINDING: property=%s %s\n", p.ID, f.What)
			knownHit = append(knownHit, f.Key)
			nknown++
			continue
		}
		if nviol >= 8 {
			c.Note("violations_not_confirmed_individually", 1)
			continue
		}
		path := filepath.Join(OutDir(), "replays", fmt.Sprintf("%s-%d.json", p.ID, nviol+1))
		writeJSON(path, v)
		confirmed := true
		if !strings.HasPrefix(v.What, "process death") {
			for i := 0; i < 2; i++ {
				if code := replayChild(path); code != 1 {
					confirmed = false
				}
			}
		}
		if !confirmed && !strings.HasPrefix(v.What, "process death") {
			// the case may fail only after what earlier cases of its unit left behind in the process: run the unit up to the case
			// in a fresh process, twice
			confirmed = true
			for i := 0; i < 2; i++ {
				if !historyFails(p, t, seed, v) {
					confirmed = false
				}
			}
			if confirmed {
				v.History = true
				v.What += " (only after the earlier cases of its unit have run in the same process)"
				writeJSON(path, v)
			}
		}
		if !confirmed {
			c.Unrepro++
			os.Rename(path, strings.TrimSuffix(path, ".json")+".unreproducible")
			continue
		}
		fmt.Printf("VIOLATION property=%s replay=%s\n", p.ID, path)
		fmt.Printf("  what: %s\n", v.What)
		nviol++
	}

	exhaustive := len(c.Incomplete) == 0
	states := c.StatesN + int64(len(c.States))
	cov := map[string]any{
		"states":                        states,
		"transitions":                   c.Transitions,
		"traces_validated_against_impl": c.Traces,
		"evaluations":                   c.Evals,
		"cases":                         c.Cases,
		"distinct_nontrivial":           len(c.Nontrivial),
		"distinct_outcomes":             len(c.Outcomes),
		"rule":                          p.Rule,
		"samples":                       c.Samples,
		"exhaustive":                    exhaustive,
		"units":                         units,
		"workers":                       nw,
		"unreproducible":                c.Unrepro,
		"known_findings_hit":            knownHit,
	}
	if p.Bound != nil {
		cov["bound_completed"] = p.Bound(t)
	}
	if !exhaustive {
		cov["not_exhaustive_because"] = c.Incomplete
	}
	if len(c.Outcomes) > 0 && len(c.Outcomes) <= 64 {
		cov["outcomes"] = c.Outcomes
	}
	if len(c.Notes) > 0 {
		cov["notes"] = c.Notes
	}
	if len(c.States) > 0 && len(c.States) <= 400 {
		cov["state_list"] = keys(c.States)
	}
	if len(c.Samples) == 0 {
		cov["samples"] = []any{"(no case was executed)"}
	}
	ev := map[string]any{
		"property_id": p.ID,
		"tier":        string(t),
		"seed":        seed,
		"level":       "model_checking",
		"coverage":    cov,
		"assumptions": p.Assumptions,
		"wall_s":      time.Since(start).Seconds(),
		"violations":  nviol,
	}
	os.MkdirAll(filepath.Join(OutDir(), "evidence"), 0o755)
	writeJSON(filepath.Join(OutDir(), "evidence", p.ID+".json"), ev)
	fmt.Printf("%s %s: cases=%d evaluations=%d states=%d transitions=%d traces=%d nontrivial=%d outcomes=%d exhaustive=%v violations=%d known=%d unreproducible=%d wall=%.1fs\n",
		p.ID, t, c.Cases, c.Evals, states, c.Transitions, c.Traces, len(c.Nontrivial), len(c.Outcomes), exhaustive, nviol, nknown, c.Unrepro, time.Since(start).Seconds())
	if nviol > 0 {
		return 1
	}
	if internal > 0 {
		return 2
	}
	if c.Cases == 0 {
		fmt.Fprintln(os.Stderr, "verif: no case was executed")
		return 2
	}
	return 0
}

// historyFails runs the violation's unit up to its case in a fresh worker and reports whether the case fails there the same way.
func historyFails(p *Prop, t Tier, seed int64, v Violation) bool {
	out := spawn(p, t, seed, "--upto", fmt.Sprintf("%d:%d", v.Unit, v.Ordinal))
	for _, w := range out.res.Violations {
		if w.Unit == v.Unit && w.Ordinal == v.Ordinal && w.What == v.What {
			return true
		}
	}
	return false
}

func firstLine(s string) string {
	s = strings.TrimSpace(s)
	if i := strings.IndexByte(s, '\n'); i >= 0 {
		s = s[:i]
	}
	if len(s) > 200 {
		s = s[:200]
	}
	return s
}

func replayChild(path string) int {
	self, _ := os.Executable()
	cmd := exec.Command(self, "--replay", path)
	cmd.Env = append(os.Environ(), "GOMAXPROCS=1", "VERIF_REPLAY_QUIET=1")
	err := cmd.Run()
	if err == nil {
		return 0
	}
	if ee, ok := err.(*exec.ExitError); ok {
		return ee.ExitCode()
	}
	return 2
}

func runReplay(path string) int {
	b, err := os.ReadFile(path)
	if err != nil {
		fmt.Fprintln(os.Stderr, err)
		return 2
	}
	var v Violation
	if err := json.Unmarshal(b, &v); err != nil {
		fmt.Fprintln(os.Stderr, err)
		return 2
	}
	p := Registry[v.Property]
	if p == nil || p.Replay == nil {
		fmt.Fprintln(os.Stderr, "no replay for property", v.Property)
		return 2
	}
	t := v.Tier
	if t == "" {
		t = Quick
	}
	if v.History {
		// replay = the unit up to the case, in this (fresh) process
		c := NewCtx(p, t, 0)
		c.upto = v.Ordinal
		c.Unit = v.Unit
		p.Run(c, v.Unit)
		what := strings.TrimSuffix(v.What, " (only after the earlier cases of its unit have run in the same process)")
		for _, w := range c.Violations {
			if w.Ordinal == v.Ordinal && w.What == what {
				if os.Getenv("VERIF_REPLAY_QUIET") == "" {
					fmt.Printf("replay %s: property %s is violated by case %d of unit %d once the cases before it have run\n  what: %s\n", path, v.Property, v.Ordinal, v.Unit, w.What)
				}
				return 1
			}
		}
		if os.Getenv("VERIF_REPLAY_QUIET") == "" {
			fmt.Printf("replay %s: property %s holds on this history now\n", path, v.Property)
		}
		return 0
	}
	c := NewCtx(p, t, 0)
	c.replay = true
	nv := p.Replay(c, v.Spec)
	quiet := os.Getenv("VERIF_REPLAY_QUIET") != ""
	if nv == nil {
		if !quiet {
			fmt.Printf("replay %s: property %s holds on this case now\n", path, v.Property)
		}
		return 0
	}
	if !quiet {
		fmt.Printf("replay %s: property %s is violated\n  what: %s\n", path, v.Property, nv.What)
		if nv.Detail != nil {
			d, _ := json.MarshalIndent(nv.Detail, "  ", " ")
			fmt.Printf("  %s\n", d)
		}
	}
	return 1
}
