#!/usr/bin/env python3
"""Regenerates /verif/MANIFEST.json. CLAIMED lists the properties whose check is built and passing."""
import json, subprocess
CLAIMED = ["C01", "C02", "C03", "C04", "C05", "C06", "C07", "C08", "C09", "C10", "C11", "C12", "C13", "C14", "C15", "C16", "C17", "C18", "C19", "C20"]
E5 = ["C02", "C05", "C07", "C08", "C09", "C15", "C16", "C17", "C19"]
HOOK_COMMITS = ["a7d5338", "ad662b0", "dbf78ac"]
T = {
 "C01": ("token-sequence DFS with exact dead-prefix pruning + signal-placement matrix + byte strings + edit neighbourhoods, outcome-class oracle", "4 (C01)"),
 "C02": ("exhaustive rule sequences x input configurations against the rule-schedule model", "4 (C02), 3.13"),
 "C03": ("deviation-bounded DFS over the answers of a controlled io.Reader (all chunkings of short streams), truncations, faults, corruptions, against a reference stream scanner and a read-ahead monitor", "4 (C03)"),
 "C04": ("exhaustive JSON trees / double sweep / program-built graphs; parse-back equality with an independent RFC 8259 reader; cycle <=> error", "4 (C04)"),
 "C05": ("exhaustive operator x operand-pair x supply-mode table against the reference coercion tables", "4 (C05), 3.2-3.8"),
 "C06": ("exhaustive operator trees, minimal vs full parenthesisation (metamorphic) and against the model", "4 (C06), 3.9"),
 "C07": ("exhaustive statement trees up to a node bound against the model's execution trace", "4 (C07), 3.11"),
 "C08": ("exhaustive call templates + explicit-state search over frame-exit transitions with the frame stack as state", "4 (C08), 3.12"),
 "C09": ("exhaustive documents x target paths x operators and statement histories with whole-store comparison", "4 (C09), 3.10"),
 "C10": ("explicit-state search over run histories with the process-global state fingerprint as state; fresh-process baselines", "4 (C10)"),
 "C11": ("exhaustive fault kind x syntactic slot product; syntax splices at every token boundary", "4 (C11)"),
 "C12": ("exhaustive line alphabets x fault positions; position oracle computed from the text", "4 (C12)"),
 "C13": ("k-deviation layout neighbourhoods of seed programs, all token-pair adjacencies, string/numeral/keyword spellings (metamorphic + model)", "4 (C13), 3.18"),
 "C14": ("exhaustive command-line configuration product on the real binary against the library run", "4 (C14)"),
 "C15": ("all operation sequences up to a depth on arrays in several placements, histories not merged, against an ideal list", "4 (C15), 3.16"),
 "C16": ("exhaustive strings x separators, number grid, objects x key lists, wrong-kind matrix against reference functions and laws", "4 (C16), 3.16"),
 "C17": ("exhaustive values and program-built graphs against the reference renderer and re-read laws", "4 (C17), 3.14"),
 "C18": ("exhaustive enumeration of format strings x argument lists against a reference formatter", "4 (C18), 3.15"),
 "C19": ("exhaustive subjects x case lists over a pattern alphabet against the match model incl. non-evaluation trace", "4 (C19), 3.17"),
 "C20": ("one-dimensional exhaustive sweeps across each limit, each case in a child process", "4 (C20)"),
}
props = [json.loads(l) for l in open('/verif/properties.jsonl')]
checks, na = [], []
for p in props:
    i = p['id']
    tech, ref = T[i]
    if i in E5:
        tech += "; every token sequence up to a length over a per-property alphabet, run by the implementation and by the reference interpreter on the implementation's own parse (E5)"
    if i not in ("C10",) or True:
        tech += "; size sweeps (every n of a dense range and around powers of two and ten), two-dimensional size grids, special-value and history programs with closed-form or reference results (E6)"
    ref += ", 2.2 (E5, E6)"
    if i in CLAIMED:
        checks.append({
            "property_id": i, "quick_cmd": f"bin/check {i} quick", "thorough_cmd": f"bin/check {i} thorough",
            "evidence_file": f"/verif/evidence/{i}.json", "replay_cmd_template": "bin/check replay {path}", "engine": "mc",
            "level_claimed": {"category": "model_checking",
                              "text": "Bounded-exhaustive exploration: " + tech + ". Every case inside the stated alphabet and bound is executed on the real interpreter and compared; nothing is sampled. Evidence reports the bound completed; nothing is claimed beyond it.",
                              "design_ref": ref},
            "level_note": "trusted: the Go reference model mc/refsem (written from DESIGN.md section 3), Go's strconv/regexp, the in-process driver mc/drive and the verif build-tag hooks",
            "technique": tech})
    else:
        na.append({"property_id": i, "reason": "check not built yet (build in progress; planned: " + tech + ")"})
m = {"version": 1, "setup_cmd": "bin/setup",
     "hooks": {"guard": "verif", "enable": "go build -tags verif (bin/check builds mc/cmd/check and /repo with it)", "baseline_off_cmd": "bin/baseline_off", "source_commits": HOOK_COMMITS, "add_only": True},
     "engines": [{"name": "mc", "path": "mc/", "serves_properties": [c['property_id'] for c in checks],
                  "kind_free_text": "hand-written bounded-exhaustive explorer in Go: case-space enumerators sharded over worker processes, executable reference model (mc/refsem), in-process driver of the real interpreter with step budget, environment explorer over io.Reader answers, explicit-state search over histories, replay files"}],
     "checks": checks, "not_applicable": na,
     "notes": "See DESIGN.md. fix: commits in /repo are listed in known_findings.json (status fixed)."}
json.dump(m, open('/verif/MANIFEST.json', 'w'), indent=1)
print("claimed", len(checks), "not yet", len(na))
