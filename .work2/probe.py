import subprocess,time
def runp(prog):
    open('p.jqawk','w').write(prog)
    r=subprocess.run(['/tmp/jq-fix','-f','p.jqawk'],input=b'[1]',capture_output=True)
    return r.returncode, r.stdout[:20]
for e in [150,200,250]:
    d=4000
    prog="function f(n) { if (n == 0) { return 0 } "+"if (1) { "*e+"return 1 + f(n - 1)"+" }"*e+" }\nBEGIN { print f(%d) }\n"%d
    print('blocks',e,d,runp(prog))
for e in [80,90]:
    d=4000
    prog="function f(n) { if (n == 0) { return 0 } return "+"1 + ("*e+"f(n - 1)"+")"*e+" }\nBEGIN { print f(%d) }\n"%d
    print('parens',e,d,runp(prog))
for e in [40,60,80]:
    d=4000
    prog="function f(n) { if (n == 0) { return 0 } return "+"[ "*e+"f(n - 1)"+" ]"*e+"[0]"*e+" + 1 }\nBEGIN { print f(%d) }\n"%d
    print('brackets',e,d,runp(prog))
for e in [40,80,160]:
    d=4000
    prog="function g(x) { return x }\nfunction f(n) { if (n == 0) { return 0 } return "+"g("*e+"f(n - 1)"+")"*e+" + 1 }\nBEGIN { print f(%d) }\n"%d
    print('calls',e,d,runp(prog))
