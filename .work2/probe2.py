import subprocess,time,sys
jq=sys.argv[1]
def runp(prog):
    open('p2.jqawk','w').write(prog)
    t=time.time()
    r=subprocess.run([jq,'-f','p2.jqawk'],input=b'[1]',capture_output=True)
    return r.returncode, r.stdout[:20], r.stderr[-60:].replace(b'\n',b' '), round(time.time()-t,2)
for e,d in [(8,4095),(20,4000),(30,4000),(35,4000),(60,2000),(100,1000),(1000,100),(100000,1)]:
    prog="function f(n) { if (n == 0) { return 0 } return "+"1 + ("*e+"f(n - 1)"+")"*e+" }\nBEGIN { print f(%d) }\n"%d
    print('parens',e,d,runp(prog))
prog="BEGIN { for (i = 0; i < 3000000; i++) { s = s + i * 2 - (i % 3) } print s }\n"
print('loop',runp(prog))
